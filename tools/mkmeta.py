#!/usr/bin/env python3
"""tools/mkmeta.py <seeded-id> <property> <round>: (re)writes seeded/<id>/meta.json from meta.txt, confirm.txt, result.txt"""
import json, os, re, sys
sid, pid, rnd = sys.argv[1], sys.argv[2], int(sys.argv[3])
d = os.path.join(os.path.dirname(os.path.abspath(__file__)), "..", "seeded", sid)
rd = lambda n: open(os.path.join(d, n)).read() if os.path.exists(os.path.join(d, n)) else ""
old = json.load(open(os.path.join(d, "meta.json"))) if os.path.exists(os.path.join(d, "meta.json")) else {}
txt, res, conf, patch = rd("meta.txt"), rd("result.txt"), rd("confirm.txt"), rd("patch.diff")
first = res.splitlines()[0] if res else ""
sigs = sorted(set(re.findall(r"signature: (\S+)", res)))
m = re.search(r"(?is)(needs?|needed|trigger|manifest)[^\n]*\n?(.{0,700})", txt)
meta = dict(old)
meta.update(id=sid, property=pid, round=rnd,
            origin="fresh sub-agent given only the property text and a scratch worktree of /repo; confirmed by tools/ingest.sh "
                   "(suite passes with the change, demonstration fails with it and passes without it: confirm.txt)",
            title=old.get("title") or (txt.strip().splitlines()[0][:200] if txt.strip() else sid),
            files_changed=sorted(set(re.findall(r"^\+\+\+ b/(\S+)", patch, re.M))),
            needs_to_manifest=old.get("needs_to_manifest") or (m.group(0)[:700] if m else ""),
            demo=sorted(f for f in os.listdir(d) if f.endswith(".py")),
            ran=["tools/ingest.sh (see confirm.txt)", f"tools/seedtest.sh {sid} {pid}"],
            check=dict(command=f"tools/seedtest.sh {sid} {pid}", result=first, reported=" exit=1 " in first + " ", signatures=sigs[:8]))
json.dump(meta, open(os.path.join(d, "meta.json"), "w"), indent=1)
print(sid, meta["check"]["result"], meta["check"]["reported"])
