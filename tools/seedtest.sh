#!/bin/sh
# usage: tools/seedtest.sh <seeded-dir-name> <property id> [tier]
# Runs the check of <property> against a scratch copy of /repo with the seeded patch applied
# (equivalent to `git -C /repo apply`, without touching /repo); result -> seeded/<name>/result.txt
cd "$(dirname "$0")/.." || exit 2
name=$1; pid=$2; tier=${3:-quick}
d=/var/tmp/seed_$name
rm -rf $d && mkdir -p $d && cp -r /repo/aiokafka /repo/setup.py /repo/pyproject.toml /repo/README.rst /repo/MANIFEST.in $d/ 2>/dev/null
find $d -name "*.so" -delete
(cd $d && patch -p1 -s < /verif/seeded/$name/patch.diff) || { echo "PATCH FAILED" > seeded/$name/result.txt; exit 2; }
start=$(date +%s)
VERIF_REPO=$d VERIF_EVID_SUFFIX=.seed ./check $pid --tier $tier > /var/tmp/seed_$name.log 2>&1
rc=$?
end=$(date +%s)
{ echo "property=$pid tier=$tier exit=$rc wall=$((end-start))s"; grep -E "^VIOLATION|signature:|KNOWN-FINDING|MACHINERY" /var/tmp/seed_$name.log | head -12; tail -1 /var/tmp/seed_$name.log; } > seeded/$name/result.txt
rm -rf $d
cat seeded/$name/result.txt
