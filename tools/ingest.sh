#!/bin/sh
# usage: tools/ingest.sh <worktree> <out-dir/MUTk> <new-seeded-id> <property>
# Confirms a sub-agent's change in its scratch worktree (suite passes with it; demonstration fails with it and passes
# without it) and files it under seeded/<id>/ ; the worktree is left clean.
wt=$1; src=$2; id=$3; pid=$4
dst=/verif/seeded/$id; mkdir -p $dst
git -C $wt checkout -q -- . ; git -C $wt clean -fdq -e '*.so' >/dev/null 2>&1
cp $src/patch.diff $dst/patch.diff
for f in $src/*.py; do cp $f $dst/; done
cp $src/meta.txt $dst/meta.txt 2>/dev/null
demo=$(ls $src/*.py | grep -v common_ | head -1); dn=$(basename $demo)
run_demo() { if grep -q "^def test_\|^async def test_\|^    def test_" $demo; then (cd $wt && PYTHONPATH=$wt timeout 300 /venv/bin/python -m pytest -q -p no:cacheprovider -x $demo 2>&1 | tail -3); else (cd $wt && PYTHONPATH=$wt timeout 300 /venv/bin/python $demo 2>&1 | tail -3); fi; echo "rc=$?"; }
base=$(run_demo)
git -C $wt apply $dst/patch.diff || { echo "APPLY FAILED"; exit 2; }
if git -C $wt diff --name-only | grep -q "\.pyx$"; then (cd $wt && /venv/bin/python setup.py build_ext --inplace >/dev/null 2>&1); fi
mut=$(run_demo)
suite=$(cd $wt && PYTHONPATH=$wt timeout 900 /venv/bin/python -m pytest -q -p no:cacheprovider --timeout=900 --continue-on-collection-errors 2>&1 | tail -1)
git -C $wt checkout -q -- .
{ echo "demo=$dn"; echo "--- demo on unchanged worktree:"; echo "$base"; echo "--- demo with the change:"; echo "$mut"; echo "--- suite with the change: $suite"; } > $dst/confirm.txt
cat $dst/confirm.txt
