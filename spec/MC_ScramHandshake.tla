-------------------------- MODULE MC_ScramHandshake --------------------------
(* Exhaustive instances of ScramHandshake: every user name of the set, every *)
(* server strategy (kind x produced server-first x delivered server-first x  *)
(* reply).  Every *terminal* behaviour is also written to BEHAVIOUR_FILE so  *)
(* that the harness replays each of them into the real ScramAuthenticator.   *)
(* (run with -workers 1: the collector uses a TLCSet register)               *)
(***************************************************************************)
EXTENDS ScramHandshake, TLCExt, Json, IOUtils

RECURSIVE SeqsUpTo(_, _)
SeqsUpTo(A, n) == IF n = 0 THEN {<<>>}
                  ELSE LET S == SeqsUpTo(A, n - 1)
                       IN S \cup {Append(s, a) : s \in S, a \in A}

\* quick: x=120 y=121 ; nonce "xy", server nonces over {x,y} up to length 3
QUsers == {<<97>>, <<44, 61>>, <<61, 50, 67>>, <<1076, 44, 98, 61>>}
QCNonces == {<<120, 121>>}
QSFirsts == [r : SeqsUpTo({120, 121}, 3), s : {"s1", "s2"}, i : {1, 4096}]
QFlipBits == {0, 7, 255}
QTruncLens == {0, 1, 31}

\* thorough: all user names over {a , =} up to length 2 and two more,
\* server nonces over {x,y,z} up to length 4
TUsers == (SeqsUpTo({97, 44, 61}, 2) \ {<<>>}) \cup {<<61, 50, 67>>, <<1076, 44, 98, 61>>}
TCNonces == {<<120, 121>>}
TSFirsts == [r : SeqsUpTo({120, 121, 122}, 4), s : {"s1", "s2"}, i : {1, 4096}]
TFlipBits == {0, 7, 100, 255, 511}
TTruncLens == {0, 1, 31, 63}

\* compact descriptor of a terminal behaviour (the reply is named, not spelled
\* out: the harness rebuilds the term and Trace_ScramHandshake!ReplyOK checks it)
ReplyTag == IF sfinal = None THEN <<"none", 0>>
            ELSE IF "e" \in DOMAIN sfinal THEN <<"error", 0>>
            ELSE IF sfinal.v.op = "Flip" THEN <<"flip", sfinal.v.bit>>
            ELSE IF sfinal.v.op = "Trunc" THEN <<"trunc", sfinal.v.n>>
            ELSE IF sfinal.v = SrvSig THEN <<"sig", 0>>
            ELSE <<"wrongpw", 0>>
\* liveness instance (temporal properties are costly on these large states)
LUsers == {<<97>>, <<44, 61>>}

ASSUME TLCSet(1, <<>>)
Behaviour ==
  [kind |-> srv.kind, user |-> user, cnonce |-> cnonce, own |-> srv.sf,
   delivered |-> sfirst, reply |-> ReplyTag, outcome |-> phase, abortAt |-> abortAt]
Collect == IF Terminal THEN TLCSet(1, Append(TLCGet(1), Behaviour)) ELSE TRUE
WriteBehaviours == JsonSerialize(IOEnv.BEHAVIOUR_FILE, TLCGet(1))
=============================================================================
