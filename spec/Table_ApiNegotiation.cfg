SPECIFICATION TSpec
CONSTRAINT Collect
POSTCONDITION WriteVerdicts
CHECK_DEADLOCK FALSE
