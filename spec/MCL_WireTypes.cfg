SPECIFICATION Spec
CONSTANTS
  Dense = 50000
INVARIANT RoundTrip
INVARIANT ByteRange
INVARIANT FixedWidth
INVARIANT VarintLength
INVARIANT ZigZagAgrees
INVARIANT PrefixRule
CHECK_DEADLOCK FALSE
