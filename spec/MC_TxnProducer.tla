--------------------------- MODULE MC_TxnProducer ---------------------------
EXTENDS TxnProducer
CONSTANTS Faults
VARIABLE nf
mcvars == <<vars, nf>>
MCInit == Init /\ nf = 0
K(A) == A /\ UNCHANGED nf
F(A) == nf < Faults /\ A /\ nf' = nf + 1
ABegin == K(Begin)
ASend == \E p \in Parts : K(Send(p))
ASendOffsets == K(SendOffsets)
ACommit == K(Commit)
AAbort == K(Abort)
AAddPartitions == K(AddPartitions)
AAbortableError == F(AbortableError)
ANewInstance == F(NewInstance)
AFenced == K(Fenced)
AAddOffsets == K(AddOffsets)
ATxnOffsetCommit == K(TxnOffsetCommit)
AProduce == \E p \in Parts : K(Produce(p))
AAck == \E p \in Parts : K(Ack(p))
AEndTxn == K(EndTxn)
AWriteMarker == \E p \in Parts : K(WriteMarker(p))
AGroupMarker == K(GroupMarker)
AComplete == K(Complete)
Next == ABegin \/ ASend \/ ASendOffsets \/ ACommit \/ AAbort \/ AAddPartitions \/ AAbortableError \/ ANewInstance
        \/ AFenced \/ AAddOffsets \/ ATxnOffsetCommit \/ AProduce \/ AAck \/ AEndTxn \/ AWriteMarker \/ AGroupMarker
        \/ AComplete
Spec == MCInit /\ [][Next]_mcvars
Fair == WF_mcvars(AAddPartitions) /\ WF_mcvars(AAddOffsets) /\ WF_mcvars(ATxnOffsetCommit) /\ WF_mcvars(AProduce)
        /\ WF_mcvars(AAck) /\ WF_mcvars(AEndTxn) /\ WF_mcvars(AWriteMarker) /\ WF_mcvars(AGroupMarker)
        /\ WF_mcvars(AComplete) /\ WF_mcvars(AFenced)
LiveSpec == Spec /\ Fair
\* C07: with only retriable faults every transaction ends the way the application asked
EndsAsRequested == [](ts \in {"COMMITTING", "ABORTING"} => <>(ts \in {"READY", "FATAL"}))
\* C16: abort after an abortable error returns the producer to a state in which a new transaction can start
AbortRecovers == [](ts = "ABORTING" => <>(ts \in {"READY", "FATAL"}))
=============================================================================
