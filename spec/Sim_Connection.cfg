SPECIFICATION SimSpec
CONSTANTS
  CorrMax = 3
  Huge = 1000
  MaxReq = 3
  MaxFrames = 3
  FaultBudget = 1
  BodyLen = 1
  Vias = {FALSE, TRUE}
  InitCorrs = {2}
  Fine = TRUE
  KindNames = {"plain", "flex", "quirk"}
  MaxDone = 2
INVARIANT Collect
INVARIANT OnlyOwnReply
INVARIANT InRequestOrder
INVARIANT NoCrossDelivery
INVARIANT FailureFailsAll
CHECK_DEADLOCK FALSE
