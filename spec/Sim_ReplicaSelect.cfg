SPECIFICATION Spec
CONSTANTS
  TPs = {"t-0", "t-1", "t-2"}
  Nodes = {0, 1, 2}
  TTL = 3
  MaxTime = 30
  MaxSteps = 40
INVARIANT Collect
INVARIANT NoStickToFailed
INVARIANT ExpiredNotUsed
CHECK_DEADLOCK FALSE
