SPECIFICATION Spec
CONSTANTS
  Parts = {p1}
  MaxSeeks = 2
  MaxPauses = 1
INVARIANT ExactlyVisibleOnceInOrder
INVARIANT PositionBounds
INVARIANT StartIsLegal
INVARIANT NoErrorUnlessPolicyNone
CHECK_DEADLOCK FALSE
