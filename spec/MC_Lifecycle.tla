---------------------------- MODULE MC_Lifecycle ----------------------------
EXTENDS Lifecycle
ConsumerComps == <<"coord", "fetch", "client">>
ProducerComps == <<"sender", "client">>
=============================================================================
