SPECIFICATION TraceSpec
CONSTANTS
  Kind = "assign"
  Comps <- ConsumerComps
  MaxLive = 2
  AutoCommit = TRUE
  Static = FALSE
  FlushBounded = TRUE
  CommitGivesUp = TRUE
  SwallowCancel = TRUE
  ConnLossAtClose = FALSE
CONSTRAINT Rec
POSTCONDITION Post
CHECK_DEADLOCK FALSE
