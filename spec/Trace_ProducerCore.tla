------------------------- MODULE Trace_ProducerCore -------------------------
(* Trace specification: executions of the REAL AIOKafkaProducer on the       *)
(* simulated cluster (harness/drv_producer.py) must be behaviours of         *)
(* ProducerCore; every invariant of ProducerCore is evaluated in every state *)
(* of the trace (first violation recorded per trace, verdicts are total).    *)
(*                                                                           *)
(* Event -> action map (events carry arguments, so validation is linear):    *)
(*   Config       TraceInit (consumed by Init)                               *)
(*   Append       Send(t, rid, tp, ts)             MessageBatch.append       *)
(*   Drain        Drain(ps) + req'[n].bs = logged  drain_by_nodes            *)
(*   BrokerApply / BrokerDup / BrokerReject  BrokerPart (simulated leader;   *)
(*                the outcome the simulator chose must be the spec's)        *)
(*   Fault error  BrokerError                                                *)
(*   SendOk       ReplyArrives      client.send returned the response        *)
(*   SendFailed   ConnLost          client.send raised                       *)
(*   Done / Fail / NoAck   DoneCore / FailCore / NoAckCore / ExpireCore      *)
(*   Reenqueue    Reenqueue         MessageAccumulator.reenqueue             *)
(*   Release      Release           end of Sender._send_produce_req          *)
(*   MdUpdate     MdUpdate          ClusterMetadata.update_metadata          *)
(*   LeaderMoves  LeaderMoves       (cluster)                                *)
(*   Resolved     done-callback of a send() future: res/nres := real values  *)
(*   FlushCall/FlushReturn, StopCall/StopReturn, Quiet: covered-by checks    *)
EXTENDS ProducerCore, TraceKit

NoLeaderInt == -1   \* cfg files cannot spell a negative number

VARIABLES tid, l, waitset

tvars == <<vars, tid, l, waitset>>

Tr == Traces[tid]
Ev == Tr[l]
Cfg == Tr[1]
IsEvent(e) == l <= Len(Tr) /\ Ev.e = e /\ l' = l + 1 /\ UNCHANGED tid
NodeOf(b) == CHOOSE n \in Nodes : b \in req[n].bs
InReq(b) == \E n \in Nodes : b \in req[n].bs
BigCap == 1000000

TraceInit ==
  /\ tid \in 1..NT
  /\ l = 2
  /\ waitset = {}
  /\ faults = 0
  /\ LET c == Traces[tid][1] IN
     /\ InitWith([idem |-> c.idem, acks0 |-> c.acks0,
                  tst |-> [p \in Parts |-> IF p \in DOMAIN c.tst THEN c.tst[p] ELSE 0]],
                 [p \in Parts |-> IF p \in DOMAIN c.start THEN <<c.start[p][1], c.start[p][2]>> ELSE <<0, 0>>],
                 [p \in Parts |-> IF p \in DOMAIN c.leaders THEN c.leaders[p] ELSE 0],
                 [p \in Parts |-> IF p \in DOMAIN c.md THEN c.md[p] ELSE NoLeader])
  \* the client's initial view is what the trace says (topic metadata may not be loaded yet)


TAppend ==
  /\ IsEvent("Append")
  /\ Send(Ev.t, Ev.rid, Ev.tp, Ev.ts, BigCap)
  /\ Ev.b = (IF queue[Ev.tp] = <<>> THEN Len(batch) + 1 ELSE Last(queue[Ev.tp]))
  /\ UNCHANGED waitset

TDrain ==
  /\ IsEvent("Drain")
  /\ LET bs == UNION {Range(Ev.reqs[i][2]) : i \in 1..Len(Ev.reqs)}
         ps == {batch[b].p : b \in bs}
     IN /\ Drain(ps)
        /\ \A i \in 1..Len(Ev.reqs) : req'[Ev.reqs[i][1]].bs = Range(Ev.reqs[i][2])
        /\ \A n \in Nodes : (\A i \in 1..Len(Ev.reqs) : Ev.reqs[i][1] # n) => req'[n] = req[n]
  /\ UNCHANGED <<faults, waitset>>

WireSeq == <<Ev.seq[1], Ev.seq[2]>>

At == IF Ev.rts = <<>> THEN 0 ELSE Ev.rts[1]
TBrokerApply ==
  /\ IsEvent("BrokerApply")
  /\ IF conf.acks0
     THEN /\ BrokerPart0(Ev.node, Ev.tp, WireSeq, Ev.rids, At)
          /\ Len(log'[Ev.tp]) = Ev.base + Len(Ev.rids) /\ Len(log[Ev.tp]) = Ev.base
     ELSE /\ BrokerPart(Ev.node, Ev.tp, WireSeq, Ev.rids, At)
          /\ req'[Ev.node].out[Ev.tp].k = "ok"
          /\ req'[Ev.node].out[Ev.tp].base = Ev.base
  /\ \A i \in 1..Len(Ev.rids) : log'[Ev.tp][Ev.base + i].ts = Ev.rts[i]
  /\ UNCHANGED <<faults, waitset>>

TBrokerDup ==
  /\ IsEvent("BrokerDup")
  /\ BrokerPart(Ev.node, Ev.tp, WireSeq, Ev.rids, 0)
  /\ req'[Ev.node].out[Ev.tp].k = "dup"
  /\ req'[Ev.node].out[Ev.tp].base = Ev.base
  /\ UNCHANGED <<faults, waitset>>

TBrokerReject ==
  /\ IsEvent("BrokerReject")
  /\ IF conf.acks0
     THEN BrokerPart0(Ev.node, Ev.tp, WireSeq, Ev.rids, 0) /\ log' = log
     ELSE /\ BrokerPart(Ev.node, Ev.tp, WireSeq, Ev.rids, 0)
          /\ req'[Ev.node].out[Ev.tp].k = (CASE Ev.code = 6 -> "notleader" [] Ev.code = 45 -> "ooo" [] OTHER -> "other")
  /\ UNCHANGED <<faults, waitset>>

RetriableCode(c) == c \in {3, 5, 6, 7, 19, 20}

TFault ==
  /\ IsEvent("Fault")
  /\ IF Ev.kind = "error" /\ Ev.api = "Produce"
     THEN /\ BrokerError(Ev.node, IF RetriableCode(Ev.code) THEN "retriable" ELSE "fatal")
          /\ hard' = (hard \/ ~RetriableCode(Ev.code))
          /\ UNCHANGED faults
     ELSE IF conf.acks0 /\ Ev.api = "Produce" /\ Ev.kind = "drop_before" /\ wire0[Ev.node] # <<>>
     THEN Lose0(Ev.node) /\ UNCHANGED faults
     ELSE UNCHANGED vars       \* drop_before / drop_after / lose_reply: the client-side
                               \* consequence is the SendFailed event
  /\ UNCHANGED waitset

TSendOk ==
  /\ IsEvent("SendOk")
  /\ IF conf.acks0 THEN UNCHANGED vars ELSE ReplyArrives(Ev.node)
  /\ UNCHANGED waitset

TSendFailed ==
  /\ IsEvent("SendFailed")
  /\ ConnLost(Ev.node)
  /\ UNCHANGED <<faults, waitset>>

TDone ==
  /\ IsEvent("Done")
  /\ InReq(Ev.b)
  /\ LET n == NodeOf(Ev.b) IN
     /\ DoneCore(n, Ev.b)
     /\ Ev.base = req[n].out[batch[Ev.b].p].base      \* the client was told what the broker did
     /\ Ev.ts = req[n].out[batch[Ev.b].p].ts
  /\ UNCHANGED <<res, nres, waitset>>

TNoAck ==
  /\ IsEvent("NoAck")
  /\ IF Ev.empty THEN UNCHANGED vars
     ELSE InReq(Ev.b) /\ NoAckCore(NodeOf(Ev.b), Ev.b) /\ UNCHANGED <<res, nres>>
  /\ UNCHANGED waitset

TFail ==
  /\ IsEvent("Fail")
  /\ IF InReq(Ev.b)
     THEN FailCore(NodeOf(Ev.b), Ev.b)
     ELSE ExpireCore(batch[Ev.b].p) /\ Head(queue[batch[Ev.b].p]) = Ev.b
  /\ UNCHANGED <<res, nres, waitset>>

TReenqueue ==
  /\ IsEvent("Reenqueue")
  /\ Ev.ok /\ InReq(Ev.b)
  /\ Reenqueue(NodeOf(Ev.b), Ev.b)
  /\ UNCHANGED waitset

TRelease ==
  /\ IsEvent("Release")
  /\ Ev.ok
  /\ Release(Ev.node)
  /\ UNCHANGED waitset

TMdUpdate ==
  /\ IsEvent("MdUpdate")
  /\ MdUpdate([p \in Parts |-> IF p \in DOMAIN Ev.view THEN Ev.view[p] ELSE NoLeader])
  /\ UNCHANGED <<faults, waitset>>

TLeaderMoves ==
  /\ IsEvent("LeaderMoves")
  /\ LeaderMoves(Ev.tp, Ev.node)
  /\ UNCHANGED <<faults, waitset>>

BatchWith(r) == CHOOSE b \in 1..Len(batch) : r \in Range(batch[b].recs)
Known(r) == \E b \in 1..Len(batch) : r \in Range(batch[b].recs)

\* done-callback of a send() future fired: the real values go into res / nres;
\* a future resolves only when its batch was completed, and consistently with it
TResolved ==
  /\ IsEvent("Resolved")
  /\ Known(Ev.rid)
  /\ LET b == BatchWith(Ev.rid) IN
       \/ batch[b].st = "done" /\ Ev.k \in {"ok", "noack"}
       \/ batch[b].st = "failed" /\ Ev.k = "err"
       \/ Ev.k = "cancelled"          \* the APPLICATION cancelled the future it was given (allowed at any time; the
                                      \* record is sent all the same and the other futures of the batch are not affected)
  /\ Ev.k = "ok" => Ev.tp = batch[BatchWith(Ev.rid)].p
  /\ res' = Upd(res, Ev.rid, [k |-> Ev.k, off |-> Ev.off, ts |-> Ev.ts, tt |-> Ev.tt])
  /\ nres' = Upd(nres, Ev.rid, (IF Ev.rid \in DOMAIN nres THEN nres[Ev.rid] ELSE 0) + 1)
  /\ UNCHANGED <<conf, issued, acc, rts, batch, queue, muted, busy, nextSeq, md, ldr, req,
                 log, bst, pres, wire0, faults, hard, waitset>>

Completed(r) == Known(r) /\ batch[BatchWith(r)].st \in {"done", "failed"}

\* flush() / stop(): return only after every previously accepted record is resolved
TCall ==
  /\ (IsEvent("FlushCall") \/ IsEvent("StopCall"))
  /\ UNCHANGED <<vars, waitset>>

TReturn ==
  /\ (IsEvent("FlushReturn") \/ IsEvent("StopReturn"))
  /\ \A i \in 1..Len(Ev.rids) : Completed(Ev.rids[i])
  /\ Ev.undone = <<>>
  /\ UNCHANGED <<vars, waitset>>

\* end of the quiet period that follows the last fault: everything accepted is resolved
TQuiet ==
  /\ IsEvent("Quiet")
  /\ Ev.pending = <<>>
  /\ AllResolved
  /\ UNCHANGED <<vars, waitset>>

\* send() raised (e.g. KafkaTimeoutError waiting for a full batch to drain): the
\* record was never accepted
TSendRaised == IsEvent("SendRaised") /\ UNCHANGED <<vars, waitset>>

TraceNext ==
  \/ TSendRaised
  \/ TAppend \/ TDrain \/ TBrokerApply \/ TBrokerDup \/ TBrokerReject \/ TFault
  \/ TSendOk \/ TSendFailed \/ TDone \/ TNoAck \/ TFail \/ TReenqueue \/ TRelease
  \/ TMdUpdate \/ TLeaderMoves \/ TResolved \/ TCall \/ TReturn \/ TQuiet

TraceSpec == TraceInit /\ [][TraceNext]_tvars

\* first violated property (checked in every state of every trace)
Bad ==
  IF ~OneInFlightPerPartition THEN "OneInFlightPerPartition"
  ELSE IF ~SeqContiguous THEN "SeqContiguous"
  ELSE IF ~LogFromAccepted THEN "LogFromAccepted"
  ELSE IF ~TaskOrder THEN "TaskOrder"
  ELSE IF ~AtMostOnce THEN "AtMostOnce"
  ELSE IF ~AckedExactlyOnce THEN "AckedExactlyOnce"
  ELSE IF ~DuplicatesAreWholeBatches THEN "DuplicatesAreWholeBatches"
  ELSE IF ~ResolvedAtMostOnce THEN "ResolvedAtMostOnce"
  ELSE IF ~TrueCoordinates THEN "TrueCoordinates"
  ELSE IF ~Acks0NoMetadata THEN "Acks0NoMetadata"
  ELSE IF ~AcksMetadata THEN "AcksMetadata"
  ELSE IF ~IdemNeverFails THEN "IdemNeverFails"
  ELSE ""

View == [log |-> log, res |-> res, queue |-> queue, muted |-> muted, busy |-> busy, req |-> req, md |-> md, ldr |-> ldr,
         nextSeq |-> nextSeq, st |-> [b \in 1..Len(batch) |-> <<batch[b].p, batch[b].st, batch[b].seq>>]]

Rec == Record(tid, l, Bad, IF IOEnv.DIAG = "1" THEN ToString(View) ELSE "")
Post == WriteVerdicts
=============================================================================
