------------------------------ MODULE Connection ------------------------------
(* One AIOKafkaConnection (aiokafka/conn.py) after connect(): pipelined       *)
(* requests, the length-prefixed frame reader task, head-of-queue matching    *)
(* of responses, close().  Property C12: each waiter receives only the        *)
(* response carrying its correlation id, in request order; a correlation      *)
(* mismatch, malformed frame or transport loss closes the connection and      *)
(* fails every outstanding waiter with a connection error.                    *)
(*                                                                            *)
(* The incoming byte stream is modelled at byte-count granularity: a frame is *)
(* 4 size bytes followed by `len` bytes (response header + body); Chunk(n)    *)
(* puts n more bytes into the StreamReader buffer; the reader task consumes   *)
(* exactly 4 bytes (RdSize), then exactly `size` bytes (the frame actions).   *)
(*                                                                            *)
(* action            code                                                     *)
(*   Send            conn.send 408-444 (_next_correlation_id 583-585)         *)
(*   PeerSends       (environment) the peer emits a frame                     *)
(*   Chunk           StreamReaderProtocol.data_received -> reader buffer      *)
(*   RdSize          _read 521-522  readexactly(4); unpack ">i"               *)
(*   Deliver / Quirk082 / SkipDone / Mismatch / DecodeFails / HeaderFails /   *)
(*   UnsolicitedFrame / FormMismatch    _read 524-529 + _handle_frame 532-581 *)
(*   RdFail          readexactly raises (EOF: IncompleteReadError, reset: the *)
(*                   transport's exception); a negative size raises in RdSize *)
(*   ReaderErrClose  _on_read_task_error 358-372 -> close(CONNECTION_BROKEN)  *)
(*   WaiterTimeout   util.wait_for 41-45: the future is cancelled, its entry  *)
(*                   STAYS in the queue                                       *)
(*   ClientClose     client.send 477-482: timeout -> close(CONNECTION_TIMEOUT)*)
(*   Cancel          the caller cancels the awaitable                         *)
(*   UserClose       conn.close() 470-498                                     *)
(*   Eof / Reset     (environment) transport half-closed / lost               *)
(******************************************************************************)
EXTENDS Naturals, Sequences, FiniteSets

CONSTANTS CorrMax,    \* last correlation id before the counter wraps to 0 (code: 2^31 - 1; CorrMod = CorrMax + 1)
          Huge        \* a size field larger than everything the peer will ever send

VARIABLES
  sent,       \* history: sent[i] = [corr, flex, quirk, via] of the i-th accepted send()
  waiter,     \* waiter[i] = [k, got, gotCorr, cl]: outcome of the awaitable of request i
              \*   k in pending | timedOut | cancelled | ok | connErr | corrErr
              \*   got / gotCorr = mark / correlation id of the frame delivered (k = ok)
              \*   cl = client.send has run its timeout handler for it
  reqs,       \* conn._requests: indices into sent, in send order
  nextCorr,   \* conn._correlation_id
  wire,       \* frames emitted by the peer and not yet consumed completely by the reader
  nframes,    \* number of frames emitted so far (frame marks)
  avail,      \* bytes in the StreamReader buffer (delivered, not consumed)
  rx,         \* reader task: [ph |-> "size" | "body" | "failed" | "stopped", need |-> bytes]
  tp,         \* transport: "up" | "eof" | "lost" | "closed"
  open,       \* conn._reader is not None
  reason,     \* reason of the effective close()
  failure     \* first failure detected: "none" | "mismatch" | "malformed" | "lost"

vars == <<sent, waiter, reqs, nextCorr, wire, nframes, avail, rx, tp, open, reason, failure>>

Range(s) == {s[i] : i \in DOMAIN s}
HdrLen(flex) == IF flex THEN 5 ELSE 4        \* ResponseHeader_v0: int32; v1: int32 + empty tagged fields
NextCorrOf(c) == IF c = CorrMax THEN 0 ELSE c + 1
Pending(i) == waiter[i].k = "pending"
SizePhase == [ph |-> "size", need |-> 4]
Stopped == [ph |-> "stopped", need |-> 0]
Failed == [ph |-> "failed", need |-> 0]
NoteFailure(why) == failure' = IF failure = "none" THEN why ELSE failure

\* a frame: [corr, sz \in {"ok","neg","huge"}, len, hdr, body, flex, mark]
\*   len  bytes that follow the size field on the wire (sz = "ok": the size field says len)
\*   hdr  those bytes start with a complete response header of form `flex`
\*   body the rest decodes as the response type of the request it is matched with
RECURSIVE WireBytes(_)
WireBytes(w) == IF w = <<>> THEN 0 ELSE 4 + Head(w).len + WireBytes(Tail(w))
\* bytes of `wire` still at the peer / in flight
Undelivered == WireBytes(wire) - (IF rx.ph = "body" THEN 4 ELSE 0) - avail

InitWith(c0) ==
  /\ sent = <<>> /\ waiter = <<>> /\ reqs = <<>>
  /\ nextCorr = c0
  /\ wire = <<>> /\ nframes = 0 /\ avail = 0
  /\ rx = SizePhase
  /\ tp = "up" /\ open = TRUE /\ reason = "" /\ failure = "none"

----------------------------------------------------------------------------
\* conn.send: next correlation id (with wrap), write, append the waiter
Send(flex, quirk, via) ==
  /\ open
  /\ LET c == NextCorrOf(nextCorr) IN
     /\ nextCorr' = c
     /\ sent' = Append(sent, [corr |-> c, flex |-> flex, quirk |-> quirk, via |-> via])
  /\ waiter' = Append(waiter, [k |-> "pending", got |-> 0, gotCorr |-> 0, cl |-> FALSE])
  /\ reqs' = Append(reqs, Len(sent) + 1)
  /\ UNCHANGED <<wire, nframes, avail, rx, tp, open, reason, failure>>

PeerSends(f) ==
  /\ tp = "up"
  /\ f.mark = nframes + 1
  /\ nframes' = nframes + 1
  /\ wire' = Append(wire, f)
  /\ UNCHANGED <<sent, waiter, reqs, nextCorr, avail, rx, tp, open, reason, failure>>

Chunk(n) ==
  /\ tp = "up"
  /\ n \in 1..Undelivered
  /\ avail' = avail + n
  /\ UNCHANGED <<sent, waiter, reqs, nextCorr, wire, nframes, rx, tp, open, reason, failure>>

Eof ==
  /\ tp = "up" /\ tp' = "eof"
  /\ UNCHANGED <<sent, waiter, reqs, nextCorr, wire, nframes, avail, rx, open, reason, failure>>

Reset ==
  /\ tp = "up" /\ tp' = "lost"
  /\ UNCHANGED <<sent, waiter, reqs, nextCorr, wire, nframes, avail, rx, open, reason, failure>>

----------------------------------------------------------------------------
\* close(): fail every pending future of the queue, drop the queue, stop the reader
\* The read task is cancelled; a task suspended in readexactly (or about to be woken) stops
\* there.  When close() is called BY the read task (mismatch, 562) the cancellation is only
\* delivered at its next suspension: frames already in the buffer are still read and handed to
\* _handle_frame, which then finds an empty queue (IndexError, logged; close is a no-op).
CloseWith(r, w, byReader) ==
  /\ open' = FALSE
  /\ waiter' = [i \in DOMAIN w |-> IF i \in Range(reqs) /\ w[i].k = "pending"
                                     THEN [w[i] EXCEPT !.k = "connErr"] ELSE w[i]]
  /\ reqs' = <<>>
  /\ reason' = r
  /\ tp' = "closed"
  /\ rx' = IF rx.ph = "failed" THEN rx ELSE IF byReader THEN SizePhase ELSE Stopped

\* reader: readexactly(4) returned
RdSize ==
  /\ rx.ph = "size" /\ avail >= 4 /\ wire # <<>>
  /\ avail' = avail - 4
  /\ LET f == Head(wire) IN
       CASE f.sz = "neg"  -> rx' = Failed /\ NoteFailure("malformed")     \* readexactly(<0): ValueError
         [] f.sz = "huge" -> rx' = [ph |-> "body", need |-> Huge] /\ UNCHANGED failure
         [] OTHER         -> rx' = [ph |-> "body", need |-> f.len] /\ UNCHANGED failure
  /\ UNCHANGED <<sent, waiter, reqs, nextCorr, wire, nframes, tp, open, reason>>

\* reader: readexactly(size) returned; _handle_frame(resp) runs
CanFrame == rx.ph = "body" /\ avail >= rx.need /\ wire # <<>>
F == Head(wire)
H == reqs[1]
Consume == avail' = avail - rx.need /\ wire' = Tail(wire)
QuirkAccepts(f, s) == s.quirk /\ s.corr # 0 /\ f.corr = 0
Accepts(f, s) == f.corr = s.corr \/ QuirkAccepts(f, s)
ReaderDies(why) ==
  /\ rx' = Failed /\ NoteFailure(why)
  /\ UNCHANGED <<sent, waiter, reqs, nextCorr, nframes, tp, open, reason>>
Pop == reqs' = Tail(reqs) /\ rx' = SizePhase
        /\ UNCHANGED <<sent, nextCorr, nframes, tp, open, reason, failure>>

\* self._requests[0] on an empty deque: IndexError in the read task
UnsolicitedFrame == CanFrame /\ reqs = <<>> /\ Consume /\ ReaderDies("malformed")

\* parse_response_header fails (frame shorter than the header)
HeaderFails == CanFrame /\ reqs # <<>> /\ ~F.hdr /\ Consume /\ ReaderDies("malformed")

WellFormed == CanFrame /\ reqs # <<>> /\ F.hdr /\ F.flex = sent[H].flex

\* 555-563: CorrelationIdError to the head (if still waiting), close(OUT_OF_SYNC)
MismatchClose ==
  /\ Consume /\ NoteFailure("mismatch")
  /\ CloseWith("OUT_OF_SYNC", [waiter EXCEPT ![H].k = IF @ = "pending" THEN "corrErr" ELSE @], TRUE)
  /\ UNCHANGED <<sent, nextCorr, nframes>>
Mismatch == WellFormed /\ ~Accepts(F, sent[H]) /\ MismatchClose

DeliverTo ==
  /\ Consume /\ Pop
  /\ waiter' = [waiter EXCEPT ![H] = [k |-> "ok", got |-> F.mark, gotCorr |-> F.corr, cl |-> FALSE]]

\* 565-581: decode, set_result, popleft
Deliver == WellFormed /\ F.corr = sent[H].corr /\ Pending(H) /\ F.body /\ DeliverTo

\* 543-553: Kafka 0.8.2 answers FindCoordinator v0 with correlation id 0
Quirk082 == WellFormed /\ F.corr # sent[H].corr /\ QuirkAccepts(F, sent[H]) /\ Pending(H) /\ F.body /\ DeliverTo

\* the waiter is done (timed out / cancelled): the frame is dropped undecoded, the entry popped
SkipDone == WellFormed /\ Accepts(F, sent[H]) /\ ~Pending(H) /\ Consume /\ Pop /\ UNCHANGED waiter

\* resp_type.decode raises: exception in the read task
DecodeFails == WellFormed /\ Accepts(F, sent[H]) /\ Pending(H) /\ ~F.body /\ Consume /\ ReaderDies("malformed")

\* a frame whose header form is not the one of the request it meets (only an
\* unsolicited / premature frame can be one): the bytes are misparsed, outcome
\* depends on them -- any of: exception, mismatch, or (accepted id) delivery
FormMismatch ==
  /\ CanFrame /\ reqs # <<>> /\ F.hdr /\ F.flex # sent[H].flex
  /\ \/ Consume /\ ReaderDies("malformed")
     \/ MismatchClose
     \/ Accepts(F, sent[H]) /\ Pending(H) /\ DeliverTo
     \/ Accepts(F, sent[H]) /\ ~Pending(H) /\ Consume /\ Pop /\ UNCHANGED waiter

Frame == \/ UnsolicitedFrame \/ HeaderFails \/ Mismatch \/ Deliver \/ Quirk082 \/ SkipDone
         \/ DecodeFails \/ FormMismatch

\* what _handle_frame is about to do (for the trace spec)
FrameOutcome ==
  IF reqs = <<>> \/ ~F.hdr THEN "raise"
  ELSE IF F.flex # sent[H].flex THEN "any"
  ELSE IF ~Accepts(F, sent[H]) THEN "mismatch"
  ELSE IF ~Pending(H) THEN "skip"
  ELSE IF F.body THEN "ok" ELSE "raise"

\* readexactly raises: EOF before the bytes needed, or the transport's exception
RdFail ==
  /\ rx.ph \in {"size", "body"}
  /\ \/ tp = "eof" /\ avail < rx.need
     \/ tp = "lost"
  /\ rx' = Failed /\ NoteFailure("lost")
  /\ UNCHANGED <<sent, waiter, reqs, nextCorr, wire, nframes, avail, tp, open, reason>>

\* done-callback of the failed read task
ReaderErrClose ==
  /\ rx.ph = "failed" /\ open
  /\ CloseWith("BROKEN", waiter, FALSE)
  /\ UNCHANGED <<sent, nextCorr, wire, nframes, avail, failure>>

----------------------------------------------------------------------------
\* async_timeout fires: the future is cancelled; NOTHING is removed from the queue
WaiterTimeout(i) ==
  /\ i \in DOMAIN waiter /\ Pending(i)
  /\ waiter' = [waiter EXCEPT ![i].k = "timedOut"]
  /\ UNCHANGED <<sent, reqs, nextCorr, wire, nframes, avail, rx, tp, open, reason, failure>>

Cancel(i) ==
  /\ i \in DOMAIN waiter /\ Pending(i)
  /\ waiter' = [waiter EXCEPT ![i].k = "cancelled"]
  /\ UNCHANGED <<sent, reqs, nextCorr, wire, nframes, avail, rx, tp, open, reason, failure>>

\* client.send: except TimeoutError -> conn.close(CONNECTION_TIMEOUT) (no-op when closed)
ClientClose(i) ==
  /\ i \in DOMAIN waiter /\ waiter[i].k = "timedOut" /\ sent[i].via /\ ~waiter[i].cl
  /\ IF open
       THEN CloseWith("TIMEOUT", [waiter EXCEPT ![i].cl = TRUE], FALSE)
       ELSE waiter' = [waiter EXCEPT ![i].cl = TRUE] /\ UNCHANGED <<reqs, rx, tp, open, reason>>
  /\ UNCHANGED <<sent, nextCorr, wire, nframes, avail, failure>>

UserClose ==
  /\ open
  /\ CloseWith("SHUTDOWN", waiter, FALSE)
  /\ UNCHANGED <<sent, nextCorr, wire, nframes, avail, failure>>

\* conn.connected(): reader present and not at EOF
Connected == open /\ ~(tp = "eof" /\ avail = 0)

----------------------------------------------------------------------------
(* Properties                                                                 *)

\* a waiter that gets a response gets the one carrying its correlation id
\* (0.8.2 quirk: a FindCoordinator v0 request also accepts id 0)
OnlyOwnReply ==
  \A i \in DOMAIN waiter : waiter[i].k = "ok" =>
     \/ waiter[i].gotCorr = sent[i].corr
     \/ sent[i].quirk /\ waiter[i].gotCorr = 0

\* responses are handed out in request order: nobody is answered while an
\* earlier request is still waiting, and frames are used in arrival order
InRequestOrder ==
  \A i, j \in DOMAIN waiter : i < j /\ waiter[j].k = "ok" =>
     /\ ~Pending(i)
     /\ waiter[i].k = "ok" => waiter[i].got < waiter[j].got

\* no frame is delivered twice and no waiter holds a frame carrying the id of a
\* different request that was in flight together with it
NoCrossDelivery ==
  /\ \A i, j \in DOMAIN waiter : i # j /\ waiter[i].k = "ok" /\ waiter[j].k = "ok" => waiter[i].got # waiter[j].got
  /\ \A i \in DOMAIN waiter : waiter[i].k = "ok" /\ waiter[i].gotCorr # sent[i].corr => sent[i].quirk

\* nobody is left pending outside the queue of an open connection; once a
\* failure was detected the connection is closed (or the close callback of the
\* dead reader task is about to run) and a closed connection has no waiters
FailureFailsAll ==
  /\ \A i \in DOMAIN waiter : Pending(i) => open /\ i \in Range(reqs)
  /\ failure # "none" => (~open \/ rx.ph = "failed")
  /\ ~open => reqs = <<>>

\* the step that closes the connection gives every pending waiter a connection-class error
FailsAllStep == (open /\ ~open') => \A i \in DOMAIN waiter : Pending(i) => waiter'[i].k \in {"connErr", "corrErr"}
\* an outcome, once produced, never changes; connection errors come from close only
Final == \A i \in DOMAIN waiter :
           /\ ~Pending(i) => waiter'[i].k = waiter[i].k
           /\ (Pending(i) /\ waiter'[i].k \in {"connErr", "corrErr"}) => (open /\ ~open')
StepProps == [][FailsAllStep /\ Final]_vars

\* liveness (under fairness of the reader's done-callback): a detected failure closes
FailureCloses == (failure # "none") ~> ~open
=============================================================================
