SPECIFICATION SpecTable
CONSTANTS
 MaxMembers = 3
 MaxTopics = 2
 MaxParts = 3
 MaxNew = 1
CONSTRAINT Collect
POSTCONDITION WriteVerdicts
CHECK_DEADLOCK FALSE
