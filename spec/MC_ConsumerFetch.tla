-------------------------- MODULE MC_ConsumerFetch --------------------------
(* Bounded instance of ConsumerFetch: one consumer, partitions Parts, every    *)
(* log of the family Logs, every cut of a response at batch boundaries, seeks  *)
(* / pauses / resets at any point, both isolation levels, all three policies,  *)
(* committed offset absent / inside / below start / beyond end.                *)
EXTENDS ConsumerFetch

CONSTANTS MaxSeeks, MaxPauses

VARIABLES nseek, npause
mcvars == <<vars, nseek, npause>>

D(b, l, o, pid, tx) == [base |-> b, last |-> l, offs |-> o, kind |-> "data", pid |-> pid, txnl |-> tx]
M(b, k, pid) == [base |-> b, last |-> b, offs |-> {}, kind |-> k, pid |-> pid, txnl |-> TRUE]

\* log shapes: plain, compaction holes + empty batch, aborted + committed + open transactions of
\* two producers interleaved with plain data, solitary abort marker, log start above 0
Logs == {
  <<D(0, 1, {0, 1}, -1, FALSE), D(2, 4, {2, 4}, -1, FALSE), D(5, 5, {}, -1, FALSE), D(6, 7, {6, 7}, -1, FALSE)>>,
  <<D(0, 0, {0}, -1, FALSE), D(1, 2, {1, 2}, 7, TRUE), D(3, 3, {3}, 8, TRUE), M(4, "abort", 7),
    D(5, 5, {5}, -1, FALSE), M(6, "commit", 8), D(7, 8, {7, 8}, 7, TRUE)>>,
  <<M(2, "abort", 9), D(3, 4, {3, 4}, 7, TRUE), M(5, "commit", 7), D(6, 6, {6}, -1, FALSE)>>,
  <<D(0, 2, {1}, 7, TRUE), D(3, 3, {3}, 7, TRUE), M(4, "abort", 7), D(5, 6, {5, 6}, 8, TRUE), M(7, "commit", 8)>>
}
MaxOff == 9

Init ==
  /\ nseek = 0 /\ npause = 0
  /\ \E lg \in Logs, is \in {0, 1}, pol \in {"earliest", "latest", "none"}, c \in {None, 0, 3, 12} :
       LET l == [p \in Parts |-> lg]
           leo == Last(lg).last + 1
       IN \E h \in {leo, leo - 1} :
            InitWith(l, [p \in Parts |-> h], is, pol, [p \in Parts |-> c])

AUseCommitted == \E p \in Parts : UseCommitted(p) /\ UNCHANGED <<nseek, npause>>
ANoCommitted == \E p \in Parts : NoCommitted(p) /\ UNCHANGED <<nseek, npause>>
AApplyReset == \E p \in Parts : rst[p] # "none" /\ ApplyReset(p, ResetTarget(p, rst[p])) /\ UNCHANGED <<nseek, npause>>
ASeek == \E p \in Parts, o \in 0..MaxOff : nseek < MaxSeeks /\ Seek(p, o) /\ nseek' = nseek + 1 /\ UNCHANGED npause
ASeekTo == \E p \in Parts, s \in {"earliest", "latest"} :
             nseek < MaxSeeks /\ AwaitReset(p, s) /\ nseek' = nseek + 1 /\ UNCHANGED npause
APause == \E p \in Parts : npause < MaxPauses /\ ~paused[p] /\ Pause(p) /\ npause' = npause + 1 /\ UNCHANGED nseek
AResume == \E p \in Parts : paused[p] /\ Resume(p) /\ UNCHANGED <<nseek, npause>>
AFetchOK == \E p \in Parts : \E i, j \in 1..Len(log[p]) : FetchOK(p, i, j) /\ UNCHANGED <<nseek, npause>>
AFetchOOR == \E p \in Parts : FetchOutOfRange(p) /\ UNCHANGED <<nseek, npause>>
AProc == \E p \in Parts : ProcResponse(p) /\ UNCHANGED <<nseek, npause>>
ATake == \E p \in Parts, n \in {1, 2, 9} : Take(p, n) /\ UNCHANGED <<nseek, npause>>
ADrop == \E p \in Parts : DropBuffer(p) /\ UNCHANGED <<nseek, npause>>

Next == \/ AUseCommitted \/ ANoCommitted \/ AApplyReset \/ ASeek \/ ASeekTo \/ APause
        \/ AResume \/ AFetchOK \/ AFetchOOR \/ AProc \/ ATake \/ ADrop

Spec == Init /\ [][Next]_mcvars

\* liveness (C03): once seeks/pauses are used up and nothing is paused, delivery reaches the bound
Fair == /\ WF_mcvars(AUseCommitted) /\ WF_mcvars(ANoCommitted) /\ WF_mcvars(AApplyReset)
        /\ WF_mcvars(AResume) /\ WF_mcvars(AFetchOK) /\ WF_mcvars(AFetchOOR)
        /\ WF_mcvars(AProc) /\ WF_mcvars(ATake) /\ WF_mcvars(ADrop)
LiveSpec == Spec /\ Fair
ReachesEnd == \A p \in Parts : <>[](err[p] # "" \/ AtEnd(p))
=============================================================================
