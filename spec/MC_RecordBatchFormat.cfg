SPECIFICATION Spec
CONSTANTS
  Alphabet <- AlphabetQuick
  Limits <- LimitsQuick
  MaxAppends = 3
  Magics <- MagicsAll
  PartAlphabet <- PartsQuick
  MaxParts = 3
  TableMode = FALSE
INVARIANT C09_RecordBatchFormat
PROPERTY ClosedIsFinal
CONSTRAINT NotExportOnly
POSTCONDITION WriteVerdicts
CHECK_DEADLOCK FALSE
