------------------------------- MODULE WireMC -------------------------------
(* C11: exhaustive self-check of WireTypes over small domains.               *)
(*                                                                           *)
(* One state = one (type, value) pair.  Each kind of type walks through its  *)
(* own finite domain (one action per kind so that -coverage shows every kind *)
(* was exercised).  The invariants are the properties the codecs must have   *)
(* independently of any implementation:                                      *)
(*   RoundTrip       Dec(t, Enc(t, v)) = v and consumes exactly the encoding *)
(*   ByteRange       every produced element is a byte                        *)
(*   FixedWidth      INTn is n bytes and its top bit is the sign             *)
(*   VarintLength    an unsigned varint of m is the least L with m < 2^(7L)  *)
(*                   bytes, all but the last with the continuation bit       *)
(*   ZigZagAgrees    the bit-level zig-zag equals the sign-magnitude rule    *)
(*                   (n >= 0 -> 2n, n < 0 -> 2|n| - 1)                        *)
(*   PrefixRule      length prefixes of strings/bytes/arrays: null, +0 / +1  *)
(***************************************************************************)
EXTENDS WireTypes

CONSTANT Dense      \* every integer of magnitude <= Dense is in the int domains

\* ----------------------------------------------------------------- domains
Mags == {Strip(<<a, b, c>>) : a \in 0..255,
                              b \in 0..(IF Dense >= 65536 THEN 255 ELSE Dense \div 256),
                              c \in 0..(Dense \div 65536)}
Signed(n) == {x \in [neg : BOOLEAN, mag : Mags] :
                /\ ~(x.neg /\ Len(x.mag) = 0)
                /\ FitsSigned(x, n)}
\* boundary magnitudes 2^k - 1, 2^k, 2^k + 1
Bnd(maxk) == UNION {{Strip(Dec1(Pow2Mag(k))), Pow2Mag(k), Strip(Inc(Pad(Pow2Mag(k), k \div 8 + 2)))} : k \in 0..maxk}
SignedBnd(n) == {x \in [neg : BOOLEAN, mag : Bnd(8 * n - 1)] : ~(x.neg /\ Len(x.mag) = 0) /\ FitsSigned(x, n)}
IntDom(n) == Signed(n) \cup SignedBnd(n)
UDom == {x \in IntDom(8) : FitsUnsigned(x, 4)}

Str(n) == Sq([i \in 1..n |-> (7 * i + 65) % 256])
StrLens == {0, 1, 2, 126, 127, 128, 129, 16382, 16383, 16384}
NullableStrs == {<<>>} \cup {<<Str(n)>> : n \in StrLens}

Ints16 == {Zero, MinusOne, NatInt(258), I(TRUE, <<0, 128>>)}
ElemTypes == {T("i16"), T("cstr"), ArrayOf(T("i8")), StructOf(<<T("i32"), T("str")>>)}
ElemVals(t) ==
  CASE t.k = "i16" -> Ints16
    [] t.k = "cstr" -> {<<>>, <<<<>>>>, <<Str(3)>>}
    [] t.k = "a" -> {<<>>, <<<<>>>>, <<<<NatInt(1), MinusOne>>>>}
    [] t.k = "s" -> {<<NatInt(70000), <<>>>>, <<MinusOne, <<Str(2)>>>>}
Repeat(x, n) == Sq([i \in 1..n |-> x])
ArrVals(t) == {<<>>, <<<<>>>>}
              \cup {<<<<a>>>> : a \in ElemVals(t)}
              \cup {<<<<a, b>>>> : a, b \in ElemVals(t)}
              \cup {<<Repeat(a, n)>> : a \in ElemVals(t), n \in {126, 127, 128}}

TagVals == {<<>>,
            <<<<Zero, <<>>>>>>,
            <<<<NatInt(1), Str(3)>>>>,
            <<<<Zero, Str(1)>>, <<NatInt(127), Str(127)>>, <<NatInt(128), Str(128)>>>>,
            <<<<NatInt(16384), Str(2)>>, <<U32(255, 255, 255, 255), <<>>>>>>}

Corrs == {Zero, NatInt(4), I(FALSE, <<255, 255, 255, 127>>)}
Cids == {<<>>, <<<<>>>>, <<Str(8)>>}

Pairs(t, vs) == {[t |-> t, v |-> v] : v \in vs}
Dom(kind) ==
  CASE kind = "i8" -> Pairs(T("i8"), IntDom(1))
    [] kind = "i16" -> Pairs(T("i16"), IntDom(2))
    [] kind = "i32" -> Pairs(T("i32"), IntDom(4))
    [] kind = "i64" -> Pairs(T("i64"), IntDom(8))
    [] kind = "u32" -> Pairs(T("u32"), UDom) \cup Pairs(T("bool"), BOOLEAN)
    [] kind = "uv" -> Pairs(T("uv"), UDom)
    [] kind = "vi32" -> Pairs(T("vi32"), IntDom(4))
    [] kind = "vi64" -> Pairs(T("vi64"), IntDom(8))
    [] kind \in {"str", "cstr", "bytes", "cbytes"} -> Pairs(T(kind), NullableStrs)
    [] kind = "array" -> UNION {Pairs(ArrayOf(t), ArrVals(t)) : t \in ElemTypes}
    [] kind = "carray" -> UNION {Pairs(CArrayOf(t), ArrVals(t)) : t \in ElemTypes}
    [] kind = "tags" -> Pairs(T("tags"), TagVals)
    [] kind = "header" ->
         UNION {{[t |-> ReqHeaderType(FALSE), v |-> <<NatInt(k), NatInt(ver), c, cid>>],
                 [t |-> ReqHeaderType(TRUE), v |-> <<NatInt(k), NatInt(ver), c, cid, tg>>],
                 [t |-> RespHeaderType(FALSE), v |-> <<c>>],
                 [t |-> RespHeaderType(TRUE), v |-> <<c, tg>>]}
                : k \in {0, 48}, ver \in {0, 11}, c \in Corrs, cid \in Cids, tg \in {<<>>, <<<<NatInt(1), Str(3)>>>>}}
IntKinds == {"i8", "i16", "i32", "i64", "u32"}
VarintKinds == {"uv", "vi32", "vi64"}
StringKinds == {"str", "cstr", "bytes", "cbytes"}
ArrayKinds == {"array", "carray"}
Kinds == UNION {IntKinds, VarintKinds, StringKinds, ArrayKinds, {"tags", "header"}}

\* state: phase "start" (a kind was chosen, no value yet) -> "val" (cur = one
\* (type, value) pair of that kind's domain); each domain is enumerated once
VARIABLES phase, kind, cur
vars == <<phase, kind, cur>>

Init == phase = "start" /\ kind \in Kinds /\ cur = [t |-> T("bool"), v |-> TRUE]
StepInt == /\ phase = "start" /\ kind \in IntKinds /\ cur' \in Dom(kind) /\ phase' = "val" /\ UNCHANGED kind
StepVarint == /\ phase = "start" /\ kind \in VarintKinds /\ cur' \in Dom(kind) /\ phase' = "val" /\ UNCHANGED kind
StepString == /\ phase = "start" /\ kind \in StringKinds /\ cur' \in Dom(kind) /\ phase' = "val" /\ UNCHANGED kind
StepArray == /\ phase = "start" /\ kind \in ArrayKinds /\ cur' \in Dom(kind) /\ phase' = "val" /\ UNCHANGED kind
StepTags == /\ phase = "start" /\ kind = "tags" /\ cur' \in Dom(kind) /\ phase' = "val" /\ UNCHANGED kind
StepHeader == /\ phase = "start" /\ kind = "header" /\ cur' \in Dom(kind) /\ phase' = "val" /\ UNCHANGED kind
Next == StepInt \/ StepVarint \/ StepString \/ StepArray \/ StepTags \/ StepHeader
Spec == Init /\ [][Next]_vars

\* -------------------------------------------------------------- invariants
\* (the encoding is bound once per invariant by LET: TLC caches LET values but
\* would re-evaluate a plain operator at every use)
RoundTripOf(t, v, e) == LET d == Dec(t, e, 1) IN d.v = v /\ d.p = Len(e) + 1
RoundTrip == LET e == Enc(cur.t, cur.v) IN RoundTripOf(cur.t, cur.v, e)

ByteRange == LET e == Enc(cur.t, cur.v) IN \A i \in 1..Len(e) : e[i] \in 0..255

Width(k) == CASE k = "i8" -> 1 [] k = "i16" -> 2 [] k = "i32" -> 4 [] k = "i64" -> 8
FixedWidth ==
  cur.t.k \in {"i8", "i16", "i32", "i64"} =>
    LET e == Enc(cur.t, cur.v)
        w == Width(cur.t.k)
    IN /\ Len(e) = w
       /\ (e[1] >= 128) = cur.v.neg
       \* x and -x-1 are bytewise complements
       /\ (~cur.v.neg => EncInt(I(TRUE, Strip(Inc(Pad(cur.v.mag, 9)))), w + 1) = Inv(EncInt(cur.v, w + 1)))

VarintShape(e, m) ==
  /\ Len(e) = UVarintLen(m)
  /\ \A i \in 1..(Len(e) - 1) : e[i] >= 128
  /\ e[Len(e)] < 128
  /\ (Len(e) > 1 => e[Len(e)] # 0)        \* canonical: no redundant group
VarintLength ==
  LET e == Enc(cur.t, cur.v)
  IN /\ cur.t.k = "uv" => VarintShape(e, cur.v.mag)
     /\ cur.t.k \in {"vi32", "vi64"} => VarintShape(e, ZigZagMag(cur.v))

ZigZagAgrees ==
  cur.t.k \in {"vi32", "vi64"} =>
    LET n == IF cur.t.k = "vi32" THEN 4 ELSE 8
    IN /\ Strip(BitsToBytes(ZigZag(Bits(TwosLE(cur.v, n))))) = ZigZagMag(cur.v)
       /\ Enc(cur.t, cur.v) = EncUVarint(I(FALSE, ZigZagMag(cur.v)))

PrefixRule ==
  LET t == cur.t  v == cur.v
      e == Enc(t, v)
      n == IF IsNull(v) THEN 0 ELSE Len(v[1])
  IN cur.t.k \in {"str", "bytes", "cstr", "cbytes", "a", "ca"} =>
     /\ t.k = "str" => SubSeq(e, 1, 2) = (IF IsNull(v) THEN <<255, 255>> ELSE <<n \div 256, n % 256>>)
     /\ t.k \in {"bytes", "a"} =>
          SubSeq(e, 1, 4) = (IF IsNull(v) THEN <<255, 255, 255, 255>> ELSE <<0, 0, n \div 256, n % 256>>)
     /\ t.k \in {"cstr", "cbytes", "ca"} =>
          LET pre == IF IsNull(v) THEN <<0>> ELSE EncUVarint(NatInt(n + 1))
          IN SubSeq(e, 1, Len(pre)) = pre
     /\ t.k \in {"str", "bytes", "cstr", "cbytes"} /\ ~IsNull(v) => SubSeq(e, Len(e) - n + 1, Len(e)) = v[1]
     /\ IsNull(v) => Len(e) = (CASE t.k = "str" -> 2 [] t.k \in {"bytes", "a"} -> 4 [] OTHER -> 1)
=============================================================================
