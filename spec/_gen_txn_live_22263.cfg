SPECIFICATION LiveSpec
CONSTANTS
  Parts = {p1, p2}
  MaxTxn = 2
  MaxSend = 2
  Faults = 1
PROPERTY EndsAsRequested
PROPERTY AbortRecovers
CHECK_DEADLOCK FALSE
