SPECIFICATION Spec
CONSTANTS
  MaxLen = 4
INVARIANT FilterCorrect
INVARIANT NeverYieldsInvisible
INVARIANT Progress
CHECK_DEADLOCK FALSE
