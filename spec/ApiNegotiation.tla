--------------------------- MODULE ApiNegotiation ---------------------------
(* C11: version negotiation, request/response pairing and header form.       *)
(*                                                                           *)
(* Structured like aiokafka/protocol/api.py:                                 *)
(*   Request.prepare(versions)   scans the client's request classes from the *)
(*        newest to the oldest and takes the first whose version lies inside *)
(*        the broker's advertised [lo, hi]  (ScanSkip / ScanHit /            *)
(*        ScanExhausted; an API the broker did not advertise is refused      *)
(*        except for ApiVersions itself: the two PrepareUnknown actions)      *)
(*   Request.build(class)        refuses a parameter the chosen version      *)
(*        cannot express (BuildReject) or builds the struct (BuildOk)        *)
(*   RequestStruct.build_request_header   header v1 / v2 by flexibility      *)
(*        (SendLegacy / SendFlexible)                                        *)
(*   RequestStruct.parse_response_header + RESPONSE_TYPE.decode              *)
(*        (DecodeReply)                                                      *)
(*                                                                           *)
(* What the *client* supports (which versions, in which class order, whether *)
(* the API may be used before versions are known) is read from the real      *)
(* classes by the harness (C11_API_FILE).  What *Kafka* prescribes is        *)
(* written here: the first flexible version of every API and, for each       *)
(* parameter that changes the meaning of a request, the first version whose  *)
(* schema can carry it.                                                      *)
(***************************************************************************)
EXTENDS WireTypes, Integers, TLCExt, Json, IOUtils

\* --------------------------------------------------- Kafka protocol facts
NoFlex == 1000
P(name, dom, neutral, min) == [p |-> name, dom |-> dom, neutral |-> neutral, min |-> min]
Flag(name, min) == P(name, {"false", "true"}, {"false"}, min)
K(key, name, flex, params) == [key |-> key, name |-> name, flex |-> flex, params |-> params]
\* params are listed in alphabetical order of their names
Kafka == <<
  K(0, "Produce", 9, <<P("transactional_id", {"null", "tx"}, {"null"}, 3)>>),
  K(1, "Fetch", 12, <<P("isolation_level", {"0", "1"}, {"0"}, 4)>>),
  K(2, "ListOffsets", 6, <<P("isolation_level", {"0", "1"}, {"0"}, 2),
                           P("timestamp", {"latest", "earliest", "t0", "tbig"}, {"latest", "earliest"}, 1)>>),
  K(3, "Metadata", 9, <<>>),
  K(8, "OffsetCommit", 8, <<>>),
  K(9, "OffsetFetch", 6, <<P("partitions", {"some", "null"}, {"some"}, 2)>>),
  K(10, "FindCoordinator", 3, <<P("coordinator_type", {"0", "1"}, {"0"}, 1)>>),
  K(11, "JoinGroup", 6, <<>>),
  K(12, "Heartbeat", 4, <<>>),
  K(13, "LeaveGroup", 4, <<>>),
  K(14, "SyncGroup", 4, <<>>),
  K(15, "DescribeGroups", 5, <<Flag("include_authorized_operations", 3)>>),
  K(16, "ListGroups", 3, <<>>),
  K(17, "SaslHandshake", NoFlex, <<>>),
  K(18, "ApiVersions", 3, <<>>),
  K(19, "CreateTopics", 5, <<Flag("validate_only", 1)>>),
  K(20, "DeleteTopics", 4, <<>>),
  K(21, "DeleteRecords", 2, <<P("tags", {"none", "empty"}, {"none"}, 2)>>),
  K(22, "InitProducerId", 2, <<>>),
  K(24, "AddPartitionsToTxn", 3, <<>>),
  K(25, "AddOffsetsToTxn", 3, <<>>),
  K(26, "EndTxn", 3, <<>>),
  K(28, "TxnOffsetCommit", 3, <<>>),
  K(29, "DescribeAcls", 2, <<>>),
  K(30, "CreateAcls", 2, <<>>),
  K(31, "DeleteAcls", 2, <<>>),
  K(32, "DescribeConfigs", 4, <<Flag("include_synonyms", 1)>>),
  K(33, "AlterConfigs", 2, <<>>),
  K(36, "SaslAuthenticate", 2, <<>>),
  K(37, "CreatePartitions", 2, <<>>),
  K(42, "DeleteGroups", 2, <<>>),
  K(45, "AlterPartitionReassignments", 0, <<>>),
  K(46, "ListPartitionReassignments", 0, <<>>),
  K(48, "DescribeClientQuotas", 1, <<>>) >>
KafkaKeys == {Kafka[j].key : j \in 1..Len(Kafka)}
Kf(key) == Kafka[CHOOSE j \in 1..Len(Kafka) : Kafka[j].key = key]
Flex(key) == Kf(key).flex
ParamOf(key, name) == LET ps == Kf(key).params IN ps[CHOOSE j \in 1..Len(ps) : ps[j].p = name]
\* lowest version able to say `val` for parameter `name`
Need(key, pv) == LET q == ParamOf(key, pv[1]) IN IF pv[2] \in q.neutral THEN 0 ELSE q.min

\* ------------------------------------------------ the client (real classes)
\* [key, builder, versions (API_VERSION of the builder's classes, in class order), bootstrap]
Apis == JsonDeserialize(IOEnv.C11_API_FILE)
ApiKeys == {Apis[j].key : j \in 1..Len(Apis)}
Api(key) == Apis[CHOOSE j \in 1..Len(Apis) : Apis[j].key = key]
Versions(key) == Api(key).versions
ClientSet(key) == {Versions(key)[j] : j \in 1..Len(Versions(key))}
ASSUME ApiKeys \subseteq KafkaKeys          \* an API the spec knows nothing about: extend the table
ASSUME \A j1, j2 \in 1..Len(Apis) : Apis[j1].key = Apis[j2].key => j1 = j2

MaxV == 12
RECURSIVE Combos(_)
Combos(ps) == IF Len(ps) = 0 THEN {<<>>}
              ELSE {<<<<Head(ps).p, val>>>> \o rest : val \in Head(ps).dom, rest \in Combos(Tail(ps))}
InputsOf(key) ==
  {[key |-> key, known |-> TRUE, lo |-> lo, hi |-> hi, params |-> ps] :
       lo \in 0..MaxV, hi \in 0..MaxV, ps \in Combos(Kf(key).params)}
  \cup {[key |-> key, known |-> FALSE, lo |-> 0, hi |-> 0, params |-> ps] : ps \in Combos(Kf(key).params)}
InputSpace == {x \in UNION {InputsOf(key) : key \in ApiKeys} : x.lo <= x.hi}

\* membership in InputSpace without enumerating it
InSpace(x) ==
  /\ x.key \in ApiKeys
  /\ x.params \in Combos(Kf(x.key).params)
  /\ IF x.known THEN x.lo \in 0..MaxV /\ x.hi \in 0..MaxV /\ x.lo <= x.hi ELSE x.lo = 0 /\ x.hi = 0

SetMax(S) == CHOOSE x \in S : \A y \in S : y <= x
SetMin(S) == CHOOSE x \in S : \A y \in S : x <= y
Pairs(ps) == {ps[j] : j \in 1..Len(ps)}

\* ------------------------------------------------------ the state machine
VARIABLES inp, pc, cur, ver, out, hdr, reply,
          i       \* only used when a table of recorded cases is judged (TSpec below)
vars == <<inp, pc, cur, ver, out, hdr, reply>>
NoVer == 99
None == [kind |-> "none"]

Init == /\ inp \in InputSpace /\ i = 0
        /\ pc = "prepare" /\ cur = Len(Versions(inp.key)) /\ ver = NoVer
        /\ out = None /\ hdr = "none" /\ reply = None

InRange(v) == inp.lo <= v /\ v <= inp.hi
Finish(o) == out' = o /\ pc' = "done" /\ UNCHANGED <<i, inp, cur, ver, hdr, reply>>

PrepareUnknownBootstrap ==
  /\ pc = "prepare" /\ ~inp.known /\ Api(inp.key).bootstrap
  /\ ver' = Versions(inp.key)[1] /\ pc' = "build"
  /\ UNCHANGED <<i, inp, cur, out, hdr, reply>>
PrepareUnknownReject ==
  /\ pc = "prepare" /\ ~inp.known /\ ~Api(inp.key).bootstrap
  /\ Finish([kind |-> "unsupported"])
ScanSkip ==
  /\ pc = "prepare" /\ inp.known /\ cur >= 1 /\ ~InRange(Versions(inp.key)[cur])
  /\ cur' = cur - 1 /\ UNCHANGED <<i, inp, pc, ver, out, hdr, reply>>
ScanHit ==
  /\ pc = "prepare" /\ inp.known /\ cur >= 1 /\ InRange(Versions(inp.key)[cur])
  /\ ver' = Versions(inp.key)[cur] /\ pc' = "build"
  /\ UNCHANGED <<i, inp, cur, out, hdr, reply>>
ScanExhausted ==
  /\ pc = "prepare" /\ inp.known /\ cur = 0
  /\ Finish([kind |-> "unsupported"])
BuildReject ==
  /\ pc = "build" /\ \E pv \in Pairs(inp.params) : Need(inp.key, pv) > ver
  /\ Finish([kind |-> "incompatible"])
BuildOk ==
  /\ pc = "build" /\ \A pv \in Pairs(inp.params) : Need(inp.key, pv) <= ver
  /\ out' = [kind |-> "use", v |-> ver,
             carried |-> {pv \in Pairs(inp.params) : ParamOf(inp.key, pv[1]).min <= ver}]
  /\ pc' = "send" /\ UNCHANGED <<i, inp, cur, ver, hdr, reply>>
SendLegacy ==
  /\ pc = "send" /\ ver < Flex(inp.key)
  /\ hdr' = "v1" /\ pc' = "await" /\ UNCHANGED <<i, inp, cur, ver, out, reply>>
SendFlexible ==
  /\ pc = "send" /\ ver >= Flex(inp.key)
  /\ hdr' = "v2" /\ pc' = "await" /\ UNCHANGED <<i, inp, cur, ver, out, reply>>
DecodeReply ==
  /\ pc = "await"
  /\ reply' = [kind |-> "reply", key |-> inp.key, v |-> ver, hdr |-> IF hdr = "v2" THEN "v1" ELSE "v0"]
  /\ pc' = "done" /\ UNCHANGED <<i, inp, cur, ver, out, hdr>>

Next == \/ PrepareUnknownBootstrap \/ PrepareUnknownReject \/ ScanSkip \/ ScanHit \/ ScanExhausted
        \/ BuildReject \/ BuildOk \/ SendLegacy \/ SendFlexible \/ DecodeReply
Spec == Init /\ [][Next]_<<vars, i>>

\* ------------------------------------------------------------- properties
Common == ClientSet(inp.key) \cap (inp.lo..inp.hi)
NonNeutral(pv) == pv[2] \notin ParamOf(inp.key, pv[1]).neutral

VersionInRange == out.kind = "use" /\ inp.known => inp.lo <= out.v /\ out.v <= inp.hi
VersionIsHighestCommon ==
  out.kind = "use" /\ inp.known => out.v \in Common /\ \A w \in Common : w <= out.v
RefusedOnlyWhenDisjoint ==
  pc = "done" /\ inp.known => (out.kind = "unsupported" <=> Common = {})
InexpressibleIsRejected ==
  pc = "done" /\ inp.known /\ Common # {}
    => (out.kind = "incompatible" <=> \E pv \in Pairs(inp.params) : Need(inp.key, pv) > SetMax(Common))
NeverSilentlyDropped ==
  out.kind = "use" => \A pv \in Pairs(inp.params) : NonNeutral(pv) => pv \in out.carried
HeaderMatchesFlexibility ==
  hdr # "none" => (hdr = "v2" <=> ver >= Flex(inp.key))
ReplyPairedWithRequest ==
  reply.kind = "reply" => /\ reply.key = inp.key /\ out.kind = "use" /\ reply.v = out.v
                          /\ (reply.hdr = "v1" <=> hdr = "v2")
BootstrapWithoutVersions ==
  pc = "done" /\ ~inp.known => (out.kind = "use" <=> Api(inp.key).bootstrap)

\* ---------------------------------------------------------- table judging
\* case records written by the harness from the real classes:
\*  [kind |-> "neg", key, known, lo, hi, params,          input (one per element of InputSpace)
\*   outcome ("use"|"incompatible"|"unsupported"), exc,  what prepare() did
\*   v, flexible, resp_key, resp_ver, resp_same_schema,   attributes of the struct it returned
\*   carried,                                             parameters read back from encode -> decode
\*   corr, cid, hdr,                                      bytes of build_request_header(corr, cid)
\*   rh_in, rh_val, rh_used]                              parse_response_header on rh_in
\*  [kind |-> "class", cls, key, v, flexible, resp_key, resp_ver, resp_sig, canon_sig]
\*  [kind |-> "count", n]                                 number of "neg" cases in the file
Cases == JsonDeserialize(IOEnv.TRACE_FILE)
NC == Len(Cases)
\* a case may name the one clause to evaluate (diagnosis of a rejected case)
ClauseOf(c) == IF "clause" \in DOMAIN c THEN c.clause ELSE "all"
On(c, name) == ClauseOf(c) \in {"all", name}

InputOf(c) == [key |-> c.key, known |-> c.known, lo |-> c.lo, hi |-> c.hi, params |-> c.params]
Expected(c) ==
  LET cs == ClientSet(c.key)
      common == cs \cap (c.lo..c.hi)
  IN IF ~c.known THEN (IF Api(c.key).bootstrap THEN [kind |-> "use", v |-> SetMin(cs)] ELSE [kind |-> "error"])
     ELSE IF common = {} THEN [kind |-> "error"]
     ELSE IF \E pv \in Pairs(c.params) : Need(c.key, pv) > SetMax(common) THEN [kind |-> "incompatible"]
     ELSE [kind |-> "use", v |-> SetMax(common)]

NegOK(c) ==
  LET e == Expected(c)
      used == e.kind = "use" /\ c.outcome = "use"
      flex == c.v >= Flex(c.key)
  IN /\ On(c, "space") => InSpace(InputOf(c))
     /\ On(c, "outcome") =>
          CASE e.kind = "error" -> c.outcome # "use"            \* any refusal is accepted
            [] e.kind = "incompatible" -> c.outcome = "incompatible"
            [] e.kind = "use" -> c.outcome = "use"
     /\ On(c, "version") => (used => c.v = e.v /\ (c.known => c.lo <= c.v /\ c.v <= c.hi))
     /\ On(c, "flexible") => (used => c.flexible = flex)
     /\ On(c, "header") => (used => c.hdr = EncReqHeader(c.key, c.v, c.corr, c.cid, flex))
     /\ On(c, "reply-header") =>
          (used => Dec(RespHeaderType(flex), c.rh_in, 1) = [v |-> c.rh_val, p |-> c.rh_used + 1])
     /\ On(c, "reply-key") => (used => c.resp_key = c.key)
     /\ On(c, "reply-schema") => (used => c.resp_ver = c.v \/ c.resp_same_schema)
     /\ On(c, "carried") =>
          (used => \A pv \in Pairs(c.params) : ParamOf(c.key, pv[1]).min <= c.v => pv \in Pairs(c.carried))

ClassOK(c) ==
  /\ On(c, "flexible") => c.flexible = (c.v >= Flex(c.key))
  /\ On(c, "reply-key") => c.resp_key = c.key
  /\ On(c, "reply-schema") => c.resp_ver = c.v \/ (c.canon_sig # "" /\ c.resp_sig = c.canon_sig)

NegIdx == {j \in 1..NC : Cases[j].kind = "neg"}
\* the recorded inputs are exactly the input space the state machine was checked on
\* (the harness appends a few deliberately corrupted copies: same inputs, so a set)
CountOK(c) ==
  LET recorded == {InputOf(Cases[j]) : j \in NegIdx}
  IN /\ c.n = Cardinality(InputSpace)
     /\ Cardinality(recorded) = c.n
     /\ recorded = InputSpace

CaseOK(c) ==
  CASE c.kind = "neg" -> NegOK(c)
    [] c.kind = "class" -> ClassOK(c)
    [] c.kind = "count" -> (On(c, "count") => CountOK(c))

Stride == 512
\* (the variables of the state machine are parked while a table is judged)
TInit == /\ i \in {1 + k * Stride : k \in 0..((NC - 1) \div Stride)}
         /\ inp = None /\ pc = "table" /\ cur = 0 /\ ver = NoVer /\ out = None /\ hdr = "none" /\ reply = None
TNext == /\ i % Stride # 0 /\ i < NC
         /\ i' = i + 1 /\ UNCHANGED vars
TSpec == TInit /\ [][TNext]_<<i, vars>>

ASSUME TLCSet(1, {})
Collect == IF CaseOK(Cases[i]) THEN TRUE ELSE TLCSet(1, TLCGet(1) \cup {i})
WriteVerdicts == JsonSerialize(IOEnv.VERDICT_FILE, [n |-> NC, bad |-> TLCGet(1)])
=============================================================================
