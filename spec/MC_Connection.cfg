\* quick instance (checks/c12.py generates this and its variants: client.send + quirk kinds, liveness)
SPECIFICATION Spec
CONSTANTS
  CorrMax = 3
  Huge = 1000
  MaxReq = 3
  MaxFrames = 3
  FaultBudget = 1
  BodyLen = 1
  Vias = {FALSE}
  InitCorrs = {2}
  Fine = FALSE
  KindNames = {"plain", "flex"}
  MaxDone = 1
INVARIANT OnlyOwnReply
INVARIANT InRequestOrder
INVARIANT NoCrossDelivery
INVARIANT FailureFailsAll
PROPERTY MCStepProps
CHECK_DEADLOCK FALSE
