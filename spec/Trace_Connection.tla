------------------------- MODULE Trace_Connection -------------------------
(* Trace specification: executions of the REAL AIOKafkaConnection (and        *)
(* AIOKafkaClient.send) against the scripted peer of harness/c12_drv.py must  *)
(* be behaviours of Connection; the invariants of Connection are evaluated in *)
(* every state of every trace.                                                *)
(*                                                                            *)
(* event        action                         observed at                    *)
(*   Config     InitWith(corr0)                conn._correlation_id           *)
(*   Send       Send; the correlation id on    bytes written to the transport *)
(*              the wire must be the spec's                                   *)
(*   SendRefused  (not connected)              send() raised                  *)
(*   PeerFrame  PeerSends                      the peer script                *)
(*   Chunk      Chunk(n)                       data_received(n bytes)         *)
(*   Frame      one of the _handle_frame actions; length, head request and    *)
(*              result (ok / skip / mismatch / raise) must be the spec's      *)
(*   Timeout    WaiterTimeout(i)               the queued future got cancelled*)
(*   Cancel     Cancel(i)                      driver cancels the awaitable   *)
(*   Close      ReaderErrClose / ClientClose / UserClose by close reason      *)
(*   Eof, Reset Eof / Reset                    the peer script                *)
(*   Outcome    what the awaitable of send() produced must be waiter[i]       *)
(*              (for a response: the marker in its body = mark of the frame)  *)
(*   Probe/End  connected(), len(_requests), unresolved awaitables            *)
(* Steps the code does not expose (reader consumed the size field, reader     *)
(* task died, client.send closing an already closed connection) are taken     *)
(* silently (l unchanged).                                                    *)
EXTENDS Connection, TraceKit

VARIABLES tid, l, reported
tvars == <<vars, tid, l, reported>>

Tr == Traces[tid]
Ev == Tr[l]
IsEvent(e) == l <= Len(Tr) /\ Ev.e = e /\ l' = l + 1 /\ UNCHANGED tid

TraceInit ==
  /\ tid \in 1..NT
  /\ l = 2
  /\ reported = {}
  /\ InitWith(Traces[tid][1].corr0)

TSend ==
  /\ IsEvent("Send")
  /\ Send(Ev.flex, Ev.quirk, Ev.via)
  /\ Ev.corr = nextCorr'
  /\ Ev.i = Len(sent')
  /\ UNCHANGED reported

TSendRefused == IsEvent("SendRefused") /\ ~Connected /\ UNCHANGED <<vars, reported>>

TPeerFrame ==
  /\ IsEvent("PeerFrame")
  /\ PeerSends([corr |-> Ev.corr, sz |-> Ev.sz, len |-> Ev.len, hdr |-> Ev.hdr, body |-> Ev.body,
                flex |-> Ev.flex, mark |-> Ev.mark])
  /\ UNCHANGED reported

TChunk == IsEvent("Chunk") /\ Chunk(Ev.n) /\ UNCHANGED reported

TFrame ==
  /\ IsEvent("Frame")
  /\ CanFrame
  /\ Ev.n = rx.need /\ Ev.n = F.len
  /\ Ev.head = (IF reqs = <<>> THEN 0 ELSE H)
  /\ FrameOutcome \in {"any", Ev.out}
  /\ Frame
  /\ CASE Ev.out = "ok"       -> waiter'[H].k = "ok" /\ open'
       [] Ev.out = "skip"     -> waiter' = waiter /\ open' /\ rx'.ph = "size"
       [] Ev.out = "mismatch" -> ~open' /\ Ev.reason = "OUT_OF_SYNC"
       [] Ev.out = "raise"    -> rx'.ph = "failed"
       [] OTHER               -> FALSE
  /\ UNCHANGED reported

TTimeout == IsEvent("Timeout") /\ WaiterTimeout(Ev.i) /\ UNCHANGED reported
TCancel == IsEvent("Cancel") /\ Cancel(Ev.i) /\ UNCHANGED reported

TClose ==
  /\ IsEvent("Close")
  /\ open
  /\ CASE Ev.reason = "CONNECTION_BROKEN"  -> ReaderErrClose
       [] Ev.reason = "CONNECTION_TIMEOUT" -> \E i \in DOMAIN waiter : ClientClose(i)
       [] Ev.reason \in {"NONE", "SHUTDOWN"} -> UserClose
       [] OTHER -> FALSE
  /\ UNCHANGED reported

TEof == IsEvent("Eof") /\ Eof /\ UNCHANGED reported
TReset == IsEvent("Reset") /\ Reset /\ UNCHANGED reported

Matches(w, s, e) ==
  CASE e.k = "ok"        -> w.k = "ok" /\ w.got = e.mark
    [] e.k = "timeout"   -> w.k = "timedOut" \/ (w.k = "connErr" /\ e.atdl)   \* both happened in the same instant
    [] e.k = "cancelled" -> w.k = "cancelled"
    [] e.k = "connErr"   -> w.k = "connErr"
    [] e.k = "corrErr"   -> w.k = "corrErr"
    [] OTHER             -> FALSE

TOutcome ==
  /\ IsEvent("Outcome")
  /\ Ev.i \in DOMAIN waiter /\ Ev.i \notin reported
  /\ Matches(waiter[Ev.i], sent[Ev.i], Ev)
  /\ reported' = reported \cup {Ev.i}
  /\ UNCHANGED vars

TProbe ==
  /\ (IsEvent("Probe") \/ IsEvent("End"))
  /\ Ev.connected = Connected
  /\ Ev.qlen = Len(reqs)
  /\ {Ev.pending[j] : j \in 1..Len(Ev.pending)} = DOMAIN waiter \ reported
  /\ \A i \in DOMAIN waiter \ reported : Pending(i)
  /\ Ev.e = "End" => reported = DOMAIN waiter
  /\ UNCHANGED <<vars, reported>>

Hidden ==
  /\ \/ RdSize
     \/ RdFail
     \/ \E i \in DOMAIN waiter : ~open /\ ClientClose(i)
  /\ UNCHANGED <<tid, l, reported>>

TraceNext == \/ TSend \/ TSendRefused \/ TPeerFrame \/ TChunk \/ TFrame \/ TTimeout \/ TCancel \/ TClose
             \/ TEof \/ TReset \/ TOutcome \/ TProbe \/ Hidden

TraceSpec == TraceInit /\ [][TraceNext]_tvars

Bad ==
  IF ~OnlyOwnReply THEN "OnlyOwnReply"
  ELSE IF ~InRequestOrder THEN "InRequestOrder"
  ELSE IF ~NoCrossDelivery THEN "NoCrossDelivery"
  ELSE IF ~FailureFailsAll THEN "FailureFailsAll"
  ELSE ""

View == [waiter |-> [i \in DOMAIN waiter |-> <<sent[i].corr, waiter[i].k, waiter[i].got>>], reqs |-> reqs,
         wire |-> wire, avail |-> avail, rx |-> rx, tp |-> tp, open |-> open, reason |-> reason, reported |-> reported]

Rec == Record(tid, l, Bad, IF IOEnv.DIAG = "1" THEN ToString(View) ELSE "")
Post == WriteVerdicts
=============================================================================
