SPECIFICATION SpecRef
CONSTANTS
 MaxMembers = 3
 MaxTopics = 2
 MaxParts = 2
 MaxNew = 1
INVARIANT InvValid
INVARIANT InvRangeBalanced
INVARIANT InvRRBalanced
INVARIANT InvStickyBalanced
INVARIANT InvUnchanged
INVARIANT InvDeparted
INVARIANT InvNewMembers
INVARIANT NotStuck
CONSTRAINT CollectRef
POSTCONDITION WriteRef
CHECK_DEADLOCK FALSE
