SPECIFICATION TraceSpec
CONSTANTS
  Parts = {"t-0", "t-1", "t-2"}
  Nodes = {0, 1, 2}
  HiMod = 32768
  LoMod = 65536
  Retain = 5
  NoLeader <- NoLeaderInt
CONSTRAINT Rec
POSTCONDITION Post
CHECK_DEADLOCK FALSE
