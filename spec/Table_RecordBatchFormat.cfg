SPECIFICATION Spec
CONSTANTS
  Alphabet <- AlphabetQuick
  Limits <- LimitsQuick
  MaxAppends = 3
  Magics <- MagicsAll
  PartAlphabet <- PartsQuick
  MaxParts = 3
  TableMode = TRUE
CONSTRAINT Collect
POSTCONDITION WriteVerdicts
CHECK_DEADLOCK FALSE
