SPECIFICATION TSpec
CONSTANTS
  MaxLen = 6
CONSTRAINT Collect
POSTCONDITION WriteVerdicts
CHECK_DEADLOCK FALSE
