SPECIFICATION Spec
CONSTANTS
  Dense = 300
INVARIANT RoundTrip
INVARIANT ByteRange
INVARIANT FixedWidth
INVARIANT VarintLength
INVARIANT ZigZagAgrees
INVARIANT PrefixRule
CHECK_DEADLOCK FALSE
