SPECIFICATION Spec
CONSTANTS
  Users <- TUsers
  CNonces <- TCNonces
  SFirsts <- TSFirsts
  FlipBits <- TFlipBits
  TruncLens <- TTruncLens
INVARIANT ClientMessagesWellFormed
INVARIANT NonceMustExtend
INVARIANT DoneOnlyWithPasswordProof
INVARIANT DoneOnlyWithHonestServer
INVARIANT HonestServerAcceptsProof
INVARIANT HonestServerNotRejected
CHECK_DEADLOCK TRUE
