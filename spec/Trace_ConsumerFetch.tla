------------------------- MODULE Trace_ConsumerFetch -------------------------
(* Trace specification: executions of the REAL AIOKafkaConsumer (manual        *)
(* assignment) on the simulated cluster (harness/drv_consumer.py) must be      *)
(* behaviours of ConsumerFetch; its invariants are evaluated in every state.   *)
(*                                                                             *)
(*  Config      TraceInit                                                      *)
(*  ResetTo     UseCommitted (fresh partition: must be the committed offset)   *)
(*              or ApplyReset (awaiting reset: must be the reset target)       *)
(*  AwaitReset  requested by the API (SeekToCall), or NoCommitted, or the      *)
(*              consequence of an OFFSET_OUT_OF_RANGE reply -- then the        *)
(*              strategy must be the configured auto_offset_reset              *)
(*  Seek / Pause / Resume                TopicPartitionState methods           *)
(*  FetchReply  leader's reply (validated against the leader rules)            *)
(*  Set         Fetcher._records[tp] = FetchResult: ProcResponse, accepted     *)
(*  Del         Fetcher._records entry removed: buffer dropped if one is left  *)
(*  Take        FetchResult.getone/getall returned: Take(p, n) with the real   *)
(*              offsets and the real position                                  *)
(*  Return      getone()/getmany() returned to the application: exactly what   *)
(*              was taken since the previous return, only requested partitions *)
(*  Position    consumer.position() result                                     *)
(*  ErrorSet / Raised   errors surfaced to the caller (policy none only)       *)
(*  End         quiescent end of the run: delivery reached the end of the log  *)
EXTENDS ConsumerFetch, TraceKit

VARIABLES tid, l, pendApi, oor, out

tvars == <<vars, tid, l, pendApi, oor, out>>

Tr == Traces[tid]
Ev == Tr[l]
IsEvent(e) == l <= Len(Tr) /\ Ev.e = e /\ l' = l + 1 /\ UNCHANGED tid

ToBatch(b) == [base |-> b.base, last |-> b.last, offs |-> Range(b.offs), kind |-> b.kind,
               pid |-> b.pid, txnl |-> b.txnl]

TraceInit ==
  /\ tid \in 1..NT
  /\ l = 2
  /\ LET c == Traces[tid][1] IN
     /\ InitWith([p \in Parts |-> IF p \in DOMAIN c.logs THEN [i \in 1..Len(c.logs[p]) |-> ToBatch(c.logs[p][i])] ELSE <<>>],
                 [p \in Parts |-> IF p \in DOMAIN c.hw THEN c.hw[p] ELSE 0],
                 c.iso, c.policy,
                 [p \in Parts |-> IF p \in DOMAIN c.committed THEN c.committed[p] ELSE None])
  /\ pendApi = [p \in Parts |-> "none"]
  /\ oor = [p \in Parts |-> -1]     \* offset of the last OFFSET_OUT_OF_RANGE reply not yet acted upon
  /\ out = [p \in Parts |-> <<>>]

Same == UNCHANGED <<pendApi, oor, out>>

TResetTo ==
  /\ IsEvent("ResetTo") /\ Ev.ok
  /\ IF rst[Ev.tp] # "none"
     THEN ApplyReset(Ev.tp, Ev.off)
     ELSE UseCommitted(Ev.tp) /\ Ev.off = committed[Ev.tp]
  /\ Same

TAwaitReset ==
  /\ IsEvent("AwaitReset")
  /\ LET p == Ev.tp IN
     IF pendApi[p] # "none"
     THEN /\ Ev.s = pendApi[p] /\ AwaitReset(p, Ev.s)
          /\ pendApi' = [pendApi EXCEPT ![p] = "none"] /\ UNCHANGED <<oor, out>>
     ELSE IF fresh[p] /\ pos[p] = None /\ rst[p] = "none"
     THEN /\ NoCommitted(p) /\ policy # "none" /\ Ev.s = policy /\ Same
     \* C13/C03: an out-of-range report counts only for the position it was asked for -- after a seek() the
     \* late report is about an offset the consumer already left and must be ignored
     ELSE /\ oor[p] # -1 /\ pos[p] = oor[p] /\ policy # "none" /\ Ev.s = policy /\ AwaitReset(p, Ev.s)
          /\ oor' = [oor EXCEPT ![p] = -1] /\ UNCHANGED <<pendApi, out>>

TSeekToCall ==
  /\ IsEvent("SeekToCall")
  /\ pendApi' = [pendApi EXCEPT ![Ev.tp] = Ev.s]
  /\ UNCHANGED <<vars, oor, out>>

TSeek == IsEvent("Seek") /\ Seek(Ev.tp, Ev.off) /\ Same
TPause == IsEvent("Pause") /\ Pause(Ev.tp) /\ Same
TResume == IsEvent("Resume") /\ Resume(Ev.tp) /\ Same

IdxOfBase(p, b) == CHOOSE i \in 1..Len(log[p]) : log[p][i].base = b
HasBase(p, b) == \E i \in 1..Len(log[p]) : log[p][i].base = b

\* the leader's reply; the simulated leader must itself follow the Fetch rules
TFetchReply ==
  /\ IsEvent("FetchReply")
  /\ LET p == Ev.tp IN
     IF Ev.code = 1
     THEN /\ OutOfRange(p, Ev.off)
          /\ oor' = [oor EXCEPT ![p] = Ev.off] /\ UNCHANGED <<vars, pendApi, out>>
     ELSE IF Ev.code = 0 /\ Ev.batches # <<>>
     THEN /\ HasBase(p, Ev.batches[1][1]) /\ HasBase(p, Ev.batches[Len(Ev.batches)][1])
          /\ LET i == IdxOfBase(p, Ev.batches[1][1])
                 j == IdxOfBase(p, Ev.batches[Len(Ev.batches)][1])
             IN /\ i \in FirstIdx(p, Ev.off) /\ i <= j /\ (i..j) \subseteq Fetchable(p, Ev.off)
                /\ j - i + 1 = Len(Ev.batches)
                /\ resp' = [resp EXCEPT ![p] = [f |-> Ev.off, i |-> i, j |-> j]]
          /\ UNCHANGED <<asked, log, hw, iso, policy, committed, pos, rst, fresh, paused, buf, start, delivered, err>>
          /\ Same
     ELSE UNCHANGED vars /\ Same

\* the consumer buffered a response: only one it was sent for its current position
TSet ==
  /\ IsEvent("Set")
  /\ resp[Ev.tp] # <<>> /\ resp[Ev.tp].f = Ev.f /\ pos[Ev.tp] = Ev.f
  /\ ProcResponse(Ev.tp)
  /\ Same

\* a buffer that never yields and is consumed for its position only (all filtered)
EmptyTake(p) ==
  /\ buf[p] # <<>> /\ buf[p].q = <<>> /\ ~paused[p] /\ pos[p] = buf[p].nfo
  /\ Take(p, 1)

TDel ==
  /\ IsEvent("Del")
  /\ IF buf[Ev.tp] # <<>> THEN DropBuffer(Ev.tp) ELSE UNCHANGED vars
  /\ Same

TClear == IsEvent("Clear") /\ buf' = [p \in Parts |-> <<>>]
          /\ UNCHANGED <<asked, log, hw, iso, policy, committed, pos, rst, fresh, paused, resp, start, delivered, err>> /\ Same

TTake ==
  /\ IsEvent("Take")
  /\ LET p == Ev.tp IN
     IF buf[p] # <<>> /\ ~paused[p] /\ pos[p] = buf[p].nfo
     THEN /\ Take(p, Ev.n)
          /\ delivered'[p] = delivered[p] \o Ev.offs          \* the real records ...
          /\ pos'[p] = Ev.pos                                  \* ... and the real position
          /\ (buf'[p] # <<>>) = Ev.more
          /\ out' = [out EXCEPT ![p] = @ \o Ev.offs]
          /\ UNCHANGED <<pendApi, oor>>
     ELSE \* check_assignment failed: nothing may be handed out, the buffer is dropped
          /\ Ev.offs = <<>> /\ ~Ev.more
          /\ IF buf[p] # <<>> THEN DropBuffer(p) ELSE UNCHANGED vars
          /\ Same

\* what the application receives is exactly what was taken since the last return
TReturn ==
  /\ IsEvent("Return")
  /\ \A p \in Parts : out[p] = (IF p \in DOMAIN Ev.recs THEN Ev.recs[p] ELSE <<>>)
  /\ Ev.parts # <<>> => DOMAIN Ev.recs \subseteq Range(Ev.parts)
  /\ Ev.vals_ok
  /\ out' = [p \in Parts |-> <<>>]
  /\ UNCHANGED <<vars, pendApi, oor>>

TPosition == IsEvent("Position") /\ Ev.value = pos[Ev.tp] /\ UNCHANGED vars /\ Same

TErrorSet ==
  /\ IsEvent("ErrorSet")
  /\ policy = "none"
  /\ \/ Ev.err = "NoOffsetForPartitionError" /\ committed[Ev.tp] = None /\ pos[Ev.tp] = None
     \/ Ev.err = "OffsetOutOfRangeError" /\ oor[Ev.tp] # -1 /\ pos[Ev.tp] = oor[Ev.tp]
  /\ err' = [err EXCEPT ![Ev.tp] = Ev.err]
  /\ fresh' = [fresh EXCEPT ![Ev.tp] = FALSE]
  /\ oor' = [oor EXCEPT ![Ev.tp] = -1]
  /\ UNCHANGED <<asked, log, hw, iso, policy, committed, pos, rst, paused, buf, resp, start, delivered, pendApi, out>>

TRaised ==
  /\ IsEvent("Raised")
  /\ Ev.err \in {"NoOffsetForPartitionError", "OffsetOutOfRangeError"} /\ policy = "none"
  /\ \E p \in Parts : err[p] = Ev.err
  /\ UNCHANGED vars /\ Same

TCallTimeout == IsEvent("CallTimeout") /\ UNCHANGED vars /\ Same

\* quiescent end: everything visible from the start position was delivered and the position is
\* at (or past) the bound -- unless the partition is in an error state (policy none)
TEnd ==
  /\ IsEvent("End")
  \* (a partition in the policy-"none" error state makes every getmany() raise and keeps the
  \*  fetcher from fetching its node's other partitions until the application seeks: the
  \*  liveness clause is only demanded of runs without such an error)
  /\ \/ \E q \in DOMAIN Tr[1].logs : err[q] # ""
     \/ \A p \in DOMAIN Tr[1].logs :
          /\ start[p] # None /\ delivered[p] = VisibleFrom(p, start[p])
          /\ Ev.pos[p] = pos[p] /\ AtEnd(p)
  /\ UNCHANGED vars /\ Same

TraceNext ==
  \/ TResetTo \/ TAwaitReset \/ TSeekToCall \/ TSeek \/ TPause \/ TResume \/ TFetchReply \/ TSet \/ TDel
  \/ TClear \/ TTake \/ TReturn \/ TPosition \/ TErrorSet \/ TRaised \/ TCallTimeout \/ TEnd

TraceSpec == TraceInit /\ [][TraceNext]_tvars

Bad ==
  IF ~ExactlyVisibleOnceInOrder THEN "ExactlyVisibleOnceInOrder"
  ELSE IF ~PositionBounds THEN "PositionBounds"
  ELSE IF ~NoErrorUnlessPolicyNone THEN "NoErrorUnlessPolicyNone"
  ELSE ""

View == [pos |-> pos, rst |-> rst, paused |-> paused, buf |-> buf, resp |-> resp, start |-> start,
         delivered |-> delivered, err |-> err, fresh |-> fresh, pendApi |-> pendApi, oor |-> oor, out |-> out]
Rec == Record(tid, l, Bad, IF IOEnv.DIAG = "1" THEN ToString(View) ELSE "")
Post == WriteVerdicts
=============================================================================
