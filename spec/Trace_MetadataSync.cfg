SPECIFICATION TraceSpec
CONSTANTS
  Callers = {"c1", "c2", "c3", "c4", "c5", "c6", "c7", "c8", "int"}
  Topics = {"t", "u", "w"}
  MaxObj = 12
  RearmOnRetry = FALSE
CONSTRAINT Rec
POSTCONDITION PostC
CHECK_DEADLOCK FALSE
