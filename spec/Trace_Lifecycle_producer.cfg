SPECIFICATION TraceSpec
CONSTANTS
  Kind = "producer"
  Comps <- ProducerComps
  MaxLive = 2
  AutoCommit = TRUE
  Static = FALSE
  FlushBounded = TRUE
  CommitGivesUp = TRUE
  SwallowCancel = TRUE
  ConnLossAtClose = FALSE
CONSTRAINT Rec
POSTCONDITION Post
CHECK_DEADLOCK FALSE
