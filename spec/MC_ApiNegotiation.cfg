SPECIFICATION Spec
INVARIANT VersionInRange
INVARIANT VersionIsHighestCommon
INVARIANT RefusedOnlyWhenDisjoint
INVARIANT InexpressibleIsRejected
INVARIANT NeverSilentlyDropped
INVARIANT HeaderMatchesFlexibility
INVARIANT ReplyPairedWithRequest
INVARIANT BootstrapWithoutVersions
CHECK_DEADLOCK FALSE
