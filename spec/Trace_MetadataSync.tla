------------------------- MODULE Trace_MetadataSync -------------------------
(***************************************************************************)
(* Binds MetadataSync.tla to the real AIOKafkaClient (harness/drv_md.py):   *)
(* every call of force_metadata_update / add_topic / set_topics, every start*)
(* and end of an update round of the synchroniser and every resolution of a *)
(* caller's future is an event carrying the post-state the code holds       *)
(* (waiter done?, update future present?, tracked topics).  The spec is     *)
(* instantiated AS CODED (RearmOnRetry = FALSE): the trace must be one of   *)
(* its behaviours, and the flaw TLC finds in the design (NoForgottenWaiter) *)
(* shows up in recorded runs as the `Forgotten` annotation of the verdict.  *)
(***************************************************************************)
EXTENDS MetadataSync, TraceKit, Sequences

VARIABLES tid, l, forgotten
tvars == <<vars, tid, l, forgotten>>
Tr == Traces[tid]
Ev == Tr[l]
IsEvent(e) == l <= Len(Tr) /\ Ev.e = e /\ l' = l + 1 /\ UNCHANGED tid
SetOf(s) == {s[i] : i \in 1..Len(s)}
Post == /\ waiterDone' = Ev.waiter /\ (fut' = "pending") = Ev.fut /\ val'[obj'] = SetOf(Ev.topics)

TraceInit ==
  /\ tid \in 1..NT /\ l = 2
  /\ Init /\ forgotten = FALSE

TForce ==
  /\ IsEvent("Force")
  /\ ForceBy(Ev.c) /\ want' = [want EXCEPT ![Ev.c] = {}]
  /\ UNCHANGED <<obj, val, pc, ref, asked, view, woken>>
  /\ Post /\ UNCHANGED forgotten

TAddTopic ==
  /\ IsEvent("AddTopic")
  /\ IF Ev.t \in val[obj] THEN UNCHANGED <<waiterDone, fut, awaiting, want>>
     ELSE ForceBy(Ev.c) /\ want' = [want EXCEPT ![Ev.c] = {Ev.t}]
  /\ val' = [val EXCEPT ![obj] = @ \cup {Ev.t}]
  /\ UNCHANGED <<obj, pc, ref, asked, view, woken>>
  /\ Post /\ UNCHANGED forgotten

TSetTopics ==
  /\ IsEvent("SetTopics") /\ obj < MaxObj
  /\ LET T == SetOf(Ev.T) IN
     /\ IF T = {} \/ T \ val[obj] # {} THEN ForceBy(Ev.c) /\ want' = [want EXCEPT ![Ev.c] = T]
        ELSE UNCHANGED <<waiterDone, fut, awaiting, want>>
     /\ obj' = obj + 1 /\ val' = [val EXCEPT ![obj + 1] = T]
  /\ UNCHANGED <<pc, ref, asked, view, woken>>
  /\ Post /\ UNCHANGED forgotten

TWake ==
  /\ IsEvent("UpdateStart")
  /\ Wake(Ev.how)
  /\ SetOf(Ev.asked) = asked'
  /\ Post /\ UNCHANGED forgotten

TUpdateDone ==
  /\ IsEvent("UpdateEnd")
  /\ UpdateDone
  /\ Post
  \* the design flaw, observed: the loop went back to sleep with a caller waiting and nothing but the periodic timeout to wake it
  /\ forgotten' = (forgotten \/ (fut' = "pending" /\ ~waiterDone'))

TResolved ==
  /\ IsEvent("Resolved")
  /\ Ev.c \notin awaiting                 \* futures resolve only through the normal end of an update round
  /\ UNCHANGED <<vars, forgotten>>

TEnd ==
  /\ IsEvent("End")
  /\ SetOf(Ev.pending) = awaiting
  /\ UNCHANGED <<vars, forgotten>>

TraceNext == TForce \/ TAddTopic \/ TSetTopics \/ TWake \/ TUpdateDone \/ TResolved \/ TEnd
TraceSpec == TraceInit /\ [][TraceNext]_tvars

Bad == IF ~WaitersHaveFuture THEN "WaitersHaveFuture" ELSE ""
View == [obj |-> obj, val |-> val, waiterDone |-> waiterDone, fut |-> fut, awaiting |-> awaiting, pc |-> pc,
         forgotten |-> forgotten]
Rec == Record(tid, l, Bad, IF IOEnv.DIAG = "1" \/ forgotten THEN ToString([forgotten |-> forgotten]) ELSE "")
PostC == WriteVerdicts
=============================================================================
