SPECIFICATION TraceSpec
CONSTANTS
  Insts = {"i1", "i2", "i3"}
  TPs = {"t-0", "t-1", "t-2", "u-0", "u-1", "u-2"}
CONSTRAINT Rec
POSTCONDITION Post
CHECK_DEADLOCK FALSE
