SPECIFICATION Spec
CONSTANTS
  Parts = {p1, p2}
  Nodes = {n1, n2}
  Tasks = {t1, t2}
  HiMod = 2
  LoMod = 2
  Retain = 2
  NoLeader = noleader
  MaxPerTask = 2
  MaxTotal = 3
  Cap = 2
  FaultBudget = 1
  Idem = FALSE
  Acks0 = FALSE
  StartHi = 1
  StartLo = 1
  TsChoices = {1, 2}
  Lat = FALSE
INVARIANT AckedExactlyOnce
INVARIANT Acks0NoMetadata
INVARIANT AcksMetadata
INVARIANT AtMostOnce
INVARIANT DuplicatesAreWholeBatches
INVARIANT IdemNeverFails
INVARIANT LogFromAccepted
INVARIANT OneInFlightPerPartition
INVARIANT ResolvedAtMostOnce
INVARIANT SeqContiguous
INVARIANT TaskOrder
INVARIANT TrueCoordinates
SYMMETRY Sym
CHECK_DEADLOCK FALSE
