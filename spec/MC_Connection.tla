--------------------------- MODULE MC_Connection ---------------------------
(* Bounded instance of Connection for exhaustive model checking: up to       *)
(* MaxReq pipelined requests of the three API kinds (plain / flexible header *)
(* / FindCoordinator v0), a peer that answers in order with up to MaxFrames  *)
(* frames of which FaultBudget may be bad in any way at any position, every  *)
(* chunking of the byte stream, timeouts / cancels of any waiter at any      *)
(* time, EOF / reset at any byte, correlation counter wrapping inside the run.*)
EXTENDS Connection

CONSTANTS MaxReq, MaxFrames, FaultBudget, BodyLen, Vias, InitCorrs, Fine, KindNames, MaxDone

VARIABLES budget
mcvars == <<vars, budget>>

Kinds == {k \in {[flex |-> FALSE, quirk |-> FALSE, n |-> "plain"], [flex |-> TRUE, quirk |-> FALSE, n |-> "flex"],
                 [flex |-> FALSE, quirk |-> TRUE, n |-> "quirk"]} : k.n \in KindNames}
NDone == Cardinality({i \in DOMAIN waiter : waiter[i].k \in {"timedOut", "cancelled"}})

MCInit == budget = FaultBudget /\ \E c \in InitCorrs : InitWith(c)

Free(A) == A /\ UNCHANGED budget
Fault(A) == budget > 0 /\ A /\ budget' = budget - 1

\* the peer answers requests in order: its next frame is meant for request nframes + 1
R == nframes + 1
Good(r, c) == [corr |-> c, sz |-> "ok", len |-> HdrLen(sent[r].flex) + BodyLen, hdr |-> TRUE, body |-> TRUE,
               flex |-> sent[r].flex, mark |-> R]

\* chunk boundaries: inside the size field, after it, inside the header, after the header, end of frame
RECURSIVE Marks(_, _)
Marks(w, base) == IF w = <<>> THEN {} ELSE
   LET f == Head(w) IN
   {base + 2, base + 4, base + 6, base + 4 + (IF f.len < HdrLen(f.flex) THEN f.len ELSE HdrLen(f.flex)), base + 4 + f.len}
     \cup Marks(Tail(w), base + 4 + f.len)
Pos == (IF rx.ph = "body" THEN 4 ELSE 0) + avail     \* stream offset delivered so far, from the start of Head(wire)

\* Partial-order reduction: emitting a frame commutes with every other action (a frame
\* matters only once its bytes are delivered), so the peer decides its answer to a
\* request right after the request was sent; "no answer" = the bytes never arrive.
PeerTurn == nframes < MaxFrames /\ R <= Len(sent) /\ tp = "up"

ASend == ~PeerTurn /\ Len(sent) < MaxReq /\ \E a \in Kinds, via \in Vias : Free(Send(a.flex, a.quirk, via))
APeerGood == nframes < MaxFrames /\ R <= Len(sent) /\ Free(PeerSends(Good(R, sent[R].corr)))
APeerQuirk == nframes < MaxFrames /\ R <= Len(sent) /\ sent[R].quirk /\ sent[R].corr # 0 /\ Free(PeerSends(Good(R, 0)))
APeerWrongCorr == nframes < MaxFrames /\ R <= Len(sent) /\
   \E c \in 0..CorrMax : c # sent[R].corr /\ ~(sent[R].quirk /\ c = 0) /\ Fault(PeerSends(Good(R, c)))
APeerBadBody == nframes < MaxFrames /\ R <= Len(sent) /\
   Fault(PeerSends([Good(R, sent[R].corr) EXCEPT !.body = FALSE, !.len = HdrLen(sent[R].flex)]))
APeerNoHdr == nframes < MaxFrames /\ R <= Len(sent) /\ \E n \in {0, 2} :
   Fault(PeerSends([Good(R, sent[R].corr) EXCEPT !.hdr = FALSE, !.body = FALSE, !.len = n]))
APeerNegSize == nframes < MaxFrames /\ R <= Len(sent) /\ Fault(PeerSends([Good(R, sent[R].corr) EXCEPT !.sz = "neg"]))
APeerHugeSize == nframes < MaxFrames /\ R <= Len(sent) /\ Fault(PeerSends([Good(R, sent[R].corr) EXCEPT !.sz = "huge"]))
\* a frame nobody asked for (duplicate of the last answer, or a fresh id), in either header form
APeerUnsolicited == nframes < MaxFrames /\ R > Len(sent) /\ \E c \in 0..CorrMax, fl \in BOOLEAN :
   Fault(PeerSends([corr |-> c, sz |-> "ok", len |-> HdrLen(fl) + BodyLen, hdr |-> TRUE, body |-> TRUE, flex |-> fl, mark |-> R]))
AChunk == \E n \in 1..Undelivered : (Fine \/ (Pos + n) \in Marks(wire, 0)) /\ ~PeerTurn /\ Chunk(n) /\ UNCHANGED budget
ARdSize == ~PeerTurn /\ RdSize /\ UNCHANGED budget
AUnsolicitedFrame == ~PeerTurn /\ UnsolicitedFrame /\ UNCHANGED budget
AHeaderFails == ~PeerTurn /\ HeaderFails /\ UNCHANGED budget
AMismatch == ~PeerTurn /\ Mismatch /\ UNCHANGED budget
ADeliver == ~PeerTurn /\ Deliver /\ UNCHANGED budget
AQuirk082 == ~PeerTurn /\ Quirk082 /\ UNCHANGED budget
ASkipDone == ~PeerTurn /\ SkipDone /\ UNCHANGED budget
ADecodeFails == ~PeerTurn /\ DecodeFails /\ UNCHANGED budget
AFormMismatch == ~PeerTurn /\ FormMismatch /\ UNCHANGED budget
ARdFail == ~PeerTurn /\ RdFail /\ UNCHANGED budget
AReaderErrClose == ~PeerTurn /\ ReaderErrClose /\ UNCHANGED budget
AEof == ~PeerTurn /\ Fault(Eof)
AReset == ~PeerTurn /\ Fault(Reset)
AWaiterTimeout == NDone < MaxDone /\ \E i \in DOMAIN waiter : (~PeerTurn /\ WaiterTimeout(i) /\ UNCHANGED budget)
ACancel == NDone < MaxDone /\ \E i \in DOMAIN waiter : (~PeerTurn /\ Cancel(i) /\ UNCHANGED budget)
AClientClose == \E i \in DOMAIN waiter : (~PeerTurn /\ ClientClose(i) /\ UNCHANGED budget)
AUserClose == ~PeerTurn /\ Fault(UserClose)

Next == \/ ASend \/ APeerGood \/ APeerQuirk \/ APeerWrongCorr \/ APeerBadBody \/ APeerNoHdr \/ APeerNegSize
        \/ APeerHugeSize \/ APeerUnsolicited \/ AChunk \/ ARdSize \/ AUnsolicitedFrame \/ AHeaderFails \/ AMismatch
        \/ ADeliver \/ AQuirk082 \/ ASkipDone \/ ADecodeFails \/ AFormMismatch \/ ARdFail \/ AReaderErrClose
        \/ AEof \/ AReset \/ AWaiterTimeout \/ ACancel \/ AClientClose \/ AUserClose

Spec == MCInit /\ [][Next]_mcvars
\* the peer decides its answer (PeerTurn is a modelling device, not a real delay); the done-callback runs
LiveSpec == Spec /\ WF_mcvars(APeerGood) /\ WF_mcvars(AReaderErrClose)
MCStepProps == [][FailsAllStep /\ Final]_mcvars
=============================================================================
