----------------------------- MODULE TraceKit -----------------------------
(* Shared plumbing for trace specifications (code -> spec conformance).      *)
(*                                                                           *)
(* A trace file is a JSON array of traces; a trace is a JSON array of event  *)
(* records.  A trace spec declares `tid` (which trace) and `l` (position),   *)
(* starts with `tid \in 1..NT /\ l = 1`, and consumes Traces[tid][l] with    *)
(* the actions of the design spec.  One TLC run (-workers 1) validates every *)
(* trace of the file; verdicts are total and written as JSON:                *)
(*   reached = highest l reached (accepted iff reached = need)               *)
(*   need    = Len(trace) + 1                                                *)
(*   bad     = <<l, name>> of the first state on the trace violating a       *)
(*             property of the design spec (<<0, "">> if none)               *)
(*   view    = projection of the spec state at the deepest point reached     *)
(*             (diagnosis of a rejection: compare with event `reached`)      *)
(***************************************************************************)
EXTENDS Naturals, Sequences, TLC, TLCExt, Json, IOUtils

\* The file is parsed once (first ASSUME) and kept in TLC register 1.
ASSUME TLCSet(1, JsonDeserialize(IOEnv.TRACE_FILE))
Traces == TLCGet(1)
NT == Len(Traces)

\* registers: 1 + t = reached, 1 + NT + t = bad, 1 + 2NT + t = view
ASSUME \A t \in 1..NT : TLCSet(1 + t, 0)
ASSUME \A t \in 1..NT : TLCSet(1 + NT + t, <<0, "">>)
ASSUME \A t \in 1..NT : TLCSet(1 + 2 * NT + t, "")

\* To be conjoined (always TRUE) into a CONSTRAINT of the trace spec.
Record(tid, l, bad, view) ==
  /\ IF l > TLCGet(1 + tid)
       THEN TLCSet(1 + tid, l) /\ TLCSet(1 + 2 * NT + tid, view)
       ELSE TRUE
  /\ IF bad # "" /\ TLCGet(1 + NT + tid)[1] = 0
       THEN TLCSet(1 + NT + tid, <<l, bad>>)
       ELSE TRUE

\* POSTCONDITION of the trace spec.
WriteVerdicts ==
  JsonSerialize(IOEnv.VERDICT_FILE,
    [t \in 1..NT |-> [reached |-> TLCGet(1 + t),
                      need |-> Len(Traces[t]) + 1,
                      bad |-> TLCGet(1 + NT + t),
                      view |-> TLCGet(1 + 2 * NT + t)]])

\* helpers for optional fields of an event record
Has(e, f) == f \in DOMAIN e
=============================================================================
