----------------------------- MODULE TraceKit -----------------------------
(* Shared plumbing for trace specifications (code -> spec conformance).      *)
(*                                                                           *)
(* A trace file is a JSON array of traces; a trace is a JSON array of event  *)
(* records.  A trace spec declares `tid` (which trace) and `l` (position),   *)
(* starts with `tid \in 1..NT /\ l = 1`, and consumes Traces[tid][l] with    *)
(* the actions of the design spec.  One TLC run (-workers 1) validates every *)
(* trace of the file; verdicts are total and written as JSON:                *)
(*   reached = highest l reached (accepted iff reached = need)               *)
(*   need    = Len(trace) + 1                                                *)
(*   bad     = <<l, name>> of the first state on the trace violating a       *)
(*             property of the design spec (<<0, "">> if none)               *)
(*   view    = projection of the spec state at the deepest point reached     *)
(*             (diagnosis of a rejection: compare with event `reached`)      *)
(***************************************************************************)
EXTENDS Naturals, Sequences, TLC, TLCExt, Json, IOUtils

Traces == JsonDeserialize(IOEnv.TRACE_FILE)
NT == Len(Traces)

ASSUME \A i \in 1..NT : TLCSet(i, 0)
ASSUME \A i \in (NT + 1)..(2 * NT) : TLCSet(i, <<0, "">>)
ASSUME \A i \in (2 * NT + 1)..(3 * NT) : TLCSet(i, "")

\* To be conjoined (always TRUE) into a CONSTRAINT of the trace spec.
Record(tid, l, bad, view) ==
  /\ IF l > TLCGet(tid)
       THEN TLCSet(tid, l) /\ TLCSet(2 * NT + tid, view)
       ELSE TRUE
  /\ IF bad # "" /\ TLCGet(NT + tid)[1] = 0
       THEN TLCSet(NT + tid, <<l, bad>>)
       ELSE TRUE

\* POSTCONDITION of the trace spec.
WriteVerdicts ==
  JsonSerialize(IOEnv.VERDICT_FILE,
    [t \in 1..NT |-> [reached |-> TLCGet(t),
                      need |-> Len(Traces[t]) + 1,
                      bad |-> TLCGet(NT + t),
                      view |-> TLCGet(2 * NT + t)]])

\* helpers for optional fields of an event record
Has(e, f) == f \in DOMAIN e
=============================================================================
