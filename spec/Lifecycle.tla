------------------------------ MODULE Lifecycle ------------------------------
(***************************************************************************)
(* Shutdown protocol of AIOKafkaConsumer.stop() / AIOKafkaProducer.stop()  *)
(* (C19).  One action per step of the close sequences:                      *)
(*                                                                          *)
(*   consumer.stop():  GroupCoordinator.close  (closing flag -> the         *)
(*       coordination task leaves its loop, does the LAST auto-commit,      *)
(*       heartbeat / commit-refresh tasks are cancelled, LeaveGroup is      *)
(*       sent once, best effort)  ->  Fetcher.close (fetch loop and every   *)
(*       per-node task cancelled and awaited)  ->  AIOKafkaClient.close     *)
(*       (metadata synchronizer cancelled, every connection closed: reader  *)
(*       task and idle timer go with it)                                    *)
(*   producer.stop():  MessageAccumulator.close (flush) raced against the   *)
(*       death of the sender task (sub-step "flush" of component "sender")  *)
(*       -> Sender.close -> AIOKafkaClient.close                            *)
(*                                                                          *)
(* The client's background activity is abstracted to the NUMBER of live     *)
(* tasks per component, of armed timers and of open connections; while      *)
(* running these numbers move freely (Churn), so stop() is issued in every  *)
(* reachable configuration.  Every network wait of the close sequence ends  *)
(* by a reply or by its timeout (Unreachable brokers only by timeout).      *)
(*                                                                          *)
(* Named deviation (open finding C19-idempotent-stop-unbounded): with       *)
(* idempotence on, batches never expire, so the flush step has no timeout   *)
(* exit while the leaders are unreachable -- FlushBounded = FALSE models    *)
(* that and TLC shows the liveness property failing exactly there.          *)
(* Named deviation (open finding C19-no-leave-after-connection-closed-at-   *)
(* stop): action LeaveSkippedAfterConnLoss, enabled by ConnLossAtClose;     *)
(* TLC shows LeftIfReachable failing exactly there.                         *)
(***************************************************************************)
EXTENDS Naturals, Sequences, FiniteSets, TLC

CONSTANTS
  Kind,          \* "consumer" (group member) | "assign" (group-less consumer) | "producer"
  Comps,         \* components in closing order, e.g. <<"coord", "fetch", "client">>
  MaxLive,       \* bound on live tasks per component in the model
  AutoCommit,    \* consumer: a final commit is attempted
  Static,        \* consumer: static member (no LeaveGroup)
  FlushBounded,  \* producer: the flush ends by delivery or batch expiry
  CommitGivesUp, \* the final commit gives up when no coordinator is known while closing (TRUE: the code as fixed by
                 \* b2bc6cc; FALSE: the earlier behaviour -- it retried for ever)
  ConnLossAtClose, \* the brokers may close the consumer's connections at the very instant of stop() (TRUE only in the model
                 \* variant that exhibits open finding C19-no-leave-after-connection-closed-at-stop)
  SwallowCancel  \* Fetcher.close swallows the CancelledError of a per-node task cancelled in its retry back-off
                 \* (TRUE: the code as fixed by f14b6ee; FALSE: the error escaped stop(), client.close was skipped)

VARIABLES
  phase,     \* "running" | "closing" | "stopped"
  step,      \* index into Comps of the component being closed (closing), 0 before
  sub,       \* sub-step inside the component close: "idle" | "await" | "lastcommit" | "leave" | "flush"
  live,      \* component -> number of live background tasks
  timers,    \* armed timers owned by the client
  conns,     \* open connections
  joined,    \* consumer is a member the coordinator knows
  coordOk,   \* the node the consumer takes for its coordinator is the coordinator and answers
  left,      \* a LeaveGroup of this member reached the coordinator
  reachAtLeave, \* history: coordOk at the moment LeaveGroup was attempted
  raised,    \* stop() raised instead of returning
  waits,     \* number of bounded network waits spent by stop() (each <= request timeout)
  inBackoff, \* a per-node fetch task sleeps its retry back-off after a failed fetch
  hasAssign, \* the coordination task holds an assignment (only then is there something to commit at close)
  rebDone    \* number of commits-before-rejoin done for the rebalance that was in progress at stop() (a rejoin that is
             \* answered REBALANCE_IN_PROGRESS is prepared again; each round is bounded, MaxReb rounds are modelled)

vars == <<phase, step, sub, live, timers, conns, joined, coordOk, left, reachAtLeave, raised, waits, inBackoff, rebDone, hasAssign>>

CompSet == {Comps[i] : i \in 1..Len(Comps)}
Len0(s) == Len(s)

Init ==
  /\ phase = "running" /\ step = 0 /\ sub = "idle"
  /\ live \in [CompSet -> 0..MaxLive]
  /\ timers \in 0..MaxLive /\ conns \in 0..MaxLive
  /\ joined \in BOOLEAN /\ coordOk \in BOOLEAN
  /\ left = FALSE /\ reachAtLeave = FALSE /\ raised = FALSE /\ waits = 0 /\ inBackoff \in BOOLEAN /\ rebDone = 0 /\ hasAssign \in BOOLEAN

\* ---- running: background activity and the environment move freely ------------------------------
Churn ==
  /\ phase = "running"
  /\ \E c \in CompSet, n \in 0..MaxLive : live' = [live EXCEPT ![c] = n]
  /\ timers' \in 0..MaxLive /\ conns' \in 0..MaxLive /\ inBackoff' \in BOOLEAN
  /\ hasAssign' \in BOOLEAN
  /\ UNCHANGED <<phase, step, sub, joined, coordOk, left, reachAtLeave, raised, waits, rebDone>>

Env ==
  /\ phase # "stopped"
  /\ \/ coordOk' \in BOOLEAN /\ UNCHANGED joined
     \/ phase = "running" /\ joined' \in BOOLEAN /\ UNCHANGED coordOk
  /\ UNCHANGED <<phase, step, sub, live, timers, conns, left, reachAtLeave, raised, waits, inBackoff, rebDone, hasAssign>>

StopCall ==
  /\ phase = "running"
  /\ phase' = "closing" /\ step' = 1
  /\ sub' = IF Kind = "consumer" THEN (IF AutoCommit THEN "lastcommit" ELSE "leave")
            ELSE IF Kind = "producer" THEN "flush"
            ELSE "await"                                  \* group-less consumer: its coordinator has nothing to close
  /\ UNCHANGED <<live, timers, conns, joined, coordOk, left, reachAtLeave, raised, waits, inBackoff, rebDone, hasAssign>>

Cur == Comps[step]
MaxReb == 3

\* ---- consumer: GroupCoordinator.close ------------------------------------------------------------
\* last auto-commit by the coordination task: ONE bounded attempt chain -- it ends by a reply, by the
\* request timeout, or at once when no coordinator is known (no lookup is started while closing)
LastCommit ==
  /\ phase = "closing" /\ Cur = "coord" /\ sub = "lastcommit"
  /\ coordOk \/ CommitGivesUp
  /\ waits' = IF coordOk THEN waits ELSE waits + 1
  /\ sub' = "leave"
  /\ UNCHANGED <<phase, step, live, timers, conns, joined, coordOk, left, reachAtLeave, raised, inBackoff, rebDone, hasAssign>>

\* stop() during a rebalance: the coordination task finishes the step it is in -- the commit that precedes a
\* rejoin -- before it looks at the closing flag: one more bounded wait, at most once
RebalanceCommit ==
  /\ phase = "closing" /\ Cur = "coord" /\ sub \in {"lastcommit", "leave"} /\ rebDone < MaxReb
  /\ rebDone' = rebDone + 1
  /\ waits' = IF coordOk THEN waits ELSE waits + 1
  /\ UNCHANGED <<phase, step, sub, live, timers, conns, joined, coordOk, left, reachAtLeave, raised, inBackoff, hasAssign>>

\* LeaveGroup: sent once, best effort; it arrives iff the coordinator is the one we know and answers
Leave ==
  \* (the final commit is skipped when the coordination task never had an assignment)
  /\ phase = "closing" /\ Cur = "coord"
  /\ sub = "leave" \/ (sub = "lastcommit" /\ ~hasAssign)
  /\ left' = (joined /\ ~Static /\ coordOk) /\ reachAtLeave' = coordOk
  /\ waits' = IF joined /\ ~Static /\ ~coordOk THEN waits + 1 ELSE waits
  /\ sub' = "await"
  /\ UNCHANGED <<phase, step, live, timers, conns, joined, coordOk, raised, inBackoff, rebDone, hasAssign>>

\* Named deviation (open finding C19-no-leave-after-connection-closed-at-stop): the first request of GroupCoordinator.close()
\* -- the closing OffsetCommit, or the LeaveGroup itself -- fails with a connection error because the broker has just closed
\* the connection; _send_req marks the coordinator dead, _maybe_leave_group then sends nothing although the coordinator is
\* up and a reconnect would succeed.  No wait is spent (the failure is immediate).
LeaveSkippedAfterConnLoss ==
  /\ ConnLossAtClose
  /\ phase = "closing" /\ Cur = "coord" /\ sub \in {"lastcommit", "leave"}
  /\ left' = FALSE /\ reachAtLeave' = coordOk
  /\ sub' = "await"
  /\ UNCHANGED <<phase, step, live, timers, conns, joined, coordOk, raised, waits, inBackoff, rebDone, hasAssign>>

\* ---- producer: flush raced against the sender's death ---------------------------------------------
Flush ==
  /\ phase = "closing" /\ Cur = "sender" /\ sub = "flush"
  /\ FlushBounded \/ coordOk          \* idempotent + unreachable leaders: no exit (see header)
  /\ waits' = IF coordOk THEN waits ELSE waits + 1
  /\ sub' = "await"
  /\ UNCHANGED <<phase, step, live, timers, conns, joined, coordOk, left, reachAtLeave, raised, inBackoff, rebDone, hasAssign>>

\* the sender task is already dead (fatal error, e.g. fenced): stop() does not wait for the flush -- the flush task
\* ends by itself because the dying sender failed every pending batch
FlushSkipped ==
  /\ phase = "closing" /\ Cur = "sender" /\ sub = "flush" /\ live["sender"] = 0
  /\ sub' = "await"
  /\ UNCHANGED <<phase, step, live, timers, conns, joined, coordOk, left, reachAtLeave, raised, waits, inBackoff, rebDone, hasAssign>>

\* ... or it dies WHILE stop() waits for the flush (the wait is on {flush task, sender task}, first to finish)
SenderDies ==
  /\ phase = "closing" /\ Cur = "sender" /\ sub = "flush" /\ live["sender"] > 0
  /\ live' = [live EXCEPT !["sender"] = 0]
  /\ UNCHANGED <<phase, step, sub, timers, conns, joined, coordOk, left, reachAtLeave, raised, waits, inBackoff, rebDone, hasAssign>>

\* ---- every component: cancel its tasks, AWAIT them, swallow their CancelledError ---------------
CloseComp ==
  /\ phase = "closing" /\ sub = "await"
  /\ ~(Cur = "fetch" /\ inBackoff /\ live["fetch"] > 0 /\ ~SwallowCancel)
  /\ live' = [live EXCEPT ![Cur] = 0]
  /\ IF Cur = "client" THEN conns' = 0 /\ timers' = 0          \* connections go with reader task + idle timer
     ELSE UNCHANGED conns /\ timers' \in 0..timers             \* sleeps of cancelled tasks are disarmed
  /\ IF step < Len0(Comps)
     THEN /\ step' = step + 1
          /\ sub' = "await"
          /\ UNCHANGED phase
     ELSE /\ phase' = "stopped" /\ UNCHANGED <<step, sub>>
  /\ UNCHANGED <<joined, coordOk, left, reachAtLeave, raised, waits, inBackoff, rebDone, hasAssign>>

\* the earlier behaviour: the CancelledError of the task cancelled in its back-off escapes Fetcher.close and stop()
CloseFetchRaises ==
  /\ phase = "closing" /\ sub = "await" /\ Cur = "fetch" /\ inBackoff /\ live["fetch"] > 0 /\ ~SwallowCancel
  /\ live' = [live EXCEPT !["fetch"] = 0]
  /\ raised' = TRUE /\ phase' = "stopped"
  /\ UNCHANGED <<step, sub, timers, conns, joined, coordOk, left, reachAtLeave, waits, inBackoff, rebDone, hasAssign>>

Next == Churn \/ Env \/ StopCall \/ LastCommit \/ RebalanceCommit \/ Leave \/ LeaveSkippedAfterConnLoss \/ Flush \/ FlushSkipped \/ SenderDies \/ CloseComp \/ CloseFetchRaises
Spec == Init /\ [][Next]_vars
LiveSpec == Spec /\ WF_vars(LastCommit) /\ WF_vars(Leave) /\ WF_vars(Flush) /\ WF_vars(FlushSkipped) /\ WF_vars(CloseComp) /\ WF_vars(CloseFetchRaises)

\* ---- C19 -------------------------------------------------------------------------------------------
TypeOK == phase \in {"running", "closing", "stopped"} /\ step \in 0..Len0(Comps)
NothingLeft == phase = "stopped" => (\A c \in CompSet : live[c] = 0) /\ timers = 0 /\ conns = 0
StopReturnsNormally == ~raised
\* bounded: at most one request timeout each for the commit of each round of an interrupted rebalance, the last commit,
\* LeaveGroup and the flush
BoundedWaits == waits <= 3 + MaxReb
LeftIfReachable == phase = "stopped" /\ Kind = "consumer" /\ joined /\ ~Static /\ reachAtLeave => left
StaticStays == Static => ~left
\* closing order: a component is closed only after the ones before it
ClosedInOrder == phase = "closing" => \A i \in 1..(step - 1) : live[Comps[i]] = 0
StopTerminates == (phase = "closing") ~> (phase = "stopped")
=============================================================================
