SPECIFICATION Spec
CONSTANTS
  TPs = {"t-0"}
  Nodes = {0, 1}
  TTL = 2
  MaxTime = 4
  MaxSteps = 6
INVARIANT TypeOK
INVARIANT NoStickToFailed
INVARIANT ExpiredNotUsed
CHECK_DEADLOCK FALSE
