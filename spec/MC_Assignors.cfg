SPECIFICATION SpecRef
CONSTANTS
 MaxMembers = 3
 MaxTopics = 2
 MaxParts = 2
 MaxNew = 2
INVARIANT InvValid
INVARIANT InvRangeBalanced
INVARIANT InvRRBalanced
INVARIANT InvStickyBalanced
INVARIANT InvUnchanged
INVARIANT InvDeparted
INVARIANT InvNewMembers
INVARIANT NotStuck
PROPERTY Terminates
CHECK_DEADLOCK FALSE
