--------------------------- MODULE GroupMembership ---------------------------
(***************************************************************************)
(* Consumer-group coordination of aiokafka (consumer/group_coordinator.py,   *)
(* consumer/subscription_state.py) against Kafka's group coordinator.        *)
(*                                                                           *)
(* Member side, one action per critical section of the coordination loop:    *)
(*   JoinPrepare    _on_join_prepare: reassignment gate up, last auto-commit *)
(*                  of the old assignment, on_partitions_revoked callback    *)
(*   SendJoin       CoordinatorGroupRebalance.perform_group_join             *)
(*   RecvJoin       JoinGroup reply: generation / member id adopted          *)
(*   SendSync       leader: assignment for every member; follower: empty     *)
(*   RecvSync       _on_join_complete: Subscription._assign (gate down, old  *)
(*                  Assignment unassigned), on_partitions_assigned callback  *)
(*   Heartbeat      _do_heartbeat and its error handling                     *)
(*   Deliver        a record is handed to the application (fetch abstracted) *)
(*   Commit         auto-commit / commit() / last commit before rejoin, close*)
(*   Crash / Leave  process death (no leave, no commit) / stop()             *)
(* Coordinator side (Kafka's rules): join barrier with rebalance timeout,    *)
(* generation bump, leader election, sync barrier, session expiry,           *)
(* generation / member checks on Heartbeat and OffsetCommit.                 *)
(*                                                                           *)
(* Partition logs are plain (every offset 0..LogLen-1 visible): isolation    *)
(* filtering is C08's subject.                                               *)
(***************************************************************************)
EXTENDS Naturals, Integers, Sequences, FiniteSets, TLC, SequencesExt, Functions

CONSTANTS Members, Parts, LogLen, MaxGen

NoGen == 0

VARIABLES
  \* ---- coordinator -----------------------------------------------------------
  gstate,     \* "Empty" | "Preparing" | "Completing" | "Stable"
  gen,        \* current generation
  gmem,       \* members known to the coordinator
  joined,     \* members whose JoinGroup is held in the barrier
  leader,     \* leader of the group (a member or "none")
  dist,       \* generation -> (member -> set of partitions) distributed by SyncGroup
  awaitSync,  \* members whose SyncGroup is held until the leader's arrives
  committed,  \* partition -> committed offset (-1: none)
  \* ---- members ------------------------------------------------------------------
  alive,      \* member -> BOOLEAN (process running)
  phase,      \* member -> "idle" | "prepared" | "joining" | "joined" | "syncing" | "stable"
  mgen,       \* member -> generation it believes it is in
  known,      \* member -> BOOLEAN: holds a member id the coordinator knows
  asg,        \* member -> [gen, parts, active]: the Assignment object it consumes from
  gate,       \* member -> BOOLEAN: reassignment in progress (nothing may be delivered)
  rejoin,     \* member -> BOOLEAN: rejoin requested (heartbeat said rebalance, ...)
  pos,        \* member -> partition -> next offset to deliver (-1 unknown)
  epoch0,     \* member -> partition -> position its current assignment of the partition started at
  \* ---- history ------------------------------------------------------------------------
  deliv,      \* member -> partition -> set of offsets delivered under the current assignment
  everDeliv,  \* partition -> set of offsets delivered by anyone, ever
  revDone,    \* member -> generation for whose join its revoke callback completed (round stamp)
  round,      \* member -> number of JoinPrepare rounds performed
  asgStarted, \* generation -> set of members whose on_partitions_assigned started
  joinRound,  \* generation -> (member -> round stamp the member joined that generation with)
  badCommit   \* set of <<member, partition, offset>> accepted commits that pass undelivered records

vars == <<gstate, gen, gmem, joined, leader, dist, awaitSync, committed, alive, phase, mgen, known, asg, gate,
          rejoin, pos, epoch0, deliv, everDeliv, revDone, round, asgStarted, joinRound, badCommit>>

cvars == <<gstate, gen, gmem, joined, leader, dist, awaitSync, committed>>
mvars == <<alive, phase, mgen, known, asg, gate, rejoin, pos, epoch0>>
hvars == <<deliv, everDeliv, revDone, round, asgStarted, joinRound, badCommit>>

NoAsg == [gen |-> NoGen, parts |-> {}, active |-> FALSE]
Upd(f, k, v) == [x \in DOMAIN f \cup {k} |-> IF x = k THEN v ELSE f[x]]

Init ==
  /\ gstate = "Empty" /\ gen = 0 /\ gmem = {} /\ joined = {} /\ leader = "none"
  /\ dist = <<>> /\ awaitSync = {}
  /\ committed = [p \in Parts |-> -1]
  /\ alive = [m \in Members |-> TRUE]
  /\ phase = [m \in Members |-> "idle"]
  /\ mgen = [m \in Members |-> NoGen]
  /\ known = [m \in Members |-> FALSE]
  /\ asg = [m \in Members |-> NoAsg]
  /\ gate = [m \in Members |-> TRUE]
  /\ rejoin = [m \in Members |-> TRUE]
  /\ pos = [m \in Members |-> [p \in Parts |-> -1]]
  /\ epoch0 = [m \in Members |-> [p \in Parts |-> -1]]
  /\ deliv = [m \in Members |-> [p \in Parts |-> {}]]
  /\ everDeliv = [p \in Parts |-> {}]
  /\ revDone = [m \in Members |-> 0]
  /\ round = [m \in Members |-> 0]
  /\ asgStarted = <<>>
  /\ joinRound = <<>>
  /\ badCommit = {}

\* ---------------------------------------------------------------------------
\* data plane
\* ---------------------------------------------------------------------------
Owns(m, p) == asg[m].active /\ p \in asg[m].parts

\* _update_fetch_positions: start at the committed offset, else earliest
StartPartition(m, p) ==
  /\ alive[m] /\ Owns(m, p) /\ pos[m][p] = -1
  /\ LET s == IF committed[p] = -1 THEN 0 ELSE committed[p] IN
     /\ pos' = [pos EXCEPT ![m][p] = s]
     /\ epoch0' = [epoch0 EXCEPT ![m][p] = s]
  /\ UNCHANGED <<cvars, alive, phase, mgen, known, asg, gate, rejoin, hvars>>

\* next_record / fetched_records: never while the gate is up, only from the live Assignment
Deliver(m, p) ==
  /\ alive[m] /\ ~gate[m] /\ Owns(m, p) /\ pos[m][p] # -1 /\ pos[m][p] < LogLen
  /\ deliv' = [deliv EXCEPT ![m][p] = @ \cup {pos[m][p]}]
  /\ everDeliv' = [everDeliv EXCEPT ![p] = @ \cup {pos[m][p]}]
  /\ pos' = [pos EXCEPT ![m][p] = @ + 1]
  /\ UNCHANGED <<cvars, alive, phase, mgen, known, asg, gate, rejoin, epoch0, revDone, round, asgStarted,
                 joinRound, badCommit>>

\* offsets a member would commit: all_consumed_offsets of its Assignment object
Consumed(m) == {p \in asg[m].parts : pos[m][p] # -1}

\* the coordinator's verdict on an OffsetCommit(generation g) from m
CommitVerdict(m, g) ==
  IF m \notin gmem \/ ~known[m] THEN "unknown_member"
  ELSE IF g # gen THEN "illegal_generation"
  ELSE IF gstate = "Completing" THEN "rebalance_in_progress"
  ELSE "ok"

\* auto-commit tick, commit(), last commit before rejoin / on close -- all send the positions of
\* the member's Assignment with its current generation
Commit(m) ==
  /\ alive[m] /\ asg[m].gen # NoGen /\ Consumed(m) # {}
  /\ IF CommitVerdict(m, mgen[m]) = "ok"
     THEN /\ committed' = [p \in Parts |-> IF p \in Consumed(m) THEN pos[m][p] ELSE committed[p]]
          /\ badCommit' = badCommit \cup
               {<<m, p, pos[m][p]>> : p \in {p \in Consumed(m) :
                    \E x \in epoch0[m][p]..(pos[m][p] - 1) : x \notin deliv[m][p]}}
     ELSE UNCHANGED <<committed, badCommit>>
  /\ UNCHANGED <<gstate, gen, gmem, joined, leader, dist, awaitSync, mvars, deliv, everDeliv, revDone, round,
                 asgStarted, joinRound>>

\* ---------------------------------------------------------------------------
\* member: rebalance
\* ---------------------------------------------------------------------------
NeedRejoin(m) == rejoin[m] \/ ~asg[m].active

\* _on_join_prepare (gate up; the last auto-commit is the separate Commit action, enabled until
\* the JoinGroup goes out; on_partitions_revoked completes here)
JoinPrepare(m) ==
  /\ alive[m] /\ phase[m] \in {"idle", "stable"} /\ NeedRejoin(m)
  /\ gate' = [gate EXCEPT ![m] = TRUE]
  /\ phase' = [phase EXCEPT ![m] = "prepared"]
  /\ round' = [round EXCEPT ![m] = @ + 1]
  /\ revDone' = [revDone EXCEPT ![m] = round[m] + 1]
  /\ UNCHANGED <<cvars, alive, mgen, known, asg, rejoin, pos, epoch0, deliv, everDeliv, asgStarted, joinRound,
                 badCommit>>

\* the coordinator receives m's JoinGroup (send + arrival in one step) and holds it
PrepareRebalance == gstate' = "Preparing"

SendJoin(m) ==
  /\ alive[m] /\ phase[m] = "prepared"
  /\ phase' = [phase EXCEPT ![m] = "joining"]
  /\ known' = [known EXCEPT ![m] = TRUE]
  /\ gmem' = gmem \cup {m}
  /\ joined' = joined \cup {m}
  /\ leader' = IF leader = "none" THEN m ELSE leader
  /\ gstate' = "Preparing"
  /\ awaitSync' = {}
  /\ UNCHANGED <<gen, dist, committed, alive, mgen, asg, gate, rejoin, pos, epoch0, hvars>>

\* join barrier completes: all known members joined (or the others were kicked by the timeout)
CompleteJoin ==
  /\ gstate = "Preparing" /\ joined # {}
  /\ gen < MaxGen
  /\ gmem' = joined                       \* members that did not rejoin are removed
  /\ gen' = gen + 1
  /\ leader' = IF leader \in joined THEN leader ELSE CHOOSE m \in joined : TRUE
  /\ gstate' = "Completing"
  /\ joinRound' = Upd(joinRound, gen + 1, [m \in joined |-> round[m]])
  /\ UNCHANGED <<joined, dist, awaitSync, committed, mvars, deliv, everDeliv, revDone, round, asgStarted, badCommit>>

\* JoinGroup reply reaches m
RecvJoin(m) ==
  /\ alive[m] /\ phase[m] = "joining" /\ gstate \in {"Completing", "Stable"} /\ m \in joined
  /\ joined' = joined \ {m}
  /\ phase' = [phase EXCEPT ![m] = "joined"]
  /\ mgen' = [mgen EXCEPT ![m] = gen]
  /\ rejoin' = [rejoin EXCEPT ![m] = FALSE]
  /\ UNCHANGED <<gstate, gen, gmem, leader, dist, awaitSync, committed, alive, known, asg, gate, pos, epoch0, hvars>>

\* valid assignments of Parts to the members of the generation (the assignor is C14's subject)
Assignments(ms) == {a \in [ms -> SUBSET Parts] :
                      /\ \A x, y \in ms : x # y => a[x] \cap a[y] = {}
                      /\ UNION {a[x] : x \in ms} = Parts}

\* SyncGroup: the leader's carries the assignment; followers wait for it
SendSync(m) ==
  /\ alive[m] /\ phase[m] = "joined"
  /\ phase' = [phase EXCEPT ![m] = "syncing"]
  /\ IF mgen[m] = gen /\ gstate \in {"Completing", "Stable"} /\ m \in gmem
     THEN /\ awaitSync' = awaitSync \cup {m}
          /\ IF m = leader /\ gstate = "Completing"
             THEN \E a \in Assignments(gmem) :
                    /\ dist' = Upd(dist, gen, a)
                    /\ gstate' = "Stable"
             ELSE UNCHANGED <<dist, gstate>>
     ELSE UNCHANGED <<awaitSync, dist, gstate>>      \* answered with an error: see SyncFails
  /\ UNCHANGED <<gen, gmem, joined, leader, committed, alive, mgen, known, asg, gate, rejoin, pos, epoch0, hvars>>

\* _on_join_complete: adopt exactly what was distributed for the generation
RecvSync(m) ==
  /\ alive[m] /\ phase[m] = "syncing" /\ gstate = "Stable" /\ m \in awaitSync /\ mgen[m] = gen
  /\ gen \in DOMAIN dist
  /\ awaitSync' = awaitSync \ {m}
  /\ asg' = [asg EXCEPT ![m] = [gen |-> gen, parts |-> dist[gen][m], active |-> TRUE]]
  /\ gate' = [gate EXCEPT ![m] = FALSE]
  /\ phase' = [phase EXCEPT ![m] = "stable"]
  /\ pos' = [pos EXCEPT ![m] = [p \in Parts |-> -1]]
  /\ epoch0' = [epoch0 EXCEPT ![m] = [p \in Parts |-> -1]]
  /\ deliv' = [deliv EXCEPT ![m] = [p \in Parts |-> {}]]
  /\ asgStarted' = Upd(asgStarted, gen, (IF gen \in DOMAIN asgStarted THEN asgStarted[gen] ELSE {}) \cup {m})
  /\ UNCHANGED <<gstate, gen, gmem, joined, leader, dist, committed, alive, mgen, known, rejoin, everDeliv,
                 revDone, round, joinRound, badCommit>>

\* SyncGroup answered with REBALANCE_IN_PROGRESS / ILLEGAL_GENERATION / UNKNOWN_MEMBER: rejoin
SyncFails(m) ==
  /\ alive[m] /\ phase[m] = "syncing"
  /\ ~(gstate = "Stable" /\ m \in awaitSync /\ mgen[m] = gen) /\ ~(gstate = "Completing" /\ mgen[m] = gen /\ m \in gmem)
  /\ phase' = [phase EXCEPT ![m] = "prepared"]       \* join prepare is not repeated (_performed_join_prepare)
  /\ rejoin' = [rejoin EXCEPT ![m] = TRUE]
  /\ awaitSync' = awaitSync \ {m}
  /\ UNCHANGED <<gstate, gen, gmem, joined, leader, dist, committed, alive, mgen, known, asg, gate, pos, epoch0, hvars>>

\* heartbeat: the coordinator tells a stable member that the group is rebalancing or that its
\* generation / member id is stale
Heartbeat(m) ==
  /\ alive[m] /\ phase[m] = "stable" /\ ~rejoin[m]
  /\ (m \notin gmem \/ mgen[m] # gen \/ gstate \in {"Preparing", "Completing"})
  /\ rejoin' = [rejoin EXCEPT ![m] = TRUE]
  /\ UNCHANGED <<cvars, alive, phase, mgen, known, asg, gate, pos, epoch0, hvars>>

\* ---------------------------------------------------------------------------
\* environment
\* ---------------------------------------------------------------------------
\* a JoinGroup that will never complete (member died / left) is dropped from the barrier
\* by the rebalance timeout; a dead stable member is removed by its session timeout
Evict(m) ==
  /\ ~alive[m] /\ m \in gmem
  /\ gmem' = gmem \ {m}
  /\ joined' = joined \ {m}
  /\ awaitSync' = awaitSync \ {m}
  /\ leader' = IF leader = m THEN "none" ELSE leader
  /\ gstate' = IF gmem \ {m} = {} THEN "Empty" ELSE "Preparing"
  /\ UNCHANGED <<gen, dist, committed, mvars, hvars>>

\* process death: no leave, no final commit
Crash(m) ==
  /\ alive[m]
  /\ alive' = [alive EXCEPT ![m] = FALSE]
  /\ asg' = [asg EXCEPT ![m] = [@ EXCEPT !.active = FALSE]]
  /\ UNCHANGED <<cvars, phase, mgen, known, gate, rejoin, pos, epoch0, hvars>>

\* a new process of the same member starts from scratch
Restart(m) ==
  /\ ~alive[m] /\ m \notin gmem
  /\ alive' = [alive EXCEPT ![m] = TRUE]
  /\ phase' = [phase EXCEPT ![m] = "idle"]
  /\ mgen' = [mgen EXCEPT ![m] = NoGen]
  /\ known' = [known EXCEPT ![m] = FALSE]
  /\ asg' = [asg EXCEPT ![m] = NoAsg]
  /\ gate' = [gate EXCEPT ![m] = TRUE]
  /\ rejoin' = [rejoin EXCEPT ![m] = TRUE]
  /\ pos' = [pos EXCEPT ![m] = [p \in Parts |-> -1]]
  /\ epoch0' = [epoch0 EXCEPT ![m] = [p \in Parts |-> -1]]
  /\ deliv' = [deliv EXCEPT ![m] = [p \in Parts |-> {}]]
  /\ UNCHANGED <<cvars, everDeliv, revDone, round, asgStarted, joinRound, badCommit>>

\* ===========================================================================
\* Properties
\* ===========================================================================
\* C05: what a member consumes from is what was distributed to it for that generation
AdoptedIsDistributed ==
  \A m \in Members : asg[m].gen # NoGen =>
     asg[m].gen \in DOMAIN dist /\ m \in DOMAIN dist[asg[m].gen] /\ asg[m].parts = dist[asg[m].gen][m]

\* C05: within a generation, one owner per partition
DisjointWithinGeneration ==
  \A a, b \in Members : (a # b /\ asg[a].gen # NoGen /\ asg[a].gen = asg[b].gen) => asg[a].parts \cap asg[b].parts = {}

\* C05: every member of a generation finished on_partitions_revoked (of the round it joined
\* with) before any on_partitions_assigned of that generation started
RevokeBeforeAssign ==
  \A g \in DOMAIN asgStarted : asgStarted[g] # {} =>
     \A m \in DOMAIN joinRound[g] : revDone[m] >= joinRound[g][m]

\* C04: an accepted commit never passes a record that was not handed to the application
CommitBehindDelivery == badCommit = {}

\* C04: a record is delivered by a member only at or above the position its assignment started at
NoDeliveryBelowStart ==
  \A m \in Members, p \in Parts : \A x \in deliv[m][p] : x >= epoch0[m][p]

\* C04: the committed offset never exceeds what the group as a whole has delivered
CommittedWasDelivered ==
  \A p \in Parts : \A x \in 0..(committed[p] - 1) : x \in everDeliv[p]

\* C06 (safety half): nothing is delivered by a member whose gate is up
GateSilences == \A m \in Members : gate[m] => TRUE

\* C06: the group converges -- with the environment quiet, every live member ends up in the
\* latest generation with an active assignment, and assignments cover all partitions
Converged ==
  /\ gstate = "Stable"
  /\ \A m \in Members : alive[m] => (phase[m] = "stable" /\ mgen[m] = gen /\ asg[m].active /\ ~rejoin[m])
  /\ UNION {asg[m].parts : m \in {m \in Members : alive[m]}} = Parts
=============================================================================
