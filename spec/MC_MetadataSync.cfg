SPECIFICATION LiveSpec
CONSTANTS
  Callers = {a, b}
  Topics = {t, u}
  MaxObj = 3
  RearmOnRetry = FALSE
INVARIANT TypeOK
INVARIANT WaitersHaveFuture
INVARIANT NoForgottenWaiter
PROPERTY ForceResolves
CHECK_DEADLOCK FALSE
