SPECIFICATION Spec
CONSTANTS
  Members = {m1, m2}
  Parts = {p1, p2}
  LogLen = 2
  MaxGen = 2
  MaxCrash = 1
INVARIANT AdoptedIsDistributed
INVARIANT DisjointWithinGeneration
INVARIANT RevokeBeforeAssign
INVARIANT CommitBehindDelivery
INVARIANT NoDeliveryBelowStart
INVARIANT CommittedWasDelivered
SYMMETRY Sym
CHECK_DEADLOCK FALSE
