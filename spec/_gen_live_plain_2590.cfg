SPECIFICATION LiveSpec
CONSTANTS
  Parts = {p1, p2}
  Nodes = {n1, n2}
  Tasks = {t1, t2}
  HiMod = 2
  LoMod = 2
  Retain = 2
  NoLeader = noleader
  MaxPerTask = 2
  MaxTotal = 3
  Cap = 2
  FaultBudget = 1
  Idem = FALSE
  Acks0 = FALSE
  StartHi = 1
  StartLo = 1
  TsChoices = {1}
  Lat = FALSE


PROPERTY EventuallyResolved
CHECK_DEADLOCK FALSE
