SPECIFICATION SpecTable
CONSTANTS
 MaxMembers = 4
 MaxTopics = 3
 MaxParts = 4
 MaxNew = 1
CONSTRAINT Collect
POSTCONDITION WriteVerdicts
CHECK_DEADLOCK FALSE
