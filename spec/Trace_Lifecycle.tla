--------------------------- MODULE Trace_Lifecycle ---------------------------
(***************************************************************************)
(* Trace specification for C19: runs of the REAL consumer / producer on the *)
(* simulated cluster in which stop() is issued at a chosen instant           *)
(* (harness/drv_life.py).  Every event carries the projected state (live     *)
(* tasks per component, armed timers, open connections of the client under   *)
(* test, measured on the simulation loop) and must be a step of Lifecycle:   *)
(*                                                                           *)
(*  Started / Cond      Churn / Env (running)                                *)
(*  StopCall            Churn to the measured state, then StopCall           *)
(*  LastCommit, Leave   the two bounded network steps of GroupCoordinator.close *)
(*  Flush               MessageAccumulator.close returned (producer)         *)
(*  CloseStep(c, end)   CloseComp for component c -- in closing order, and   *)
(*                      the component's tasks ARE gone in the measured state *)
(*  StopReturn          stop() returned: normally, within the bound          *)
(*  Settled             measured state after the cancelled tasks unwound:    *)
(*                      NothingLeft is evaluated on it                       *)
(*  Api                 a call after stop(): must raise the stopped/closed error *)
(*  LeaveGroup          the coordinator received this member's LeaveGroup    *)
(*  End                 LeftIfReachable / StaticStays                        *)
(***************************************************************************)
EXTENDS Lifecycle, TraceKit

ConsumerComps == <<"coord", "fetch", "client">>
ProducerComps == <<"sender", "client">>

VARIABLES tid, l, viol, sawLeave, reachStop, boundMs

tvars == <<vars, tid, l, viol, sawLeave, reachStop, boundMs>>

Tr == Traces[tid]
Ev == Tr[l]
Cfg == Tr[1]
IsEvent(e) == l <= Len(Tr) /\ Ev.e = e /\ l' = l + 1 /\ UNCHANGED tid
CompOf(name) == CASE name = "coordinator" -> "coord" [] name = "fetcher" -> "fetch" [] OTHER -> name
Measured(ev) == [c \in CompSet |-> IF c \in DOMAIN ev.counts THEN ev.counts[c] ELSE 0]
Note(v) == IF viol = "" THEN v ELSE viol

TraceInit ==
  /\ tid \in 1..NT /\ l = 2
  /\ phase = "running" /\ step = 0 /\ sub = "idle"
  /\ live = [c \in CompSet |-> 0] /\ timers = 0 /\ conns = 0
  /\ joined = FALSE /\ coordOk = FALSE /\ left = FALSE /\ reachAtLeave = FALSE /\ raised = FALSE /\ waits = 0
  /\ inBackoff = FALSE /\ rebDone = 0 /\ hasAssign = FALSE
  /\ viol = "" /\ sawLeave = FALSE /\ reachStop = FALSE /\ boundMs = Traces[tid][1].bound_ms

Same == UNCHANGED <<viol, sawLeave, reachStop, boundMs>>

TStarted ==
  /\ IsEvent("Started") /\ phase = "running"
  /\ live' = Measured(Ev) /\ timers' = Ev.timers /\ conns' = Ev.conns
  /\ UNCHANGED <<phase, step, sub, joined, coordOk, left, reachAtLeave, raised, waits, inBackoff, rebDone, hasAssign>> /\ Same

TCond == IsEvent("Cond") /\ UNCHANGED vars /\ Same

\* stop() is called in the measured configuration
TStopCall ==
  /\ IsEvent("StopCall") /\ phase = "running"
  /\ live' = Measured(Ev) /\ timers' = Ev.timers /\ conns' = Ev.conns
  /\ joined' = Ev.member_joined /\ coordOk' = Ev.coord_reachable
  /\ phase' = "closing" /\ step' = 1
  /\ sub' = IF Kind = "consumer" THEN (IF AutoCommit THEN "lastcommit" ELSE "leave")
            ELSE IF Kind = "producer" THEN "flush" ELSE "await"
  /\ reachStop' = Ev.coord_reachable
  /\ hasAssign' \in BOOLEAN      \* not observable: TLC tries both
  /\ UNCHANGED <<left, reachAtLeave, raised, waits, inBackoff, rebDone, viol, sawLeave, boundMs>>

\* (the commits of the rounds of an interrupted rebalance and the final one are the same call; the LAST event of the
\* run of LastCommit events is the final commit -- all others are RebalanceCommit)
TLastCommit ==
  /\ IsEvent("LastCommit")
  /\ IF l < Len(Tr) /\ Tr[l + 1].e = "LastCommit" THEN RebalanceCommit
     ELSE IF sub = "lastcommit" THEN LastCommit ELSE RebalanceCommit
  /\ Same
TLeave == IsEvent("Leave") /\ Leave /\ Same
TFlush == IsEvent("Flush") /\ (IF sub = "flush" THEN Flush ELSE UNCHANGED vars) /\ Same

\* a component's close() returned: it is the component whose turn it is, it returned normally, and the measured
\* state shows none of its tasks any more
TCloseEnd ==
  /\ IsEvent("CloseStep") /\ Ev.phase = "end"
  /\ phase = "closing" /\ CompOf(Ev.comp) = Cur /\ sub = "await"
  /\ Ev.err = ""
  /\ Measured(Ev)[Cur] = 0
  /\ Cur = "client" => Ev.conns = 0
  /\ live' = Measured(Ev) /\ timers' = Ev.timers /\ conns' = Ev.conns
  /\ IF step < Len(Comps) THEN step' = step + 1 /\ sub' = "await" /\ UNCHANGED phase
     ELSE phase' = "stopped" /\ UNCHANGED <<step, sub>>
  /\ UNCHANGED <<joined, coordOk, left, reachAtLeave, raised, waits, inBackoff, rebDone, hasAssign>> /\ Same

TCloseBegin ==
  /\ IsEvent("CloseStep") /\ Ev.phase = "begin"
  /\ phase = "closing" /\ CompOf(Ev.comp) = Cur
  \* Sender.close entered without the flush having returned: the sender task is dead (it was, or died during the wait)
  /\ IF sub = "flush"
     THEN /\ Measured(Ev)["sender"] = 0
          /\ live' = Measured(Ev) /\ sub' = "await"
          /\ UNCHANGED <<phase, step, timers, conns, joined, coordOk, left, reachAtLeave, raised, waits, inBackoff, rebDone, hasAssign>>
     ELSE UNCHANGED vars
  /\ Same

\* stop() returned: every component was closed, no exception, within the bound
TStopReturn ==
  /\ IsEvent("StopReturn")
  /\ phase = "stopped"
  /\ Ev.ok
  /\ Ev.dt_ms <= boundMs
  /\ UNCHANGED vars /\ Same

\* after the cancelled tasks unwound: NothingLeft on the measured state
TSettled ==
  /\ IsEvent("Settled") /\ phase = "stopped"
  /\ live' = Measured(Ev) /\ timers' = Ev.timers /\ conns' = Ev.conns
  /\ viol' = IF (\E c \in CompSet : Measured(Ev)[c] # 0) \/ Ev.counts.other # 0 \/ Ev.counts.accum # 0 THEN Note("NothingLeft:task")
             ELSE IF Ev.timers # 0 THEN Note("NothingLeft:timer")
             ELSE IF Ev.conns # 0 THEN Note("NothingLeft:connection") ELSE viol
  /\ UNCHANGED <<phase, step, sub, joined, coordOk, left, reachAtLeave, raised, waits, inBackoff, rebDone, hasAssign, sawLeave, reachStop, boundMs>>

Closed(api, err) ==
  \/ api \in {"getone", "getmany"} /\ err = "ConsumerStoppedError"
  \/ api \in {"send", "send_and_wait"} /\ err \in {"ProducerClosed", "IllegalOperation"}
TApi ==
  /\ IsEvent("Api") /\ phase = "stopped"
  /\ ~Ev.ok /\ Closed(Ev.api, Ev.err)
  /\ UNCHANGED vars /\ Same

TLeaveGroup ==
  /\ IsEvent("LeaveGroup")
  /\ IF Ev.client = "c1" /\ Ev.code = 0
     THEN sawLeave' = TRUE /\ phase # "running"          \* only stop() makes the member leave
     ELSE UNCHANGED sawLeave
  /\ UNCHANGED <<vars, viol, reachStop, boundMs>>

TEnd ==
  /\ IsEvent("End") /\ phase = "stopped"
  \* "has left the group": its LeaveGroup arrived, or the coordinator does not hold it as a member any more (its session
  \* ran out while stop() sat in the barrier of an unfinished rebalance)
  /\ (Kind = "consumer" /\ joined /\ ~Static /\ reachStop) => (sawLeave \/ ~Ev.still_member)
  /\ Static => ~sawLeave
  /\ Ev.counts.other = 0 /\ Ev.counts.accum = 0 /\ Ev.timers = 0 /\ Ev.conns = 0 /\ \A c \in CompSet : Measured(Ev)[c] = 0
  /\ UNCHANGED vars /\ Same

TraceNext ==
  \/ TStarted \/ TCond \/ TStopCall \/ TLastCommit \/ TLeave \/ TFlush \/ TCloseBegin \/ TCloseEnd \/ TStopReturn
  \/ TSettled \/ TApi \/ TLeaveGroup \/ TEnd
TraceSpec == TraceInit /\ [][TraceNext]_tvars

Bad == IF viol # "" THEN viol ELSE IF ~ClosedInOrder THEN "ClosedInOrder" ELSE IF ~BoundedWaits THEN "BoundedWaits" ELSE ""
View == [phase |-> phase, step |-> step, sub |-> sub, live |-> live, timers |-> timers, conns |-> conns, joined |-> joined,
         coordOk |-> coordOk, sawLeave |-> sawLeave, reachStop |-> reachStop, waits |-> waits]
Rec == Record(tid, l, Bad, IF IOEnv.DIAG = "1" THEN ToString(View) ELSE "")
Post == WriteVerdicts
=============================================================================
