SPECIFICATION LiveSpec
CONSTANTS
  Members = {m1, m2}
  Parts = {p1}
  LogLen = 1
  MaxGen = 3
  MaxCrash = 1
PROPERTY Converges
CHECK_DEADLOCK FALSE
