SPECIFICATION TraceSpec
CONSTANTS
  Parts = {"t-0", "t-1", "t-2"}
CONSTRAINT Rec
POSTCONDITION Post
CHECK_DEADLOCK FALSE
