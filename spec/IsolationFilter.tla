--------------------------- MODULE IsolationFilter ---------------------------
(***************************************************************************)
(* C08: the isolation filter of the consumer,                                *)
(*   PartitionRecords._unpack_records / _consume_aborted_up_to /             *)
(*   _contains_abort_marker (aiokafka/consumer/fetcher.py),                  *)
(* as a step-by-step algorithm over ONE fetch response, one action per       *)
(* branch of the code:                                                       *)
(*   ConsumeAborted   pop aborted-index entries with first_offset <= base    *)
(*   AbortMarkerEnds  abort marker: producer leaves the aborted set          *)
(*   SkipAborted      transactional batch of an aborted producer             *)
(*   SkipControl      control batch (either isolation level)                 *)
(*   YieldBatch       records >= next_fetch_offset of a data batch           *)
(* TLC checks, for EVERY log of the bounded family, EVERY fetch offset and   *)
(* EVERY cut of the response at batch boundaries, with the aborted index a   *)
(* broker returns for that range, that the algorithm's output equals the     *)
(* DECLARATIVE visibility (non-transactional data + data of transactions     *)
(* whose next marker is a commit; for read_uncommitted every data record;    *)
(* markers never) and that next_fetch_offset ends past everything filtered.  *)
(*                                                                           *)
(* The same family is enumerated by the harness and replayed case by case    *)
(* into the real PartitionRecords (compiled and pure-Python record readers); *)
(* TLC judges the recorded outputs with the operator `Declared`.             *)
(***************************************************************************)
EXTENDS Naturals, Integers, Sequences, FiniteSets, TLC, TLCExt, SequencesExt, Functions, Json, IOUtils

CONSTANTS MaxLen      \* logs of 1..MaxLen batches

\* ---- the log family -------------------------------------------------------------
\* batch templates: 1 plain data (2 offsets), 2 plain data with a compaction hole,
\* 3/4 transactional data of producer 7/8, 5/6 commit marker of 7/8, 7/8 abort marker of 7/8
Templates == 1..8
Span(t) == IF t <= 4 THEN 2 ELSE 1
MkBatch(t, o) ==
  CASE t = 1 -> [base |-> o, last |-> o + 1, offs |-> {o, o + 1}, kind |-> "data", pid |-> -1, txnl |-> FALSE]
    [] t = 2 -> [base |-> o, last |-> o + 1, offs |-> {o}, kind |-> "data", pid |-> -1, txnl |-> FALSE]
    [] t = 3 -> [base |-> o, last |-> o + 1, offs |-> {o, o + 1}, kind |-> "data", pid |-> 7, txnl |-> TRUE]
    [] t = 4 -> [base |-> o, last |-> o + 1, offs |-> {o + 1}, kind |-> "data", pid |-> 8, txnl |-> TRUE]
    [] t = 5 -> [base |-> o, last |-> o, offs |-> {}, kind |-> "commit", pid |-> 7, txnl |-> TRUE]
    [] t = 6 -> [base |-> o, last |-> o, offs |-> {}, kind |-> "commit", pid |-> 8, txnl |-> TRUE]
    [] t = 7 -> [base |-> o, last |-> o, offs |-> {}, kind |-> "abort", pid |-> 7, txnl |-> TRUE]
    [] t = 8 -> [base |-> o, last |-> o, offs |-> {}, kind |-> "abort", pid |-> 8, txnl |-> TRUE]

RECURSIVE Build(_, _)
Build(ts, o) == IF ts = <<>> THEN <<>> ELSE <<MkBatch(Head(ts), o)>> \o Build(Tail(ts), o + Span(Head(ts)))
LogOf(ts) == Build(ts, 0)
Shapes == UNION {[1..n -> Templates] : n \in 1..MaxLen}

\* ---- declarative visibility (same definitions as ConsumerFetch) -------------------------
MarkerAfter(lg, i) ==
  LET js == {j \in (i + 1)..Len(lg) : lg[j].kind # "data" /\ lg[j].pid = lg[i].pid}
  IN IF js = {} THEN "open" ELSE lg[CHOOSE j \in js : \A k \in js : j <= k].kind
Leo(lg) == Last(lg).last + 1
OpenFirsts(lg) == {lg[i].base : i \in {i \in 1..Len(lg) : lg[i].kind = "data" /\ lg[i].txnl /\ MarkerAfter(lg, i) = "open"}}
\* first offset of each transaction: the first data batch of the pid since its previous marker
Lso(lg) == LET o == OpenFirsts(lg) IN IF o = {} THEN Leo(lg) ELSE CHOOSE x \in o : \A y \in o : x <= y
Bound(lg, isol) == IF isol = 1 THEN Lso(lg) ELSE Leo(lg)
VisibleIn(lg, k, isol) ==
  /\ lg[k].kind = "data"
  /\ (isol = 1 /\ lg[k].txnl) => MarkerAfter(lg, k) = "commit"
Declared(lg, f, i, j, isol) ==
  SetToSortSeq({o \in UNION {lg[k].offs : k \in {k \in i..j : VisibleIn(lg, k, isol)}} : o >= f}, <)

\* ---- what the leader sends --------------------------------------------------------------------
FirstIdx(lg, f) == {i \in 1..Len(lg) : lg[i].last >= f /\ \A k \in 1..(i - 1) : lg[k].last < f}
Fetchable(lg, f, isol) == {i \in 1..Len(lg) : lg[i].last >= f /\ lg[i].last < Bound(lg, isol)}
\* aborted transactions of the log: <<pid, first offset, marker offset>>
TxnFirst(lg, m) ==   \* first offset of the transaction that marker m ends
  LET pid == lg[m].pid
      prev == {j \in 1..(m - 1) : lg[j].kind # "data" /\ lg[j].pid = pid}
      lo == IF prev = {} THEN 0 ELSE CHOOSE j \in prev : \A k \in prev : k <= j
      ds == {d \in (lo + 1)..(m - 1) : lg[d].kind = "data" /\ lg[d].txnl /\ lg[d].pid = pid}
  IN IF ds = {} THEN -1 ELSE lg[CHOOSE d \in ds : \A e \in ds : d <= e].base
AbortedTxns(lg) == {<<lg[m].pid, TxnFirst(lg, m), lg[m].base>> :
                      m \in {m \in 1..Len(lg) : lg[m].kind = "abort" /\ TxnFirst(lg, m) # -1}}
\* the aborted index a broker attaches to a read_committed response [f, i..j]: Kafka reads
\* it from the transaction index, i.e. in the order the abort MARKERS were written -- not in
\* order of first offset (the client has to sort it, see SortByFirst)
AbortedIndex(lg, f, j) ==
  LET S == {a \in AbortedTxns(lg) : a[3] >= f /\ a[2] <= lg[j].last}
      byMarker == SetToSortSeq(S, LAMBDA x, y : x[3] < y[3])
  IN [n \in 1..Len(byMarker) |-> <<byMarker[n][1], byMarker[n][2]>>]
\* PartitionRecords.__init__: sorted(aborted_transactions, key=first_offset)
SortByFirst(idx) == SetToSortSeq(Range(idx), LAMBDA x, y : x[2] < y[2] \/ (x[2] = y[2] /\ x[1] < y[1]))

\* ---- the algorithm as a state machine -------------------------------------------------------------
VARIABLES shape, fo, ri, rj, isol, k, abl, abp, nfo, out, phase,
          ci   \* table mode only: index of the recorded case being judged
vars == <<shape, fo, ri, rj, isol, k, abl, abp, nfo, out, phase, ci>>
lg == LogOf(shape)

Init ==
  /\ shape \in Shapes
  /\ isol \in {0, 1}
  /\ fo \in 0..(Leo(LogOf(shape)) - 1)
  /\ ri \in FirstIdx(LogOf(shape), fo)
  /\ rj \in {j \in ri..Len(LogOf(shape)) : (ri..j) \subseteq Fetchable(LogOf(shape), fo, isol)}
  /\ k = ri
  /\ abl = IF isol = 1 THEN SortByFirst(AbortedIndex(LogOf(shape), fo, rj)) ELSE <<>>
  /\ abp = {}
  /\ nfo = fo
  /\ out = <<>>
  /\ phase = "consume"
  /\ ci = 0

Keep == UNCHANGED <<shape, fo, ri, rj, isol, ci>>
b == lg[k]
RC == isol = 1      \* (v2 batches always carry a producer id field)

\* _consume_aborted_up_to(base): one entry per step
ConsumeAborted ==
  /\ phase = "consume" /\ k <= rj /\ RC
  /\ abl # <<>> /\ Head(abl)[2] <= b.base
  /\ abp' = abp \cup {Head(abl)[1]}
  /\ abl' = Tail(abl)
  /\ Keep /\ UNCHANGED <<k, nfo, out, phase>>

ConsumeDone ==
  /\ phase = "consume" /\ k <= rj
  /\ IF ~RC \/ abl = <<>> THEN TRUE ELSE Head(abl)[2] > b.base
  /\ phase' = "marker"
  /\ Keep /\ UNCHANGED <<k, abl, abp, nfo, out>>

\* abort marker: stop aborting this producer's batches (discard, the set may lack it)
AbortMarkerEnds ==
  /\ phase = "marker"
  /\ abp' = IF RC /\ b.kind = "abort" THEN abp \ {b.pid} ELSE abp
  /\ phase' = "batch"
  /\ Keep /\ UNCHANGED <<k, abl, nfo, out>>

Advance == /\ nfo' = b.last + 1 /\ k' = k + 1 /\ phase' = "consume"

SkipAborted ==
  /\ phase = "batch" /\ RC /\ b.txnl /\ b.pid \in abp
  /\ Advance
  /\ Keep /\ UNCHANGED <<abl, abp, out>>

SkipControl ==
  /\ phase = "batch" /\ ~(RC /\ b.txnl /\ b.pid \in abp) /\ b.kind # "data"
  /\ Advance
  /\ Keep /\ UNCHANGED <<abl, abp, out>>

YieldBatch ==
  /\ phase = "batch" /\ ~(RC /\ b.txnl /\ b.pid \in abp) /\ b.kind = "data"
  /\ out' = out \o SetToSortSeq({o \in b.offs : o >= nfo}, <)
  /\ Advance
  /\ Keep /\ UNCHANGED <<abl, abp>>

Next == ConsumeAborted \/ ConsumeDone \/ AbortMarkerEnds \/ SkipAborted \/ SkipControl \/ YieldBatch
Spec == Init /\ [][Next]_vars

Finished == k > rj
\* C08: exactly the visible records, no marker, position past everything filtered
FilterCorrect == Finished => /\ out = Declared(lg, fo, ri, rj, isol)
                             /\ nfo = lg[rj].last + 1
NeverYieldsInvisible == \A x \in Range(out) : \E q \in ri..rj : x \in lg[q].offs /\ VisibleIn(lg, q, isol)
Progress == k <= rj => nfo <= lg[k].last + 1

\* ---- table mode: the recorded outputs of the real PartitionRecords -------------------------------------
\* case: [shape |-> Seq(template), f, i, j, iso, out |-> Seq(offset), nfo]
Cases == IF "TRACE_FILE" \in DOMAIN IOEnv THEN JsonDeserialize(IOEnv.TRACE_FILE) ELSE <<>>
NC == Len(Cases)
CaseOK(c) ==
  LET l == LogOf(c.shape) IN
  /\ c.i \in FirstIdx(l, c.f) /\ (c.i..c.j) \subseteq Fetchable(l, c.f, c.iso)
  /\ c.aborted = (IF c.iso = 1 THEN AbortedIndex(l, c.f, c.j) ELSE <<>>)
  /\ c.out = Declared(l, c.f, c.i, c.j, c.iso)
  /\ c.nfo = l[c.j].last + 1
Dummy == /\ shape = <<1>> /\ fo = 0 /\ ri = 1 /\ rj = 1 /\ isol = 0 /\ k = 1 /\ abl = <<>> /\ abp = {}
         /\ nfo = 0 /\ out = <<>> /\ phase = "table"
TInit == ci \in {1 + n * 512 : n \in 0..((NC - 1) \div 512)} /\ Dummy
TNext == ci % 512 # 0 /\ ci < NC /\ ci' = ci + 1
         /\ UNCHANGED <<shape, fo, ri, rj, isol, k, abl, abp, nfo, out, phase>>
TSpec == TInit /\ [][TNext]_vars
ASSUME TLCSet(1, {})
Collect == IF CaseOK(Cases[ci]) THEN TRUE ELSE TLCSet(1, TLCGet(1) \cup {ci})
WriteVerdicts == JsonSerialize(IOEnv.VERDICT_FILE, [n |-> NC, bad |-> TLCGet(1)])
\* size of the case space, for the completeness check of the harness enumeration
SpaceSize == Cardinality({<<s, is, f, i, j>> \in Shapes \X {0, 1} \X (0..(2 * MaxLen)) \X (1..MaxLen) \X (1..MaxLen) :
                f < Leo(LogOf(s)) /\ i \in FirstIdx(LogOf(s), f) /\ j >= i /\ j <= Len(s)
                /\ (i..j) \subseteq Fetchable(LogOf(s), f, is)})
=============================================================================
