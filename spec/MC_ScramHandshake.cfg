SPECIFICATION Spec
CONSTANTS
  Users <- QUsers
  CNonces <- QCNonces
  SFirsts <- QSFirsts
  FlipBits <- QFlipBits
  TruncLens <- QTruncLens
INVARIANT ClientMessagesWellFormed
INVARIANT NonceMustExtend
INVARIANT DoneOnlyWithPasswordProof
INVARIANT DoneOnlyWithHonestServer
INVARIANT HonestServerAcceptsProof
INVARIANT HonestServerNotRejected
CONSTRAINT Collect
POSTCONDITION WriteBehaviours
CHECK_DEADLOCK TRUE
