------------------------------ MODULE Assignors ------------------------------
(* C14 / C15: partition assignors (range, round-robin, sticky).             *)
(*                                                                           *)
(* The module is relational.  Part 1 states WHAT an assignment must satisfy  *)
(* (Valid, RangeBalanced, RRBalancedIfIdentical, StickyBalanced for C14;     *)
(* Unchanged, OnlyDepartedRedistributed, NewMembersTakeWithoutShuffling for  *)
(* C15).  It is used in two ways:                                            *)
(*                                                                           *)
(*  (1) SpecRef: a reference assignor state machine over the bounded input   *)
(*      space `Inputs`.  Range and round-robin are written step by step like *)
(*      the implementation's loops (one action per loop iteration); sticky   *)
(*      is an abstract nondeterministic design ("keep what is still legal,   *)
(*      place on a least loaded subscriber, move only across the widest      *)
(*      gap") followed by a second round (same / minus members / plus new    *)
(*      members).  TLC proves that every output of the reference satisfies   *)
(*      the predicates, hence that they are satisfiable for every input and  *)
(*      jointly consistent (C14 balance together with C15 stickiness).       *)
(*                                                                           *)
(*  (2) SpecTable: evaluator of a table recorded from the REAL               *)
(*      aiokafka assignors: one state per recorded case, `CaseOK` decides.   *)
(*      The failing clause is named by re-evaluating the rejected cases with *)
(*      the environment variables CLAUSE_K / CLAUSE selecting one conjunct.  *)
(***************************************************************************)
EXTENDS Integers, Sequences, SequencesExt, FiniteSets, TLC, TLCExt, Json, IOUtils

CONSTANTS MaxMembers,   \* first-round members:   1..MaxMembers
          MaxTopics,    \* topics:                1..MaxTopics
          MaxParts,     \* partitions per topic:  no metadata, 0..MaxParts
          MaxNew        \* reference machine only: members joining in round 2

MemberName == <<"m0", "m1", "m2", "m3", "m4", "m5", "m6", "m7">>
TopicName == <<"t0", "t1", "t2", "t3">>
MIdx(m) == CHOOSE j \in 1..Len(MemberName) : MemberName[j] = m
NoMeta == -1

(***************************************************************************)
(* Part 1.  The properties, over                                             *)
(*   parts : topic  -> set of partition ids   (DOMAIN = topics WITH metadata)*)
(*   subs  : member -> set of topics                                         *)
(*   A     : member -> set of <<topic, partition>>                           *)
(***************************************************************************)
Get(A, m) == IF m \in DOMAIN A THEN A[m] ELSE {}
Load(A, m) == Cardinality(Get(A, m))
TopicLoad(A, m, t) == Cardinality({tp \in Get(A, m) : tp[1] = t})
Subscribers(subs, t) == {m \in DOMAIN subs : t \in subs[m]}
Owners(A, tp) == {m \in DOMAIN A : tp \in A[m]}
Within1(x, y) == x <= y + 1 /\ y <= x + 1

\* partitions that must be owned: topic has metadata and at least one subscriber
Assignable(parts, subs) ==
  UNION {{<<t, p>> : p \in parts[t]} :
         t \in {u \in DOMAIN parts : Subscribers(subs, u) # {}}}

\* --- C14 validity, clause by clause ----------------------------------------
VMembers(subs, A) == DOMAIN A = DOMAIN subs
VKnown(parts, A) ==              \* nothing that does not exist is assigned
  \A m \in DOMAIN A : \A tp \in A[m] : tp[1] \in DOMAIN parts /\ tp[2] \in parts[tp[1]]
VSubscribed(subs, A) ==          \* the owner subscribes to the topic
  \A m \in DOMAIN A : \A tp \in A[m] : m \in DOMAIN subs => tp[1] \in subs[m]
VOwned(parts, subs, A) ==        \* at least one owner
  \A tp \in Assignable(parts, subs) : Owners(A, tp) # {}
VSingle(A) ==                    \* at most one owner
  \A m1 \in DOMAIN A : \A m2 \in DOMAIN A : m1 # m2 => A[m1] \cap A[m2] = {}

Valid(parts, subs, A) ==
  /\ VMembers(subs, A) /\ VKnown(parts, A) /\ VSubscribed(subs, A)
  /\ VOwned(parts, subs, A) /\ VSingle(A)

\* --- C14 balance ------------------------------------------------------------
RangeBalanced(parts, subs, A) ==
  \A t \in DOMAIN parts :
    \A m1 \in Subscribers(subs, t) : \A m2 \in Subscribers(subs, t) :
      Within1(TopicLoad(A, m1, t), TopicLoad(A, m2, t))

IdenticalSubs(subs) == \A m1 \in DOMAIN subs : \A m2 \in DOMAIN subs : subs[m1] = subs[m2]

RRBalancedIfIdentical(subs, A) ==
  IdenticalSubs(subs) =>
    \A m1 \in DOMAIN subs : \A m2 \in DOMAIN subs : Within1(Load(A, m1), Load(A, m2))

\* KIP-54: no member could take a partition it is subscribed to from a member
\* holding at least two more than it.
CouldTake(subs, A, m, m2) ==
  /\ m # m2
  /\ Load(A, m2) >= Load(A, m) + 2
  /\ \E tp \in Get(A, m2) : tp[1] \in subs[m]
StickyBalanced(subs, A) ==
  \A m \in DOMAIN subs : \A m2 \in DOMAIN subs : ~CouldTake(subs, A, m, m2)

\* --- C15 ---------------------------------------------------------------------
\* which clause of C15 speaks about the step (subs0, prev) -> (subs1, new);
\* partitions are the same in both rounds by construction of the cases
StepClass(subs0, subs1) ==
  LET M0 == DOMAIN subs0
      M1 == DOMAIN subs1
      Kept(S) == \A m \in S : subs0[m] = subs1[m]
  IN CASE M1 = M0 /\ Kept(M0) -> "same"
       [] M1 # {} /\ M1 \subseteq M0 /\ M1 # M0 /\ IdenticalSubs(subs0) /\ Kept(M1) -> "minus"
       [] M0 # {} /\ M0 \subseteq M1 /\ M1 # M0 /\ IdenticalSubs(subs1) /\ Kept(M0) -> "plus"
       [] OTHER -> "none"

MovedBetween(prev, new, S) ==
  {tp \in UNION {Get(prev, a) : a \in S} :
     \E a \in S : \E b \in S : a # b /\ tp \in Get(prev, a) /\ tp \in Get(new, b)}

Unchanged(prev, new) == new = prev

DepartedRedistributed(subs0, subs1, prev, new) ==
  \A d \in DOMAIN subs0 \ DOMAIN subs1 : \A tp \in Get(prev, d) :
    \E s \in DOMAIN subs1 : tp \in Get(new, s)
OnlyDepartedRedistributed(subs0, subs1, prev, new) ==
  /\ MovedBetween(prev, new, DOMAIN subs1) = {}
  /\ DepartedRedistributed(subs0, subs1, prev, new)

NewMembersTakeWithoutShuffling(subs0, subs1, prev, new) ==
  MovedBetween(prev, new, DOMAIN subs0) = {}

(***************************************************************************)
(* Part 2.  The bounded input space.  An input is [np, subs]: np[t] is the   *)
(* number of partitions of topic t (ids 0..np[t]-1) or NoMeta.               *)
(***************************************************************************)
Topics(k) == {TopicName[j] : j \in 1..k}
Members(n) == {MemberName[j] : j \in 1..n}
InputsNT(n, k) == [np : [Topics(k) -> NoMeta..MaxParts],
                   subs : [Members(n) -> (SUBSET Topics(k)) \ {{}}]]
Inputs == UNION {InputsNT(n, k) : n \in 1..MaxMembers, k \in 1..MaxTopics}

PartsOf(np) == [t \in {u \in DOMAIN np : np[u] # NoMeta} |-> 0..(np[t] - 1)]

(***************************************************************************)
(* Part 3.  The recorded table (SpecTable).                                  *)
(*  kind "a": [topics, parts, subs, out |-> [assignor |-> raw], enum,        *)
(*             fail |-> [assignor |-> "timeout" | "raised-X"]]               *)
(*  kind "s": [parts, subs0, subs1, prev |-> raw, new |-> raw, step, tag]    *)
(*  raw = member -> sequence of <<topic, sequence of partition ids>>, i.e.   *)
(*  ConsumerProtocolMemberAssignment.assignment as returned by assign().     *)
(***************************************************************************)
Env(k, dflt) == IF k \in DOMAIN IOEnv THEN IOEnv[k] ELSE dflt
Cases == IF "TRACE_FILE" \in DOMAIN IOEnv THEN JsonDeserialize(IOEnv.TRACE_FILE) ELSE <<>>
NC == Len(Cases)
ClauseK == Env("CLAUSE_K", "all")
Clause == Env("CLAUSE", "all")
Want(k, cl) == ClauseK \in {"all", k} /\ Clause \in {"all", cl}

RECURSIVE SumLens(_, _)
SumLens(s, j) == IF j = 0 THEN 0 ELSE Len(s[j][2]) + SumLens(s, j - 1)
Norm(raw) ==
  [m \in DOMAIN raw |->
     UNION {{<<raw[m][j][1], raw[m][j][2][k]>> : k \in 1..Len(raw[m][j][2])} :
            j \in 1..Len(raw[m])}]
NoDup(raw) == \A m \in DOMAIN raw : SumLens(raw[m], Len(raw[m])) = Cardinality(Norm(raw)[m])

SetFn(f) == [x \in DOMAIN f |-> ToSet(f[x])]

BalancedFor(k, parts, subs, A) ==
  CASE k = "range" -> RangeBalanced(parts, subs, A)
    [] k = "roundrobin" -> RRBalancedIfIdentical(subs, A)
    [] OTHER -> StickyBalanced(subs, A)            \* "sticky", "stickyud"

InBounds(c) ==
  /\ \A t \in DOMAIN c.parts : c.parts[t] = [j \in 1..Len(c.parts[t]) |-> j - 1]
  /\ [np |-> [t \in ToSet(c.topics) |->
                IF t \in DOMAIN c.parts THEN Len(c.parts[t]) ELSE NoMeta],
      subs |-> SetFn(c.subs)] \in Inputs

AssignOK(c) ==
  LET parts == SetFn(c.parts)
      subs == SetFn(c.subs)
  IN /\ Want("input", "inbounds") => (c.enum = 1 => InBounds(c))
     /\ \A k \in DOMAIN c.fail : ~Want(k, "no-result")   \* assign() returned (no exception, no hang)
     /\ \A k \in DOMAIN c.out :
          LET raw == c.out[k]
              A == Norm(raw)
          IN /\ Want(k, "members") => VMembers(subs, A)
             /\ Want(k, "duplicate-entry") => NoDup(raw)
             /\ Want(k, "unknown-partition") => VKnown(parts, A)
             /\ Want(k, "owner-not-subscribed") => VSubscribed(subs, A)
             /\ Want(k, "unowned-partition") => VOwned(parts, subs, A)
             /\ Want(k, "multiple-owners") => VSingle(A)
             /\ Want(k, "not-balanced") => BalancedFor(k, parts, subs, A)

StepOK(c) ==
  LET subs0 == SetFn(c.subs0)
      subs1 == SetFn(c.subs1)
      prev == Norm(c.prev)
      new == Norm(c.new)
      cls == StepClass(subs0, subs1)
  IN /\ Want("step", "class") => cls = c.step      \* the harness's label is checked, not trusted
     /\ Want("same", "changed") => (cls = "same" => Unchanged(prev, new))
     /\ Want("departed", "moved-between-survivors") =>
          (cls = "minus" => MovedBetween(prev, new, DOMAIN subs1) = {})
     /\ Want("departed", "not-redistributed") =>
          (cls = "minus" => DepartedRedistributed(subs0, subs1, prev, new))
     /\ Want("join", "moved-between-old") =>
          (cls = "plus" => NewMembersTakeWithoutShuffling(subs0, subs1, prev, new))

CaseOK(c) == IF c.kind = "a" THEN AssignOK(c) ELSE StepOK(c)

(***************************************************************************)
(* Part 4.  The reference assignor (SpecRef).                                *)
(***************************************************************************)
VARIABLES i,       \* table cursor (SpecTable); 0 in SpecRef
          ph,      \* "table" | "run" | "done"
          kind,    \* "range" | "roundrobin" | "sticky"
          np,      \* topic -> number of partitions | NoMeta (never changes)
          subs,    \* member -> set of topics, current round
          own,     \* <<topic, partition>> -> member, the assignment being built
          cur,     \* loop state: range = topics done; round-robin = <<partitions done, cycle position>>
          rnd,     \* 1 | 2
          step,    \* "first" | "same" | "minus" | "plus"
          psubs,   \* subs of round 1 (round 2 only)
          prev     \* result of round 1 as member -> set of tp (round 2 only)
vars == <<i, ph, kind, np, subs, own, cur, rnd, step, psubs, prev>>

AOf(o, ms) == [m \in ms |-> {tp \in DOMAIN o : o[tp] = m}]
Parts == PartsOf(np)
Todo == Assignable(Parts, subs) \ DOMAIN own
OwnLoad(m) == Cardinality({tp \in DOMAIN own : own[tp] = m})
SortedMembers(S) ==          \* S in the order of the member ids
  LET idx == {MIdx(m) : m \in S}
      RECURSIVE Build(_)
      Build(r) == IF r = {} THEN <<>>
                  ELSE LET lo == CHOOSE x \in r : \A y \in r : x <= y
                       IN <<MemberName[lo]>> \o Build(r \ {lo})
  IN Build(idx)
Put(o, tps, m) == [tp \in DOMAIN o \cup tps |-> IF tp \in tps THEN m ELSE o[tp]]

InitRef ==
  /\ i = 0 /\ ph = "run" /\ rnd = 1 /\ step = "first"
  /\ kind \in {"range", "roundrobin", "sticky"}
  /\ \E inp \in Inputs : np = inp.np /\ subs = inp.subs
  /\ own = <<>> /\ psubs = <<>> /\ prev = <<>>
  /\ cur = IF kind = "roundrobin" THEN <<0, 0>> ELSE <<0>>

\* range.py:assign, one iteration of `for topic, consumers_for_topic in ...`
RangeTopic ==
  /\ ph = "run" /\ kind = "range" /\ cur[1] < Cardinality(DOMAIN np)
  /\ LET t == TopicName[cur[1] + 1]
         cons == SortedMembers(Subscribers(subs, t))
     IN IF np[t] = NoMeta \/ cons = <<>>
        THEN own' = own                                   \* `continue`
        ELSE LET n == Len(cons)
                 q == np[t] \div n
                 r == np[t] % n
                 Start(j) == q * j + (IF j < r THEN j ELSE r)        \* j is 0-based
                 Length(j) == q + (IF j + 1 > r THEN 0 ELSE 1)
                 Slice(j) == {<<t, p>> : p \in Start(j)..(Start(j) + Length(j) - 1)}
                 OwnerOf(p) == CHOOSE j \in 0..(n - 1) : <<t, p>> \in Slice(j)
             IN own' = [tp \in DOMAIN own \cup {<<t, p>> : p \in 0..(np[t] - 1)} |->
                          IF tp \in DOMAIN own THEN own[tp] ELSE cons[OwnerOf(tp[2]) + 1]]
  /\ cur' = <<cur[1] + 1>>
  /\ UNCHANGED <<i, ph, kind, np, subs, rnd, step, psubs, prev>>

\* roundrobin.py:assign, one iteration of `for partition in all_topic_partitions`
SortedTPs ==
  LET RECURSIVE Build(_)
      Build(j) == IF j > Cardinality(DOMAIN np) THEN <<>>
                  ELSE LET t == TopicName[j]
                       IN (IF np[t] = NoMeta \/ Subscribers(subs, t) = {} THEN <<>>
                           ELSE [p \in 1..np[t] |-> <<t, p - 1>>]) \o Build(j + 1)
  IN Build(1)
RRNext ==
  /\ ph = "run" /\ kind = "roundrobin" /\ cur[1] < Len(SortedTPs)
  /\ LET tp == SortedTPs[cur[1] + 1]
         cyc == SortedMembers(DOMAIN subs)
         n == Len(cyc)
         At(d) == cyc[((cur[2] + d) % n) + 1]
         skip == CHOOSE d \in 0..(n - 1) :          \* `while topic not in subscription: next()`
                   /\ tp[1] \in subs[At(d)]
                   /\ \A e \in 0..(d - 1) : tp[1] \notin subs[At(e)]
     IN /\ own' = Put(own, {tp}, At(skip))
        /\ cur' = <<cur[1] + 1, (cur[2] + skip + 1) % n>>
  /\ UNCHANGED <<i, ph, kind, np, subs, rnd, step, psubs, prev>>

\* sticky: place an unowned partition on a least loaded subscriber
StickyPlace ==
  /\ ph = "run" /\ kind = "sticky" /\ Todo # {}
  /\ \E tp \in Todo : \E m \in Subscribers(subs, tp[1]) :
       /\ \A m2 \in Subscribers(subs, tp[1]) : OwnLoad(m) <= OwnLoad(m2)
       /\ own' = Put(own, {tp}, m)
  /\ UNCHANGED <<i, ph, kind, np, subs, cur, rnd, step, psubs, prev>>

\* sticky: a partition may move only to a subscriber holding at least two less,
\* and only across the widest such gap
Gap(tp, m) == OwnLoad(own[tp]) - OwnLoad(m)
Takeable == {x \in (DOMAIN own) \X (DOMAIN subs) :
               x[1][1] \in subs[x[2]] /\ x[2] # own[x[1]] /\ Gap(x[1], x[2]) >= 2}
StickyMove ==
  /\ ph = "run" /\ kind = "sticky" /\ Todo = {}
  /\ \E x \in Takeable :
       /\ \A y \in Takeable : Gap(y[1], y[2]) <= Gap(x[1], x[2])
       /\ own' = [own EXCEPT ![x[1]] = x[2]]
  /\ UNCHANGED <<i, ph, kind, np, subs, cur, rnd, step, psubs, prev>>

Finish ==
  /\ ph = "run"
  /\ CASE kind = "range" -> cur[1] = Cardinality(DOMAIN np)
       [] kind = "roundrobin" -> cur[1] = Len(SortedTPs)
       [] kind = "sticky" -> Todo = {} /\ Takeable = {}
  /\ ph' = "done"
  /\ UNCHANGED <<i, kind, np, subs, own, cur, rnd, step, psubs, prev>>

\* second round of the sticky assignor: what is still legal is kept
\* (cf. _populate_partitions_to_reassign: owner gone / no longer subscribed)
KeepOwn(newsubs) ==
  [tp \in {x \in DOMAIN own : own[x] \in DOMAIN newsubs /\ x[1] \in newsubs[own[x]]} |-> own[tp]]
CanRejoin == ph = "done" /\ kind = "sticky" /\ rnd = 1
RejoinSame ==
  /\ CanRejoin
  /\ ph' = "run" /\ rnd' = 2 /\ step' = "same"
  /\ psubs' = subs /\ prev' = AOf(own, DOMAIN subs)
  /\ subs' = subs /\ own' = KeepOwn(subs)
  /\ UNCHANGED <<i, kind, np, cur>>
RejoinMinus ==
  /\ CanRejoin
  /\ \E D \in (SUBSET DOMAIN subs) \ {{}, DOMAIN subs} :
       LET ns == [m \in DOMAIN subs \ D |-> subs[m]]
       IN subs' = ns /\ own' = KeepOwn(ns)
  /\ ph' = "run" /\ rnd' = 2 /\ step' = "minus"
  /\ psubs' = subs /\ prev' = AOf(own, DOMAIN subs)
  /\ UNCHANGED <<i, kind, np, cur>>
RejoinPlus ==
  /\ CanRejoin
  /\ \E k \in 1..MaxNew :
       LET n == Cardinality(DOMAIN subs)
           newm == {MemberName[j] : j \in (n + 1)..(n + k)}
       IN \E fresh \in [newm -> (SUBSET DOMAIN np) \ {{}}] :
            LET ns == [m \in DOMAIN subs \cup newm |-> IF m \in newm THEN fresh[m] ELSE subs[m]]
            IN subs' = ns /\ own' = KeepOwn(ns)
  /\ ph' = "run" /\ rnd' = 2 /\ step' = "plus"
  /\ psubs' = subs /\ prev' = AOf(own, DOMAIN subs)
  /\ UNCHANGED <<i, kind, np, cur>>

NextRef == RangeTopic \/ RRNext \/ StickyPlace \/ StickyMove \/ Finish
           \/ RejoinSame \/ RejoinMinus \/ RejoinPlus
SpecRef == InitRef /\ [][NextRef]_vars /\ WF_vars(NextRef)

\* --- properties of the reference (one per clause of C14 / C15) ---------------
Out == AOf(own, DOMAIN subs)
Done == ph = "done"
InvValid == Done => Valid(Parts, subs, Out)
InvRangeBalanced == Done /\ kind = "range" => RangeBalanced(Parts, subs, Out)
InvRRBalanced == Done /\ kind = "roundrobin" => RRBalancedIfIdentical(subs, Out)
InvStickyBalanced == Done /\ kind = "sticky" => StickyBalanced(subs, Out)
\* in round 2 StepClass says which clause of C15 applies to what the machine did
InvUnchanged ==
  Done /\ rnd = 2 /\ StepClass(psubs, subs) = "same" => Unchanged(prev, Out)
InvDeparted ==
  Done /\ rnd = 2 /\ StepClass(psubs, subs) = "minus" =>
    OnlyDepartedRedistributed(psubs, subs, prev, Out)
InvNewMembers ==
  Done /\ rnd = 2 /\ StepClass(psubs, subs) = "plus" =>
    NewMembersTakeWithoutShuffling(psubs, subs, prev, Out)
\* a run never gets stuck before it is done, and it does get done
NotStuck == ph = "run" => ENABLED NextRef
Terminates == <>Done

\* spec -> code: the balanced valid first-round results of the reference are
\* written out and fed to the real sticky assignor as previous assignments
ASSUME TLCSet(2, {})
CollectRef ==
  IF Done /\ kind = "sticky" /\ rnd = 1 /\ "REF_FILE" \in DOMAIN IOEnv
  THEN TLCSet(2, TLCGet(2) \cup {[np |-> np, subs |-> subs, out |-> Out]})
  ELSE TRUE
WriteRef ==
  IF "REF_FILE" \in DOMAIN IOEnv
  THEN JsonSerialize(IOEnv.REF_FILE,
         [n |-> Cardinality(Inputs),
          runs |-> SetToSeq({[np |-> r.np,
                              subs |-> [m \in DOMAIN r.subs |-> SetToSeq(r.subs[m])],
                              out |-> [m \in DOMAIN r.out |-> SetToSeq(r.out[m])]] : r \in TLCGet(2)})])
  ELSE TRUE

\* size of the bounded input space, compared by the harness with the number
\* of distinct inputs it recorded (completeness of its enumeration)
WriteCard ==
  IF "CARD_FILE" \in DOMAIN IOEnv
  THEN JsonSerialize(IOEnv.CARD_FILE, [inputs |-> Cardinality(Inputs)])
  ELSE TRUE

(***************************************************************************)
(* SpecTable: one state per recorded case.                                   *)
(***************************************************************************)
Stride == 512
InitTable ==
  /\ i \in {1 + k * Stride : k \in 0..((NC - 1) \div Stride)}
  /\ ph = "table" /\ kind = "" /\ np = <<>> /\ subs = <<>> /\ own = <<>> /\ cur = <<>>
  /\ rnd = 0 /\ step = "" /\ psubs = <<>> /\ prev = <<>>
NextTable ==
  /\ i % Stride # 0 /\ i < NC
  /\ i' = i + 1
  /\ UNCHANGED <<ph, kind, np, subs, own, cur, rnd, step, psubs, prev>>
SpecTable == InitTable /\ [][NextTable]_vars

\* failing case numbers are collected (verdicts are total), not just the first
ASSUME TLCSet(1, {})
Collect == IF CaseOK(Cases[i]) THEN TRUE ELSE TLCSet(1, TLCGet(1) \cup {i})
WriteVerdicts == /\ JsonSerialize(IOEnv.VERDICT_FILE, [n |-> NC, bad |-> TLCGet(1)])
                 /\ WriteCard
(***************************************************************************)
(* Sanity of the predicates themselves: each one accepts a good example and  *)
(* rejects a bad one (so no clause above is vacuously true).                 *)
(***************************************************************************)
xP == [t0 |-> {0, 1, 2}, t1 |-> {0}]
xS == [m0 |-> {"t0", "t1"}, m1 |-> {"t0"}]
xA == [m0 |-> {<<"t0", 0>>, <<"t1", 0>>}, m1 |-> {<<"t0", 1>>, <<"t0", 2>>}]
ASSUME Valid(xP, xS, xA) /\ RangeBalanced(xP, xS, xA) /\ StickyBalanced(xS, xA)
ASSUME ~VOwned(xP, xS, [xA EXCEPT !.m1 = {<<"t0", 1>>}])
ASSUME ~VSingle([xA EXCEPT !.m0 = @ \cup {<<"t0", 1>>}])
ASSUME ~VSubscribed(xS, [m0 |-> {<<"t0", 0>>}, m1 |-> {<<"t0", 1>>, <<"t0", 2>>, <<"t1", 0>>}])
ASSUME ~VKnown(xP, [xA EXCEPT !.m0 = @ \cup {<<"t0", 3>>}])
ASSUME ~VKnown([t0 |-> {0, 1, 2}], xA)                    \* t1 lost its metadata
ASSUME ~VMembers(xS, [m0 |-> xA.m0, m1 |-> {<<"t0", 1>>}, m2 |-> {<<"t0", 2>>}])
ASSUME ~VMembers(xS, [m0 |-> xA.m0 \cup xA.m1])
\* a topic nobody subscribes to needs no owner, one without metadata neither
ASSUME Valid(xP, [m0 |-> {"t0"}, m1 |-> {"t0"}], [m0 |-> {<<"t0", 0>>}, m1 |-> {<<"t0", 1>>, <<"t0", 2>>}])
ASSUME Valid([t0 |-> {0}], [m0 |-> {"t0", "t1"}], [m0 |-> {<<"t0", 0>>}])
ASSUME ~RangeBalanced(xP, xS, [m0 |-> {<<"t0", 0>>, <<"t0", 1>>, <<"t0", 2>>, <<"t1", 0>>}, m1 |-> {}])
ASSUME ~StickyBalanced(xS, [m0 |-> {<<"t0", 0>>, <<"t0", 1>>, <<"t0", 2>>, <<"t1", 0>>}, m1 |-> {}])
\* a gap of two is balanced when the poorer member is not subscribed to anything the richer holds
ASSUME StickyBalanced([m0 |-> {"t1"}, m1 |-> {"t0"}], [m0 |-> {<<"t1", 0>>, <<"t1", 1>>}, m1 |-> {}])
yS == [m0 |-> {"t0"}, m1 |-> {"t0"}]
ASSUME ~RRBalancedIfIdentical(yS, [m0 |-> {<<"t0", 0>>, <<"t0", 1>>, <<"t0", 2>>}, m1 |-> {}])
ASSUME RRBalancedIfIdentical(xS, [m0 |-> {<<"t0", 0>>, <<"t0", 1>>, <<"t0", 2>>}, m1 |-> {}])
yA == [m0 |-> {<<"t0", 0>>, <<"t0", 1>>}, m1 |-> {<<"t0", 2>>}]
zS == [m0 |-> {"t0"}, m1 |-> {"t0"}, m2 |-> {"t0"}]
zA == [m0 |-> {<<"t0", 0>>}, m1 |-> {<<"t0", 1>>}, m2 |-> {<<"t0", 2>>}]
ASSUME StepClass(yS, yS) = "same" /\ StepClass(zS, yS) = "minus" /\ StepClass(yS, zS) = "plus"
ASSUME Unchanged(yA, yA) /\ ~Unchanged(yA, [m0 |-> {<<"t0", 0>>, <<"t0", 2>>}, m1 |-> {<<"t0", 1>>}])
ASSUME OnlyDepartedRedistributed(zS, yS, zA, [m0 |-> {<<"t0", 0>>, <<"t0", 2>>}, m1 |-> {<<"t0", 1>>}])
ASSUME ~OnlyDepartedRedistributed(zS, yS, zA, [m0 |-> {<<"t0", 1>>, <<"t0", 2>>}, m1 |-> {<<"t0", 0>>}])
ASSUME ~OnlyDepartedRedistributed(zS, yS, zA, [m0 |-> {<<"t0", 0>>}, m1 |-> {<<"t0", 1>>}])
ASSUME NewMembersTakeWithoutShuffling(yS, zS, yA, [m0 |-> {<<"t0", 0>>}, m1 |-> {<<"t0", 2>>}, m2 |-> {<<"t0", 1>>}])
ASSUME ~NewMembersTakeWithoutShuffling(yS, zS, yA, [m0 |-> {<<"t0", 2>>}, m1 |-> {<<"t0", 0>>}, m2 |-> {<<"t0", 1>>}])
\* differing subscriptions: stickiness across a departure / a join is not claimed
ASSUME StepClass([m0 |-> {"t0"}, m1 |-> {"t0", "t1"}, m2 |-> {"t0"}], [m0 |-> {"t0"}, m1 |-> {"t0", "t1"}]) = "none"
ASSUME StepClass(yS, [m0 |-> {"t0"}, m1 |-> {"t0"}, m2 |-> {"t0", "t1"}]) = "none"
=============================================================================
