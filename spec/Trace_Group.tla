----------------------------- MODULE Trace_Group -----------------------------
(***************************************************************************)
(* Trace specification for consumer-group runs of the REAL AIOKafkaConsumer  *)
(* (harness/drv_group.py): several members, a simulated group coordinator,   *)
(* joins / leaves / kills / subscription changes / coordinator faults.       *)
(*                                                                           *)
(* The design model GroupMembership.tla proves C04/C05/C06 for every         *)
(* interleaving of the abstract protocol; this module binds the same         *)
(* properties to observed executions: every event is a guarded action, the   *)
(* guard of an action IS the clause of the property it carries, so a run in  *)
(* which the code breaks a clause is rejected at that event.                 *)
(*                                                                           *)
(*  JoinRequest   C06 JoinAdvertisesAll (protocols = configured assignors,   *)
(*                in order); C06 JoinThenSync (not while a successful        *)
(*                JoinGroup reply awaits its SyncGroup); C05 (revoke         *)
(*                callback of the previous assignment finished first)        *)
(*  JoinReply / SyncRequest / SyncReply   generation + identity bookkeeping; *)
(*                SyncRequest must carry the generation and member id the    *)
(*                JoinGroup reply assigned                                   *)
(*  Adopt         C05 AdoptedIsDistributed / OnlySubscribedTopics /          *)
(*                DisjointWithinGeneration                                   *)
(*  AssignEnd     C05 assignment() equals what was sent                      *)
(*  Take          C05 SilentAfterRevoke / NoStaleDelivery; C04 no delivery   *)
(*                below the start position, none skipped                     *)
(*  ResetTo       C04/C13 new owner starts at the committed offset it was    *)
(*                given (else earliest)                                      *)
(*  OffsetCommitReply(ok)  C04 CommitBehindDelivery                          *)
(*  End           C06 convergence; C04 at-least-once                         *)
(***************************************************************************)
EXTENDS Naturals, Integers, Sequences, FiniteSets, TLC, SequencesExt, Functions, TraceKit

CONSTANTS Clients, TPs

VARIABLES
  tid, l,
  mid,        \* client -> member id ("" none)
  cgen,       \* client -> generation of its last successful JoinGroup reply
  expectSync, \* client -> TRUE between a successful JoinGroup reply and its SyncGroup
  distd,      \* <<gen, member>> -> set of partitions sent by SyncGroup replies
  adopted,    \* client -> [gen, tps] | [gen |-> 0, tps |-> {}]
  gateUp,     \* client -> reassignment in progress
  inRevoke,   \* clients inside on_partitions_revoked
  needRevoke, \* client -> an adopted assignment has not been revoked yet
  subs,       \* client -> subscribed topics
  alive,      \* client -> running
  start,      \* client -> tp -> position the current assignment started at (-1 unknown)
  pos,        \* client -> tp -> next offset expected to be delivered
  dl,         \* client -> tp -> offsets delivered under the current assignment
  ever,       \* tp -> offsets delivered by anyone
  fetched,    \* client -> tp -> committed offset the coordinator last reported to the client (-2 none)
  committed,  \* tp -> committed offset at the coordinator (-1 none)
  subChg,     \* client -> its subscription changed since its last JoinGroup request was sent
  lagUntil    \* client -> time (ms) until which a lost reply / dropped connection may still surface as a
              \*           request timeout that makes the member restart its join

tvars == <<tid, l, mid, cgen, expectSync, distd, adopted, gateUp, inRevoke, needRevoke, subs, alive, start, pos, dl,
           ever, fetched, committed, subChg, lagUntil>>

Tr == Traces[tid]
Ev == Tr[l]
Cfg == Tr[1]
IsEvent(e) == l <= Len(Tr) /\ Ev.e = e /\ l' = l + 1 /\ UNCHANGED tid
NoAdopt == [gen |-> 0, tps |-> {}]
TopicOf(tp) == Cfg.topic_of[tp]          \* every partition that exists or may come to exist during the run
IsClient(c) == c \in Clients /\ c \in Range(Cfg.clients)
\* offsets of a partition that a read_committed consumer must never be handed: transaction markers and the records of
\* aborted transactions (class "txnlog"; empty for plain logs, where every offset is visible)
Hidden(tp) == IF "hidden" \in DOMAIN Cfg /\ tp \in DOMAIN Cfg.hidden THEN Range(Cfg.hidden[tp]) ELSE {}
Upd(f, k, v) == [x \in DOMAIN f \cup {k} |-> IF x = k THEN v ELSE f[x]]

TraceInit ==
  /\ tid \in 1..NT /\ l = 2
  /\ mid = [c \in Clients |-> ""]
  /\ cgen = [c \in Clients |-> 0]
  /\ expectSync = [c \in Clients |-> FALSE]
  /\ distd = <<>>
  /\ adopted = [c \in Clients |-> NoAdopt]
  /\ gateUp = [c \in Clients |-> TRUE]
  /\ inRevoke = {}
  /\ needRevoke = [c \in Clients |-> FALSE]
  /\ subs = [c \in Clients |-> IF c \in DOMAIN Traces[tid][1].subs THEN Range(Traces[tid][1].subs[c]) ELSE {}]
  /\ alive = [c \in Clients |-> FALSE]
  /\ start = [c \in Clients |-> [tp \in TPs |-> -1]]
  /\ pos = [c \in Clients |-> [tp \in TPs |-> -1]]
  /\ dl = [c \in Clients |-> [tp \in TPs |-> {}]]
  /\ ever = [tp \in TPs |-> {}]
  /\ fetched = [c \in Clients |-> [tp \in TPs |-> -2]]
  /\ committed = [tp \in TPs |-> -1]
  /\ subChg = [c \in Clients |-> FALSE]
  /\ lagUntil = [c \in Clients |-> -1]

Keep(vs) == UNCHANGED vs

\* ---- membership protocol on the wire ----------------------------------------------------------
TJoinRequest ==
  /\ IsEvent("JoinRequest")
  /\ LET c == Ev.c IN
     /\ IsClient(c)
     /\ Ev.protocols = Cfg.assignors[c]                 \* C06 JoinAdvertisesAll
     /\ ~expectSync[c]                                  \* C06 JoinThenSync
     /\ c \notin inRevoke /\ ~needRevoke[c]            \* C05 revoke finished before rejoining
     /\ Ev.member = mid[c] \/ Ev.member = "" \/ mid[c] = ""
  /\ Keep(<<lagUntil, subChg, mid, cgen, expectSync, distd, adopted, gateUp, inRevoke, needRevoke, subs, alive, start, pos, dl, ever,
            fetched, committed>>)

TJoinReply ==
  /\ IsEvent("JoinReply")
  /\ LET c == Ev.c IN
     IF IsClient(c) /\ Ev.code = 0
     THEN /\ mid' = [mid EXCEPT ![c] = Ev.member]
          /\ cgen' = [cgen EXCEPT ![c] = Ev.gen]
          \* (a subscription change while the JoinGroup was pending makes the member drop the reply)
          /\ expectSync' = [expectSync EXCEPT ![c] = ~subChg[c] /\ Ev.t > lagUntil[c]]
          /\ subChg' = [subChg EXCEPT ![c] = FALSE]
     ELSE IF IsClient(c) /\ Ev.code = 79             \* MEMBER_ID_REQUIRED: retry with the given id
     THEN /\ mid' = [mid EXCEPT ![c] = Ev.member]
          /\ UNCHANGED <<cgen, expectSync, subChg>>
     ELSE UNCHANGED <<mid, cgen, expectSync, subChg>>
  /\ Keep(<<lagUntil, distd, adopted, gateUp, inRevoke, needRevoke, subs, alive, start, pos, dl, ever, fetched, committed>>)

TSyncRequest ==
  /\ IsEvent("SyncRequest")
  /\ LET c == Ev.c IN
     /\ IsClient(c)
     /\ expectSync[c] => (Ev.gen = cgen[c] /\ Ev.member = mid[c])   \* carries the identity the reply assigned
     /\ expectSync' = [expectSync EXCEPT ![c] = FALSE]
  /\ Keep(<<lagUntil, subChg, mid, cgen, distd, adopted, gateUp, inRevoke, needRevoke, subs, alive, start, pos, dl, ever, fetched, committed>>)

TSyncReply ==
  /\ IsEvent("SyncReply")
  /\ IF Ev.code = 0
     THEN distd' = Upd(distd, <<Ev.gen, Ev.member>>, Range(Ev.tps))
     ELSE UNCHANGED distd
  /\ Keep(<<lagUntil, subChg, mid, cgen, expectSync, adopted, gateUp, inRevoke, needRevoke, subs, alive, start, pos, dl, ever, fetched,
            committed>>)

\* anything that may legitimately interrupt join-then-sync for the client(s) concerned
Interrupt(cs) == expectSync' = [c \in Clients |-> IF c \in cs THEN FALSE ELSE expectSync[c]]

TFault ==
  /\ IsEvent("Fault")
  /\ Interrupt(IF Ev.c \in Clients THEN {Ev.c} ELSE {})
  /\ lagUntil' = [c \in Clients |-> IF c = Ev.c /\ Ev.kind # "error" /\ Ev.t + Cfg.request_ms + 1000 > lagUntil[c]
                                     THEN Ev.t + Cfg.request_ms + 1000 ELSE lagUntil[c]]
  /\ Keep(<<subChg, mid, cgen, distd, adopted, gateUp, inRevoke, needRevoke, subs, alive, start, pos, dl, ever, fetched, committed>>)

TGroupEnv ==
  /\ (IsEvent("GroupState") \/ IsEvent("SessionExpired") \/ IsEvent("RebalanceTimeoutKick") \/ IsEvent("LeaveGroup")
      \/ IsEvent("HeartbeatReply") \/ IsEvent("ClientError") \/ IsEvent("Unassign"))
  /\ Keep(<<lagUntil, subChg, mid, cgen, expectSync, distd, adopted, gateUp, inRevoke, needRevoke, subs, alive, start, pos, dl, ever,
            fetched, committed>>)

TFailover ==
  /\ IsEvent("GroupFailover")
  /\ Interrupt(Clients)
  /\ Keep(<<lagUntil, subChg, mid, cgen, distd, adopted, gateUp, inRevoke, needRevoke, subs, alive, start, pos, dl, ever, fetched, committed>>)

\* ---- member internals ---------------------------------------------------------------------------------
TBeginReassign ==
  /\ IsEvent("BeginReassign")
  /\ gateUp' = [gateUp EXCEPT ![Ev.c] = TRUE]
  /\ Keep(<<lagUntil, subChg, mid, cgen, expectSync, distd, adopted, inRevoke, needRevoke, subs, alive, start, pos, dl, ever, fetched,
            committed>>)

TRevokeStart ==
  /\ IsEvent("RevokeStart")
  /\ gateUp[Ev.c]                                       \* the gate goes up before the callback
  /\ inRevoke' = inRevoke \cup {Ev.c}
  /\ Keep(<<lagUntil, subChg, mid, cgen, expectSync, distd, adopted, gateUp, needRevoke, subs, alive, start, pos, dl, ever, fetched,
            committed>>)

TRevokeEnd ==
  /\ IsEvent("RevokeEnd")
  /\ inRevoke' = inRevoke \ {Ev.c}
  /\ needRevoke' = [needRevoke EXCEPT ![Ev.c] = FALSE]
  /\ Keep(<<lagUntil, subChg, mid, cgen, expectSync, distd, adopted, gateUp, subs, alive, start, pos, dl, ever, fetched, committed>>)

\* Subscription._assign: the member adopts an assignment
TAdopt ==
  /\ IsEvent("Adopt") /\ Ev.ok
  /\ LET c == Ev.c
         tps == Range(Ev.tps)
         k == <<cgen[c], mid[c]>>
     IN /\ k \in DOMAIN distd /\ tps = distd[k]                           \* exactly what was distributed
        /\ \A tp \in tps : TopicOf(tp) \in subs[c]                        \* only subscribed topics
        /\ \A o \in Clients \ {c} :                                       \* one owner per generation
             (alive[o] /\ adopted[o].gen = cgen[c]) => adopted[o].tps \cap tps = {}
        /\ adopted' = [adopted EXCEPT ![c] = [gen |-> cgen[c], tps |-> tps]]
        /\ gateUp' = [gateUp EXCEPT ![c] = FALSE]
        /\ needRevoke' = [needRevoke EXCEPT ![c] = TRUE]
        \* positions are per Assignment object; start/dl of the previous ownership are kept until the
        \* partition gets a new first position (a member may still commit its previous assignment's
        \* positions, e.g. the last commit before a rejoin that follows a dropped join)
        /\ pos' = [pos EXCEPT ![c] = [tp \in TPs |-> -1]]
        /\ fetched' = [fetched EXCEPT ![c] = [tp \in TPs |-> -2]]
  /\ Keep(<<lagUntil, subChg, mid, cgen, expectSync, distd, inRevoke, subs, alive, start, dl, ever, committed>>)

TAssignStart ==
  /\ IsEvent("AssignStart")
  /\ Range(Ev.tps) = adopted[Ev.c].tps
  \* C05: no member that has joined this generation is still inside the on_partitions_revoked of its PREVIOUS
  \* assignment (a member already revoking the assignment of THIS generation -- it is moving on to the next one,
  \* e.g. after a subscription change -- does not count: that callback belongs to the next generation)
  /\ \A o \in Clients : (alive[o] /\ mid[o] # "" /\ cgen[o] = adopted[Ev.c].gen /\ adopted[o].gen < adopted[Ev.c].gen)
                          => o \notin inRevoke
  /\ Keep(<<lagUntil, subChg, mid, cgen, expectSync, distd, adopted, gateUp, inRevoke, needRevoke, subs, alive, start, pos, dl, ever,
            fetched, committed>>)

TAssignEnd ==
  /\ IsEvent("AssignEnd")
  /\ Range(Ev.api) = adopted[Ev.c].tps \/ gateUp[Ev.c]   \* assignment() = what it was sent
  /\ Keep(<<lagUntil, subChg, mid, cgen, expectSync, distd, adopted, gateUp, inRevoke, needRevoke, subs, alive, start, pos, dl, ever,
            fetched, committed>>)

\* ---- data plane ------------------------------------------------------------------------------------------
TOffsetFetchReply ==
  /\ IsEvent("OffsetFetchReply")
  /\ IF Ev.code = 0 /\ Ev.c \in Clients
     THEN fetched' = [fetched EXCEPT ![Ev.c] = [tp \in TPs |-> IF tp \in DOMAIN Ev.offsets THEN Ev.offsets[tp] ELSE @[tp]]]
     ELSE UNCHANGED fetched
  /\ Keep(<<lagUntil, subChg, mid, cgen, expectSync, distd, adopted, gateUp, inRevoke, needRevoke, subs, alive, start, pos, dl, ever,
            committed>>)

\* first position of a newly owned partition: the committed offset the coordinator reported, else earliest
TResetTo ==
  /\ IsEvent("ResetTo") /\ ~Ev.dropped
  /\ LET c == Ev.c
         tp == Ev.tp
     IN /\ tp \in adopted[c].tps
        \* C04/C13: the first position comes from an answer of the coordinator that COVERED this partition
        \* (asked since the assignment was adopted); "no committed offset" is never assumed without asking
        /\ fetched[c][tp] # -2
        /\ IF fetched[c][tp] >= 0 THEN Ev.off = fetched[c][tp] ELSE Ev.off = 0
        /\ start' = [start EXCEPT ![c][tp] = IF pos[c][tp] = -1 THEN Ev.off ELSE @]
        /\ dl' = [dl EXCEPT ![c][tp] = IF pos[c][tp] = -1 THEN {} ELSE @]
        /\ pos' = [pos EXCEPT ![c][tp] = Ev.off]
  /\ Keep(<<lagUntil, subChg, mid, cgen, expectSync, distd, adopted, gateUp, inRevoke, needRevoke, subs, alive, ever, fetched, committed>>)

\* a lookup result written into the state object of an assignment that has been replaced: no effect
TResetDropped ==
  /\ IsEvent("ResetTo") /\ Ev.dropped
  /\ Keep(<<lagUntil, subChg, mid, cgen, expectSync, distd, adopted, gateUp, inRevoke, needRevoke, subs, alive, start, pos, dl,
            ever, fetched, committed>>)

\* records handed to the application
TTake ==
  /\ IsEvent("Take")
  /\ LET c == Ev.c
         tp == Ev.tp
         n == Len(Ev.offs)
     IN IF n = 0
        THEN Keep(<<lagUntil, subChg, pos, dl, ever>>)
        ELSE /\ ~gateUp[c] /\ c \notin inRevoke                          \* C05 silent while reassigning
             /\ tp \in adopted[c].tps                                     \* C05 only from the live assignment
             /\ pos[c][tp] # -1
             /\ Ev.offs[1] >= pos[c][tp]                                  \* C04 from the start position,
             /\ \A i \in 1..(n - 1) : Ev.offs[i] < Ev.offs[i + 1]         \*     in offset order,
             /\ \A x \in pos[c][tp]..Ev.offs[n] :                         \*     no VISIBLE record skipped,
                    IF x \in Hidden(tp) THEN x \notin Range(Ev.offs) ELSE x \in Range(Ev.offs)   \* no hidden one handed out
             /\ pos' = [pos EXCEPT ![c][tp] = Ev.offs[n] + 1]
             /\ dl' = [dl EXCEPT ![c][tp] = @ \cup Range(Ev.offs)]
             /\ ever' = [ever EXCEPT ![tp] = @ \cup Range(Ev.offs)]
  /\ Keep(<<lagUntil, subChg, mid, cgen, expectSync, distd, adopted, gateUp, inRevoke, needRevoke, subs, alive, start, fetched, committed>>)

\* C04: an accepted commit never passes a record that was not handed to the application
TCommitReply ==
  /\ IsEvent("OffsetCommitReply")
  /\ IF Ev.code = 0
     THEN /\ IsClient(Ev.c)
          /\ \A tp \in DOMAIN Ev.offsets :
               /\ start[Ev.c][tp] # -1
               /\ Ev.offsets[tp] >= start[Ev.c][tp]
               /\ \A x \in start[Ev.c][tp]..(Ev.offsets[tp] - 1) : x \in dl[Ev.c][tp] \/ x \in Hidden(tp)
          /\ committed' = [tp \in TPs |-> IF tp \in DOMAIN Ev.offsets THEN Ev.offsets[tp] ELSE committed[tp]]
     ELSE UNCHANGED committed
  /\ IF Ev.code # 0 /\ Ev.c \in Clients THEN Interrupt({Ev.c}) ELSE UNCHANGED expectSync
  /\ Keep(<<lagUntil, subChg, mid, cgen, distd, adopted, gateUp, inRevoke, needRevoke, subs, alive, start, pos, dl, ever, fetched>>)

\* ---- life cycle ---------------------------------------------------------------------------------------------
TStarted == IsEvent("Started") /\ alive' = [alive EXCEPT ![Ev.c] = TRUE]
            /\ Keep(<<lagUntil, subChg, mid, cgen, expectSync, distd, adopted, gateUp, inRevoke, needRevoke, subs, start, pos, dl, ever,
                      fetched, committed>>)

Gone(c) == /\ alive' = [alive EXCEPT ![c] = FALSE]
           /\ expectSync' = [expectSync EXCEPT ![c] = FALSE]
           /\ adopted' = [adopted EXCEPT ![c] = NoAdopt]
           /\ inRevoke' = inRevoke \ {c}
           /\ needRevoke' = [needRevoke EXCEPT ![c] = FALSE]

TStopCall ==
  /\ IsEvent("StopCall")
  /\ Interrupt({Ev.c})
  /\ Keep(<<lagUntil, subChg, mid, cgen, distd, adopted, gateUp, inRevoke, needRevoke, subs, alive, start, pos, dl, ever, fetched, committed>>)

TStopped ==
  /\ (IsEvent("Stopped") \/ IsEvent("Killed"))
  /\ Gone(Ev.c)
  /\ Keep(<<lagUntil, subChg, mid, cgen, distd, gateUp, subs, start, pos, dl, ever, fetched, committed>>)

TSubChange ==
  /\ IsEvent("SubChange")
  /\ subs' = [subs EXCEPT ![Ev.c] = Range(Ev.topics)]
  /\ Interrupt({Ev.c})
  /\ needRevoke' = needRevoke
  /\ subChg' = [subChg EXCEPT ![Ev.c] = TRUE]
  \* the old Subscription (and its Assignment) is superseded: nothing fetched under it may be delivered
  /\ gateUp' = [gateUp EXCEPT ![Ev.c] = TRUE]
  /\ Keep(<<lagUntil, mid, cgen, distd, adopted, inRevoke, alive, start, pos, dl, ever, fetched, committed>>)

\* quiescent end (C06 convergence, C04 at-least-once)
LiveCs == Range(Ev.live)
TEnd ==
  /\ IsEvent("End")
  /\ Ev.joins_in_window = 0                                               \* no further rebalance
  /\ LiveCs # {} =>
       /\ Ev.gstate = "Stable"
       /\ \A c \in LiveCs :
            /\ Ev.fin[c].gen = Ev.ggen                                    \* latest generation
            /\ Ev.fin[c].hb >= 1 /\ ~Ev.fin[c].rejoin                     \* keeps heartbeating, no rejoin pending
            /\ Range(Ev.fin[c].tps) = adopted[c].tps
       /\ Range(Ev.gmembers) = {Ev.fin[c].member : c \in LiveCs}
       \* the assignments together cover every partition of every subscribed topic
       /\ UNION {adopted[c].tps : c \in LiveCs} =
            UNION {Range(Ev.parts[t]) : t \in UNION {subs[c] : c \in LiveCs}}     \* (topics may have grown during the run)
  /\ Keep(<<lagUntil, subChg, mid, cgen, expectSync, distd, adopted, gateUp, inRevoke, needRevoke, subs, alive, start, pos, dl, ever,
            fetched, committed>>)

\* C04 at least once: every record of every owned partition was delivered by some incarnation
TEndDelivery ==
  /\ IsEvent("EndDelivery")
  /\ \A tp \in UNION {adopted[c].tps : c \in LiveCs} : ever[tp] = (0..(Ev.leo[tp] - 1)) \ Hidden(tp)   \* the log may have grown during the run
  /\ Keep(<<lagUntil, subChg, mid, cgen, expectSync, distd, adopted, gateUp, inRevoke, needRevoke, subs, alive, start, pos, dl, ever,
            fetched, committed>>)

TTopicGrows == IsEvent("TopicGrows") /\ UNCHANGED <<mid, cgen, expectSync, distd, adopted, gateUp, inRevoke, needRevoke, subs, alive, start,
                                                     pos, dl, ever, fetched, committed, subChg, lagUntil>>

TraceNext ==
  \/ TTopicGrows \/ TJoinRequest \/ TJoinReply \/ TSyncRequest \/ TSyncReply \/ TFault \/ TGroupEnv \/ TFailover
  \/ TBeginReassign \/ TRevokeStart \/ TRevokeEnd \/ TAdopt \/ TAssignStart \/ TAssignEnd
  \/ TOffsetFetchReply \/ TResetTo \/ TResetDropped \/ TTake \/ TCommitReply \/ TStarted \/ TStopCall \/ TStopped \/ TSubChange \/ TEnd \/ TEndDelivery

TraceSpec == TraceInit /\ [][TraceNext]_tvars

\* state invariants evaluated on every state of the trace
DisjointNow ==
  \A a, b \in Clients : (a # b /\ alive[a] /\ alive[b] /\ adopted[a].gen # 0 /\ adopted[a].gen = adopted[b].gen)
      => adopted[a].tps \cap adopted[b].tps = {}
CommittedDelivered == \A tp \in TPs : \A x \in 0..(committed[tp] - 1) : x \in ever[tp] \/ x \in Hidden(tp)
Bad == IF ~DisjointNow THEN "DisjointWithinGeneration"
       ELSE IF ~CommittedDelivered THEN "CommittedWasDelivered" ELSE ""

View == [mid |-> mid, cgen |-> cgen, expectSync |-> expectSync, adopted |-> adopted, gateUp |-> gateUp,
         inRevoke |-> inRevoke, needRevoke |-> needRevoke, alive |-> alive, start |-> start, pos |-> pos,
         fetched |-> fetched, committed |-> committed, distd |-> distd, subChg |-> subChg, lagUntil |-> lagUntil]
Rec == Record(tid, l, Bad, IF IOEnv.DIAG = "1" THEN ToString(View) ELSE "")
Post == WriteVerdicts
=============================================================================
