-------------------------- MODULE MC_ProducerCore --------------------------
(* Bounded instance of ProducerCore for exhaustive model checking:           *)
(* all interleavings of Tasks sending up to MaxTotal records over Parts,      *)
(* batch capacity Cap, with FaultBudget retriable faults placed anywhere.     *)
EXTENDS ProducerCore

CONSTANTS Tasks, MaxPerTask, MaxTotal, Cap, FaultBudget, Idem, Acks0, StartHi, StartLo, TsChoices, Lat

Sent(t) == IF t \in DOMAIN issued THEN Len(issued[t]) ELSE 0
RECURSIVE SumSent(_)
SumSent(T) == IF T = {} THEN 0 ELSE LET t == CHOOSE t \in T : TRUE IN Sent(t) + SumSent(T \ {t})

Init ==
  /\ faults = FaultBudget
  /\ \E leaders \in [Parts -> Nodes] :
       InitWith([idem |-> Idem, acks0 |-> Acks0, tst |-> [p \in Parts |-> IF Lat THEN 1 ELSE 0]],
                [p \in Parts |-> <<StartHi, StartLo>>], leaders, leaders)

MCSend == \E t \in Tasks, p \in Parts, ts \in TsChoices :
            /\ Sent(t) < MaxPerTask /\ SumSent(Tasks) < MaxTotal
            /\ Send(t, <<t, Sent(t) + 1>>, p, ts, Cap)

Fault(A) == faults > 0 /\ A /\ faults' = faults - 1
Free(A) == A /\ UNCHANGED faults

WirePart(n, p) == HasBatch(req[n].bs, p) /\ LET b == BatchOf(req[n].bs, p) IN
                     BrokerPart(n, p, batch[b].seq, batch[b].recs, 50 + Len(log[p]))

\* named top-level actions (so that -coverage reports each of them by name)
ASend == MCSend
ADrain == \E ps \in SUBSET Parts : Drain(ps)
AExpire == \E p \in Parts : ExpireNoLeader(p)
ABrokerPart == \E n \in Nodes, p \in Parts : Free(WirePart(n, p))
WirePart0(n, p) == \E i \in 1..Len(wire0[n]) : wire0[n][i].p = p /\ LET b == wire0[n][FirstFor(n, p)].b IN
                      BrokerPart0(n, p, batch[b].seq, batch[b].recs, 50 + Len(log[p]))
ABrokerPart0 == \E n \in Nodes, p \in Parts : Free(WirePart0(n, p))
ALose0 == \E n \in Nodes : Fault(Lose0(n))
ABrokerError == \E n \in Nodes : Fault(BrokerError(n, "retriable"))
AConnLost == \E n \in Nodes : Fault(ConnLost(n))
AReply == \E n \in Nodes : ReplyArrives(n)
ADone == \E n \in Nodes : \E b \in req[n].bs : ClientDone(n, b)
ANoAck == \E n \in Nodes : \E b \in req[n].bs : NoAck(n, b)
AFail == \E n \in Nodes : \E b \in req[n].bs : ClientFail(n, b) /\ ~conf.idem /\ req[n].ph = "lost"
AReenqueue == \E n \in Nodes : \E b \in req[n].bs : Reenqueue(n, b)
ARelease == \E n \in Nodes : Release(n)
AMdRefresh == md # ldr /\ Free(MdUpdate(ldr))
\* Environment assumption for acks=0 (named deviation, DESIGN.md 9.3): a broker that becomes leader of p does not still
\* hold an unprocessed fire-and-forget request for p from before it lost that leadership.  Without acknowledgements the
\* client cannot order a batch parked in a deposed leader's socket against a later batch sent to the new leader; two
\* leader elections while one request sits unread are the only way TLC finds to reorder first occurrences with acks=0.
StaleFor(p, n) == \E i \in 1..Len(wire0[n]) : wire0[n][i].p = p
ALeaderMoves == \E p \in Parts, n \in Nodes : ldr[p] # n /\ ~StaleFor(p, n) /\ Fault(LeaderMoves(p, n))
ALeaderUnknown == \E p \in Parts : md[p] # NoLeader /\ Fault(MdUpdate([md EXCEPT ![p] = NoLeader]))

Next == \/ ASend \/ ADrain \/ AExpire \/ ABrokerPart \/ ABrokerPart0 \/ ALose0 \/ ABrokerError \/ AConnLost \/ AReply
        \/ ADone \/ ANoAck \/ AFail \/ AReenqueue \/ ARelease \/ AMdRefresh \/ ALeaderMoves \/ ALeaderUnknown

Spec == Init /\ [][Next]_vars

Fair ==
  /\ WF_vars(\E ps \in SUBSET Parts : Drain(ps) /\ ps = Eligible)
  /\ WF_vars(AMdRefresh)
  /\ \A n \in Nodes :
       /\ WF_vars(\E p \in Parts : Free(WirePart(n, p)))
       /\ WF_vars(ReplyArrives(n))
       /\ WF_vars(\E b \in req[n].bs : ClientDone(n, b) \/ NoAck(n, b) \/ Reenqueue(n, b))
       /\ WF_vars(Release(n))
LiveSpec == Spec /\ Fair

\* C02 liveness: after the (finite) faults every accepted record is resolved
EventuallyResolved == <>[]AllResolved

Sym == Permutations(Tasks) \cup Permutations(Parts) \cup Permutations(Nodes)
=============================================================================
