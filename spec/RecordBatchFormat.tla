------------------------- MODULE RecordBatchFormat -------------------------
(* C09: record batches round-trip and both codec implementations agree.      *)
(*                                                                           *)
(* Three small state machines that share one set of format operators:        *)
(*   builder  : Append(record class) -> accepted with metadata / rejected by *)
(*              the batch-size rule / rejected because closed; Close; Build  *)
(*   reader   : Header, NextRecord, EndOfBatch over the built batch          *)
(*   splitter : NextBatch(magic) / PartialTail / EndOfBuffer over a          *)
(*              concatenation of batches of any mix of formats               *)
(* The arithmetic that is *format rule* lives here: v2 header layout (61     *)
(* bytes), zig-zag varint lengths, v2 record size, v0/v1 message overheads,  *)
(* lastOffsetDelta = n-1, first/max timestamp, attribute bits, relative      *)
(* offsets in a compressed v1 wrapper, producer fields copied verbatim.      *)
(*                                                                           *)
(* TLC is used twice: (1) it model-checks the machines for a small alphabet  *)
(* of record classes (MC_RecordBatchFormat.cfg / MCL_...); (2) it evaluates  *)
(* every case recorded from the real builders/readers/splitters (compiled    *)
(* and pure Python) against the same operators (Table_RecordBatchFormat.cfg) *)
(* -- one state per case, `CaseOK` must hold.                                *)
(*                                                                           *)
(* Not decided here (DESIGN section 5): the value of CRC-32(C) and the       *)
(* compressed payload bytes; they are only cross-checked.                    *)
(*                                                                           *)
(* 64-bit quantities (timestamps, producer id, base offsets) are big-endian  *)
(* 8-byte tuples (TLC integers are 32 bit): equality with a header field is  *)
(* then verbatim, order/difference are done on bytes.                        *)
(***************************************************************************)
EXTENDS Integers, Sequences, FiniteSets, TLC, TLCExt, Json, IOUtils

CONSTANTS Alphabet,      \* record classes used by the model-checked builder
          Limits,        \* batch_size values
          MaxAppends,    \* appends per builder behaviour
          Magics,        \* formats
          PartAlphabet,  \* abstract batches <<magic, len>> for the splitter
          MaxParts,      \* batches per concatenation
          TableMode      \* TRUE: evaluate the recorded table instead

\* ---------------------------------------------------------------------------
\* 64-bit big-endian byte tuples

Zero8 == <<0, 0, 0, 0, 0, 0, 0, 0>>
One8 == <<0, 0, 0, 0, 0, 0, 0, 1>>
MinusOne8 == <<255, 255, 255, 255, 255, 255, 255, 255>>
Nat4(n) == <<(n \div 16777216) % 256, (n \div 65536) % 256, (n \div 256) % 256, n % 256>>
Nat8(n) == <<0, 0, 0, 0>> \o Nat4(n)                 \* 0 <= n < 2^31
I32(n) == IF n >= 0 THEN Nat4(n) ELSE <<255, 255, 255, 255>>   \* only -1 is used below 0
I16(n) == <<(n \div 256) % 256, n % 256>>

RECURSIVE CmpFrom(_, _, _)
CmpFrom(a, b, i) == IF i > Len(a) THEN 0
                    ELSE IF a[i] < b[i] THEN 0 - 1
                    ELSE IF a[i] > b[i] THEN 1
                    ELSE CmpFrom(a, b, i + 1)
Le8(a, b) == CmpFrom(a, b, 1) <= 0
Max8(a, b) == IF Le8(a, b) THEN b ELSE a

RECURSIVE SubB(_, _, _, _)       \* a - b (a >= b), bytes 1..i, borrow into byte i
SubB(a, b, i, bor) ==
  IF i = 0 THEN <<>>
  ELSE LET d == a[i] - b[i] - bor
       IN Append(SubB(a, b, i - 1, IF d < 0 THEN 1 ELSE 0), IF d < 0 THEN d + 256 ELSE d)
Sub8(a, b) == SubB(a, b, 8, 0)

RECURSIVE AddB(_, _, _)          \* a + small carry
AddB(a, i, c) ==
  IF i = 0 THEN <<>>
  ELSE LET s == a[i] + c IN Append(AddB(a, i - 1, s \div 256), s % 256)
AddSmall8(a, k) == AddB(a, 8, k)           \* 0 <= k < 2^31 - 256

BitLenByte(x) == IF x = 0 THEN 0 ELSE IF x < 2 THEN 1 ELSE IF x < 4 THEN 2 ELSE IF x < 8 THEN 3
                 ELSE IF x < 16 THEN 4 ELSE IF x < 32 THEN 5 ELSE IF x < 64 THEN 6
                 ELSE IF x < 128 THEN 7 ELSE 8
RECURSIVE BitLenFrom(_, _)
BitLenFrom(m, i) == IF i > 8 THEN 0
                    ELSE IF m[i] # 0 THEN (8 - i) * 8 + BitLenByte(m[i])
                    ELSE BitLenFrom(m, i + 1)
BitLen8(m) == BitLenFrom(m, 1)

\* ---------------------------------------------------------------------------
\* zig-zag varints.  zigzag(v) = 2v (v >= 0), 2|v|-1 (v < 0); 7 payload bits
\* per byte, so the length changes at 63/64, 8191/8192, 2^20, 2^27, 2^34, ...

VarintLen(x) ==                      \* |x| < 2^30 (lengths, counts, offset deltas, -1)
  LET z == IF x >= 0 THEN 2 * x ELSE 2 * (0 - x) - 1
  IN IF z < 128 THEN 1 ELSE IF z < 16384 THEN 2 ELSE IF z < 2097152 THEN 3
     ELSE IF z < 268435456 THEN 4 ELSE 5

ZigZagBits(m, odd) == IF BitLen8(m) = 0 THEN (IF odd THEN 1 ELSE 0) ELSE BitLen8(m) + 1
BytesForBits(z) == IF z <= 7 THEN 1 ELSE (z + 6) \div 7
\* length of varlong(a - b) for 64-bit a, b >= 0 (timestamp deltas, any sign,
\* beyond int32)
VarlongLenDelta(a, b) ==
  IF Le8(b, a) THEN BytesForBits(ZigZagBits(Sub8(a, b), FALSE))
  ELSE BytesForBits(ZigZagBits(Sub8(Sub8(b, a), One8), TRUE))

ASSUME /\ VarintLen(0) = 1 /\ VarintLen(63) = 1 /\ VarintLen(64) = 2
       /\ VarintLen(8191) = 2 /\ VarintLen(8192) = 3 /\ VarintLen(1048575) = 3
       /\ VarintLen(1048576) = 4 /\ VarintLen(134217727) = 4 /\ VarintLen(134217728) = 5
       /\ VarintLen(0 - 1) = 1 /\ VarintLen(0 - 64) = 1 /\ VarintLen(0 - 65) = 2
ASSUME \A x \in {0, 1, 63, 64, 8191, 8192, 1048575, 1048576, 134217727, 134217728} :
         /\ VarlongLenDelta(Nat8(x), Zero8) = VarintLen(x)
         /\ x > 0 => VarlongLenDelta(Zero8, Nat8(x)) = VarintLen(0 - x)
\* 2^31 - 1 -> 5 bytes; 2^34 - 1 -> 5; 2^34 -> 6; 2^62 -> 9; 2^63 - 1 -> 10... (zigzag doubles)
ASSUME /\ VarlongLenDelta(<<0, 0, 0, 0, 127, 255, 255, 255>>, Zero8) = 5
       /\ VarlongLenDelta(<<0, 0, 0, 3, 255, 255, 255, 255>>, Zero8) = 5
       /\ VarlongLenDelta(<<0, 0, 0, 4, 0, 0, 0, 0>>, Zero8) = 6
       /\ VarlongLenDelta(Zero8, <<0, 0, 0, 4, 0, 0, 0, 0>>) = 5
       /\ VarlongLenDelta(<<64, 0, 0, 0, 0, 0, 0, 0>>, Zero8) = 10
       /\ VarlongLenDelta(<<63, 255, 255, 255, 255, 255, 255, 255>>, Zero8) = 9

\* ---------------------------------------------------------------------------
\* layouts

HeaderV2 == 61
LogOverhead == 12                 \* offset (8) + size (4), every format
OverheadV0 == 14                  \* crc 4 + magic 1 + attrs 1 + keylen 4 + vallen 4
OverheadV1 == 22                  \* + timestamp 8
MaxRecordOverheadV2 == 21         \* 5 (length) + 10 (ts delta) + 5 (offset delta) + 1

OffV2 == [baseOffset |-> 0, length |-> 8, leaderEpoch |-> 12, magic |-> 16, crc |-> 17,
          attributes |-> 21, lastOffsetDelta |-> 23, firstTimestamp |-> 27,
          maxTimestamp |-> 35, producerId |-> 43, producerEpoch |-> 51,
          baseSequence |-> 53, recordCount |-> 57]
WidV2 == [baseOffset |-> 8, length |-> 4, leaderEpoch |-> 4, magic |-> 1, crc |-> 4,
          attributes |-> 2, lastOffsetDelta |-> 4, firstTimestamp |-> 8,
          maxTimestamp |-> 8, producerId |-> 8, producerEpoch |-> 2,
          baseSequence |-> 4, recordCount |-> 4]
OrderV2 == <<"baseOffset", "length", "leaderEpoch", "magic", "crc", "attributes",
             "lastOffsetDelta", "firstTimestamp", "maxTimestamp", "producerId",
             "producerEpoch", "baseSequence", "recordCount">>
ASSUME /\ OffV2[OrderV2[1]] = 0
       /\ \A j \in 1..(Len(OrderV2) - 1) : OffV2[OrderV2[j]] + WidV2[OrderV2[j]] = OffV2[OrderV2[j + 1]]
       /\ OffV2.recordCount + WidV2.recordCount = HeaderV2
FieldV2(buf, name) == SubSeq(buf, OffV2[name] + 1, OffV2[name] + WidV2[name])

\* v0/v1 message: offset 8 | size 4 | crc 4 | magic 1 | attrs 1 | [timestamp 8] |
\*                keylen 4 | key | vallen 4 | value
OffLegacy == [offset |-> 0, length |-> 8, crc |-> 12, magic |-> 16, attributes |-> 17, timestamp |-> 18]
KeyOff(magic) == IF magic = 0 THEN 18 ELSE 26
ASSUME KeyOff(0) + 8 = LogOverhead + OverheadV0 /\ KeyOff(1) + 8 = LogOverhead + OverheadV1

\* attribute bits
CodecMask == 7
TimestampTypeBit == 8
TransactionalBit == 16
ControlBit == 32
Attrs(codec, logAppend, txnl, control) ==
  codec + (IF logAppend = 1 THEN TimestampTypeBit ELSE 0)
        + (IF txnl = 1 THEN TransactionalBit ELSE 0) + (IF control = 1 THEN ControlBit ELSE 0)

\* ---------------------------------------------------------------------------
\* record sizes.  A record class r = [k, v, h, ts, ...]: k, v = byte length or
\* -1 for null; h = sequence of [k, v] (header key utf-8 length, value length
\* or -1); ts = 8-byte timestamp

BytesField(l) == IF l < 0 THEN 1 ELSE VarintLen(l) + l      \* varint(-1) is one byte
RECURSIVE HeadersSize(_, _)
HeadersSize(h, i) == IF i > Len(h) THEN 0
                     ELSE VarintLen(h[i].k) + h[i].k + BytesField(h[i].v) + HeadersSize(h, i + 1)
SizeOfKVH(r) == BytesField(r.k) + BytesField(r.v) + VarintLen(Len(r.h)) + HeadersSize(r.h, 1)
\* idx = 0-based position in the batch = offset delta; firstTs of the batch
BodyV2(r, idx, firstTs) ==
  1 + (IF idx = 0 THEN 1 ELSE VarlongLenDelta(r.ts, firstTs)) + VarintLen(idx) + SizeOfKVH(r)
RecSizeV2(r, idx, firstTs) == LET body == BodyV2(r, idx, firstTs) IN body + VarintLen(body)
NatLen(l) == IF l < 0 THEN 0 ELSE l
RecSizeLegacy(magic, r) ==
  LogOverhead + (IF magic = 0 THEN OverheadV0 ELSE OverheadV1) + NatLen(r.k) + NatLen(r.v)
RecSizeAt(magic, r, idx, firstTs) ==
  IF magic = 2 THEN RecSizeV2(r, idx, firstTs) ELSE RecSizeLegacy(magic, r)

InitSize(magic) == IF magic = 2 THEN HeaderV2 ELSE 0

\* ---------------------------------------------------------------------------
\* builder.  wrap = 1 models producer.BatchBuilder around the v2 builder: a
\* rejected append closes it, Close/Build close it, a closed builder rejects.

NewBuilder(m, c, t, w, L) ==
  [magic |-> m, codec |-> c, txnl |-> t, wrap |-> w, limit |-> L, n |-> 0,
   size |-> InitSize(m), firstTs |-> Zero8, maxTs |-> Zero8, lastOffset |-> 0,
   closed |-> FALSE, built |-> FALSE, hist |-> <<>>]

RecSize(b, r) == RecSizeAt(b.magic, r, b.n, IF b.n = 0 THEN r.ts ELSE b.firstTs)

\* the batch-size rule: the first record always goes in; a later one only if
\* the batch stays within batch_size (v2: size + record <= batch_size, as the
\* Java client; v0/v1: strictly below, the rule both legacy builders took over
\* from kafka-python)
Fits(b, rs) == IF b.magic = 2 THEN b.size + rs <= b.limit ELSE b.size + rs < b.limit
Accepts(b, rs) == b.n = 0 \/ Fits(b, rs)

NoRes == [kind |-> "none"]
MetaTs(b, r) == IF b.magic = 0 THEN MinusOne8 ELSE r.ts

AppendF(b, r) ==
  IF b.closed THEN [b |-> b, res |-> [kind |-> "append", acc |-> 0, why |-> "closed"]]
  ELSE LET rs == RecSize(b, r) IN
    IF Accepts(b, rs)
    THEN [b |-> [b EXCEPT !.n = @ + 1, !.size = @ + rs,
                          !.firstTs = IF b.n = 0 THEN r.ts ELSE @,
                          !.maxTs = IF b.n = 0 THEN r.ts ELSE Max8(@, r.ts),
                          !.lastOffset = b.n,
                          !.hist = Append(@, r)],
          res |-> [kind |-> "append", acc |-> 1, why |-> "fits", off |-> b.n, size |-> rs,
                   ts |-> MetaTs(b, r)]]
    ELSE [b |-> [b EXCEPT !.closed = (b.wrap = 1)],
          res |-> [kind |-> "append", acc |-> 0, why |-> "full"]]

CloseF(b) == [b EXCEPT !.closed = TRUE]
BuildF(b) == [b EXCEPT !.closed = TRUE, !.built = TRUE]

\* ---------------------------------------------------------------------------
\* the batch on the wire and what a reader must return.  `post` is what a
\* broker does to a produced batch: assign the base offset (rebase = 1), and
\* optionally stamp LogAppendTime / the control bit (v2).

NoPost == [rebase |-> 0, base |-> Zero8, logappend |-> 0, control |-> 0, appendts |-> Zero8]

Wire(b, post) == [magic |-> b.magic, codec |-> b.codec, txnl |-> b.txnl, n |-> b.n,
                  firstTs |-> b.firstTs, maxTs |-> b.maxTs, recs |-> b.hist, post |-> post]

ExpTs(w, r) ==
  IF w.magic = 0 THEN <<>>                                      \* v0 has no timestamp
  ELSE IF w.post.logappend = 1 /\ (w.magic = 2 \/ w.codec # 0) THEN w.post.appendts
  ELSE r.ts
ExpTt(w) == IF w.magic = 0 THEN 0 - 1 ELSE w.post.logappend

ExpHeaders(w, r) == IF w.magic = 2 THEN r.h ELSE <<>>

\* reader: record i (1-based) of the batch
NextRecordF(w, i) ==
  LET r == w.recs[i]
  IN [k |-> r.k, kd |-> r.kd, v |-> r.v, vd |-> r.vd, h |-> ExpHeaders(w, r),
      ts |-> ExpTs(w, r), tt |-> ExpTt(w), off |-> AddSmall8(w.post.base, i - 1)]
AllRecords(w) == [i \in 1..w.n |-> NextRecordF(w, i)]

\* a compressed v0/v1 batch is one wrapper message whose offset is the absolute
\* offset of the last inner message; inner offsets are relative (0..n-1)
WrapperOffset(w) == IF w.post.rebase = 1 THEN AddSmall8(w.post.base, w.n - 1) ELSE Zero8

\* reader: header of a v2 batch (codecBits = what the attributes really carry)
HeaderF(w, codecBits) ==
  [base |-> w.post.base, magic |-> 2, codec |-> codecBits, tt |-> w.post.logappend,
   txnl |-> (w.txnl = 1), control |-> (w.post.control = 1), lod |-> w.n - 1,
   first_ts |-> w.firstTs,
   max_ts |-> IF w.post.logappend = 1 THEN w.post.appendts ELSE w.maxTs,
   next |-> AddSmall8(w.post.base, w.n)]

\* what the splitter + readers must produce for one built buffer
ExpectedBatches(w, codecBits) ==
  IF w.magic = 2
    THEN << [magic |-> 2, recs |-> AllRecords(w), p |-> HeaderF(w, codecBits)] >>
  ELSE IF w.codec # 0
    THEN << [magic |-> w.magic, recs |-> AllRecords(w),
             p |-> [next |-> AddSmall8(WrapperOffset(w), 1)]] >>
  ELSE [i \in 1..w.n |-> [magic |-> w.magic, recs |-> << NextRecordF(w, i) >>,
                          p |-> [next |-> AddSmall8(w.post.base, i)]]]

\* lengths of the slices the splitter must cut out of an *uncompressed* buffer
RECURSIVE SizesFrom(_, _, _, _)
SizesFrom(magic, recs, i, firstTs) ==
  IF i > Len(recs) THEN <<>>
  ELSE <<RecSizeAt(magic, recs[i], i - 1, firstTs)>> \o SizesFrom(magic, recs, i + 1, firstTs)
RecSizes(magic, recs) == IF recs = <<>> THEN <<>> ELSE SizesFrom(magic, recs, 1, recs[1].ts)
RECURSIVE SumSeq(_, _)
SumSeq(s, i) == IF i > Len(s) THEN 0 ELSE s[i] + SumSeq(s, i + 1)

\* ---------------------------------------------------------------------------
\* splitter over a concatenation: parts = <<[magic, len]...>>, cut = number of
\* bytes kept of one further batch of total length cutOf (0 = nothing)

PartStart(parts, j) == SumSeq([x \in 1..(j - 1) |-> parts[x].len], 1)
Total(s) == PartStart(s.parts, Len(s.parts) + 1) + s.cut
\* the part that starts at byte position pos (0 if none does)
PartAt(s, pos) == IF \E j \in 1..Len(s.parts) : PartStart(s.parts, j) = pos
                  THEN CHOOSE j \in 1..Len(s.parts) : PartStart(s.parts, j) = pos
                  ELSE 0
\* the 4-byte length field at pos + 8 (only readable if 12 bytes remain)
LengthAt(s, pos) == IF PartAt(s, pos) # 0 THEN s.parts[PartAt(s, pos)].len - LogOverhead
                    ELSE s.cutOf - LogOverhead
HasNext(s, pos) == LET remaining == Total(s) - pos
                   IN remaining >= LogOverhead /\ pos + LogOverhead + LengthAt(s, pos) <= Total(s)
\* the magic byte at pos + 16
MagicAt(s, pos) == s.parts[PartAt(s, pos)].magic

\* complete run of the splitter: the slices <<magic, len>> it yields
RECURSIVE SplitFrom(_, _)
SplitFrom(s, pos) ==
  IF HasNext(s, pos)
  THEN << [magic |-> MagicAt(s, pos), len |-> LogOverhead + LengthAt(s, pos)] >>
       \o SplitFrom(s, pos + LogOverhead + LengthAt(s, pos))
  ELSE <<>>

\* ---------------------------------------------------------------------------
\* the model-checked machines

VARIABLES mode,   \* "builder" | "splitter" | "table"
          b,      \* builder state
          res,    \* result of the last call
          rd,     \* reader: 0 not started, 1..n+1 next record, n+2 finished
          got,    \* records the reader has returned
          sp,     \* splitter input
          pos,    \* splitter position
          out,    \* slices the splitter has returned
          i       \* table row

vars == <<mode, b, res, rd, got, sp, pos, out, i>>

NoSplit == [parts |-> <<>>, cut |-> 0, cutOf |-> 0]
Dummy == NewBuilder(2, 0, 0, 0, 0)

SeqsUpTo(S, n) == UNION {[1..k -> S] : k \in 0..n}

InitBuilder ==
  /\ mode = "builder"
  /\ b \in {NewBuilder(m, c, t, w, L) : m \in Magics, c \in {0, 1}, t \in {0, 1}, w \in {0, 1}, L \in Limits}
  /\ b.magic # 2 => b.txnl = 0 /\ b.wrap = 0
  /\ res = NoRes /\ rd = 0 /\ got = <<>> /\ sp = NoSplit /\ pos = 0 /\ out = <<>> /\ i = 0

CutChoices == {[cut |-> 0, cutOf |-> 0]} \cup
              UNION {{[cut |-> k, cutOf |-> q.len] : k \in {1, 11, 12, 17, q.len - 1}} : q \in PartAlphabet}
InitSplitter ==
  /\ mode = "splitter"
  /\ sp \in {[parts |-> p, cut |-> c.cut, cutOf |-> c.cutOf] :
               p \in SeqsUpTo(PartAlphabet, MaxParts), c \in CutChoices}
  /\ b = Dummy /\ res = NoRes /\ rd = 0 /\ got = <<>> /\ pos = 0 /\ out = <<>> /\ i = 0

\* --- builder actions (one per branch of append / close / build)
\* (in builder mode `i` counts the append calls made so far)
AppendAccept(r) ==
  /\ mode = "builder" /\ ~b.built /\ i < MaxAppends /\ ~b.closed /\ Accepts(b, RecSize(b, r))
  /\ b' = AppendF(b, r).b /\ res' = AppendF(b, r).res /\ i' = i + 1
  /\ UNCHANGED <<mode, rd, got, sp, pos, out>>
AppendReject(r) ==
  /\ mode = "builder" /\ ~b.built /\ i < MaxAppends /\ ~b.closed /\ ~Accepts(b, RecSize(b, r))
  /\ b' = AppendF(b, r).b /\ res' = AppendF(b, r).res /\ i' = i + 1
  /\ UNCHANGED <<mode, rd, got, sp, pos, out>>
AppendClosed(r) ==
  /\ mode = "builder" /\ i < MaxAppends /\ b.closed /\ b.wrap = 1
  /\ b' = AppendF(b, r).b /\ res' = AppendF(b, r).res /\ i' = i + 1
  /\ UNCHANGED <<mode, rd, got, sp, pos, out>>
Close ==
  /\ mode = "builder" /\ b.wrap = 1 /\ ~b.closed
  /\ b' = CloseF(b) /\ res' = [kind |-> "close"]
  /\ UNCHANGED <<mode, rd, got, sp, pos, out, i>>
Build ==
  /\ mode = "builder" /\ ~b.built /\ b.n > 0
  /\ b' = BuildF(b) /\ res' = [kind |-> "build", len |-> b.size]
  /\ UNCHANGED <<mode, rd, got, sp, pos, out, i>>

\* --- reader actions over the built batch (as the broker returned it: NoPost)
W == Wire(b, NoPost)
Header ==
  /\ mode = "builder" /\ b.built /\ rd = 0
  /\ rd' = 1 /\ res' = [kind |-> "header", lod |-> b.lastOffset, n |-> b.n,
                         first |-> b.firstTs, max |-> b.maxTs,
                         attrs |-> Attrs(b.codec, 0, b.txnl, 0)]
  /\ UNCHANGED <<mode, b, got, sp, pos, out, i>>
NextRecord ==
  /\ mode = "builder" /\ b.built /\ rd \in 1..b.n
  /\ got' = Append(got, NextRecordF(W, rd)) /\ rd' = rd + 1
  /\ res' = [kind |-> "record"]
  /\ UNCHANGED <<mode, b, sp, pos, out, i>>
EndOfBatch ==
  /\ mode = "builder" /\ b.built /\ rd = b.n + 1
  /\ rd' = b.n + 2 /\ res' = [kind |-> "end"]
  /\ UNCHANGED <<mode, b, got, sp, pos, out, i>>

\* --- splitter actions
NextBatch(m) ==
  /\ mode = "splitter" /\ rd = 0 /\ HasNext(sp, pos) /\ m = MagicAt(sp, pos)
  /\ out' = Append(out, [magic |-> m, len |-> LogOverhead + LengthAt(sp, pos)])
  /\ pos' = pos + LogOverhead + LengthAt(sp, pos)
  /\ UNCHANGED <<mode, b, res, rd, got, sp, i>>
PartialTail ==
  /\ mode = "splitter" /\ rd = 0 /\ ~HasNext(sp, pos) /\ pos < Total(sp)
  /\ rd' = 1 /\ res' = [kind |-> "partial", remaining |-> Total(sp) - pos]
  /\ UNCHANGED <<mode, b, got, sp, pos, out, i>>
EndOfBuffer ==
  /\ mode = "splitter" /\ rd = 0 /\ pos = Total(sp)
  /\ rd' = 1 /\ res' = [kind |-> "eob"]
  /\ UNCHANGED <<mode, b, got, sp, pos, out, i>>

\* ---------------------------------------------------------------------------
\* the recorded table (TableMode): one state per case

Cases == IF TableMode THEN JsonDeserialize(IOEnv.TRACE_FILE) ELSE <<>>
NC == Len(Cases)
Stride == 256
InitTable ==
  /\ mode = "table" /\ i \in {1 + k * Stride : k \in 0..((NC - 1) \div Stride)}
  /\ b = Dummy /\ res = NoRes /\ rd = 0 /\ got = <<>> /\ sp = NoSplit /\ pos = 0 /\ out = <<>>
NextRow ==
  /\ mode = "table" /\ i % Stride # 0 /\ i < NC
  /\ i' = i + 1
  /\ UNCHANGED <<mode, b, res, rd, got, sp, pos, out>>

Init == IF TableMode THEN InitTable ELSE (InitBuilder \/ InitSplitter)
Next == \/ \E r \in Alphabet : AppendAccept(r) \/ AppendReject(r) \/ AppendClosed(r)
        \/ Close \/ Build \/ Header \/ NextRecord \/ EndOfBatch
        \/ \E m \in Magics : NextBatch(m)
        \/ PartialTail \/ EndOfBuffer
        \/ NextRow
Spec == Init /\ [][Next]_vars

\* ---------------------------------------------------------------------------
\* properties of the machines (model-checked)

\* size accounting: the running size is the header plus the closed-form sizes
\* of the accepted records (recomputed from the format operators)
SizeAccounting == b.size = InitSize(b.magic) + SumSeq(RecSizes(b.magic, b.hist), 1)
\* the limit holds for the bytes produced unless the batch is a single record
LimitRespected == b.n >= 2 => IF b.magic = 2 THEN b.size <= b.limit ELSE b.size < b.limit
\* first record always accepted
FirstAccepted == (res.kind = "append" /\ res.acc = 0 /\ res.why = "full") => b.n >= 1
LastOffsetDelta == b.n > 0 => b.lastOffset = b.n - 1 /\ b.n = Len(b.hist)
RECURSIVE MaxTsOf(_, _)
MaxTsOf(h, j) == IF j = Len(h) THEN h[j].ts ELSE Max8(h[j].ts, MaxTsOf(h, j + 1))
Timestamps == b.n > 0 => b.firstTs = b.hist[1].ts /\ b.maxTs = MaxTsOf(b.hist, 1)
ClosedRejects == (res.kind = "append" /\ res.why = "closed") => res.acc = 0
BuiltIsClosed == b.built => b.closed
RejectCloses == (res.kind = "append" /\ res.acc = 0 /\ b.wrap = 1) => b.closed
\* estimate_size_in_bytes is an upper bound for any record at any position
ASSUME \A r \in Alphabet : \A idx \in 0..MaxAppends : \A r0 \in Alphabet :
         HeaderV2 + MaxRecordOverheadV2 + SizeOfKVH(r) >= HeaderV2 + RecSizeV2(r, idx, r0.ts)
ReaderRoundTrip ==
  (mode = "builder" /\ rd >= 1) =>
    /\ b.built
    /\ Len(got) = (IF rd = b.n + 2 THEN b.n ELSE rd - 1)
    /\ got = SubSeq(AllRecords(W), 1, Len(got))
    /\ \A j \in 1..Len(got) : /\ got[j].k = b.hist[j].k /\ got[j].v = b.hist[j].v
                               /\ got[j].off = Nat8(j - 1)
                               /\ (b.magic = 2 => got[j].h = b.hist[j].h)
                               /\ (b.magic # 0 => got[j].ts = b.hist[j].ts)
                               /\ (b.magic = 0 => got[j].ts = <<>> /\ got[j].h = <<>>)
\* the splitter yields exactly the complete batches, in order, with their own
\* magic, and never the partial tail
SplitterOK ==
  mode = "splitter" =>
    /\ Len(out) <= Len(sp.parts)
    /\ \A j \in 1..Len(out) : out[j] = sp.parts[j]
    /\ pos = PartStart(sp.parts, Len(out) + 1)
    /\ rd = 1 => out = sp.parts /\ out = SplitFrom(sp, 0)
    /\ (rd = 1 /\ res.kind = "partial") => sp.cut > 0
    /\ (rd = 1 /\ res.kind = "eob") => sp.cut = 0

C09_RecordBatchFormat ==
  /\ SizeAccounting /\ LimitRespected /\ FirstAccepted /\ LastOffsetDelta /\ Timestamps
  /\ ClosedRejects /\ BuiltIsClosed /\ RejectCloses /\ ReaderRoundTrip /\ SplitterOK

\* a closed builder never changes its contents again
ClosedIsFinal == [][b.closed => (b'.n = b.n /\ b'.size = b.size /\ b'.hist = b.hist /\ b'.closed)]_vars

\* ---------------------------------------------------------------------------
\* evaluation of one recorded case against the operators above

Has(r, f) == f \in DOMAIN r

\* fold of the recorded op sequence through the builder functions:
\* states[j] = builder state *before* op j, states[Len+1] = final
RECURSIVE Run(_, _, _)
Run(bb, ops, j) ==
  IF j > Len(ops) THEN <<bb>>
  ELSE <<bb>> \o Run(IF ops[j].op = "append" THEN AppendF(bb, ops[j].r).b
                     ELSE IF ops[j].op = "close" THEN CloseF(bb)
                     ELSE BuildF(bb), ops, j + 1)

CaseBuilder(c) == NewBuilder(c.magic, c.codec, c.txnl, c.wrap, c.limit)

BuildIdx(c) == IF \E j \in 1..Len(c.ops) : c.ops[j].op = "build"
               THEN CHOOSE j \in 1..Len(c.ops) : c.ops[j].op = "build" ELSE 0
Final(c, st) == st[BuildIdx(c) + 1]

\* --- clauses of a "build" case, for one encoder observation e = c.enc[x]
\* expected size() after op j: the accounting, or, once a compressed batch is
\* built, the length of what was built
ExpSizeAfter(c, e, st, j) ==
  IF BuildIdx(c) # 0 /\ j >= BuildIdx(c) /\ c.codec # 0 THEN e.obs[BuildIdx(c)].len
  ELSE st[j + 1].size

EncDecisions(c, e, st) ==
  \A j \in 1..Len(c.ops) : c.ops[j].op = "append" =>
    e.obs[j].acc = AppendF(st[j], c.ops[j].r).res.acc
EncMetadata(c, e, st) ==
  \A j \in 1..Len(c.ops) : (c.ops[j].op = "append" /\ e.obs[j].acc = 1) =>
    LET x == AppendF(st[j], c.ops[j].r).res
    IN x.acc = 1 => /\ e.obs[j].off = x.off /\ e.obs[j].size = x.size /\ e.obs[j].ts = x.ts
EncSize(c, e, st) ==
  \A j \in 1..Len(c.ops) : e.obs[j].sz = ExpSizeAfter(c, e, st, j)
\* size_in_bytes(offset, ts, key, value[, headers]) promises the size the
\* record will take; estimate_size_in_bytes an upper bound of a one-record batch
EncSizeInBytes(c, e, st) ==
  \A j \in 1..Len(c.ops) : (c.ops[j].op = "append" /\ e.obs[j].sib >= 0) =>
    /\ e.obs[j].sib = RecSize(st[j], c.ops[j].r)
    /\ IF c.magic = 2
         THEN /\ e.obs[j].est >= HeaderV2 + RecSize(st[j], c.ops[j].r)
              /\ e.obs[j].est = HeaderV2 + MaxRecordOverheadV2 + SizeOfKVH(c.ops[j].r)
         ELSE e.obs[j].est = (IF c.magic = 0 THEN OverheadV0 ELSE OverheadV1)

\* len(build()) for an uncompressed batch is the accounted size; a compressed
\* one must decompress (reference library, in the harness) to exactly the
\* uncompressed record section
EncBuildLen(c, e, st) ==
  BuildIdx(c) # 0 =>
    LET o == e.obs[BuildIdx(c)]
        f == Final(c, st)
    IN IF o.codec = 0 THEN o.len = f.size /\ o.inner = f.size - InitSize(c.magic)
       ELSE /\ o.inner = f.size - InitSize(c.magic)
            /\ o.inner_eq

\* header of the built v2 batch, read at the spec's offsets
EncHeaderV2(c, e, st) ==
  (BuildIdx(c) # 0 /\ c.magic = 2) =>
    LET o == e.obs[BuildIdx(c)]
        f == Final(c, st)
        h == o.hdr
    IN /\ Len(h) = HeaderV2
       /\ FieldV2(h, "baseOffset") = Zero8
       /\ FieldV2(h, "length") = Nat4(o.len - LogOverhead)
       /\ FieldV2(h, "leaderEpoch") = I32(0 - 1)
       /\ FieldV2(h, "magic") = <<2>>
       /\ o.codec \in {c.codec, 0}
       /\ FieldV2(h, "attributes") = I16(Attrs(o.codec, 0, c.txnl, 0))
       /\ FieldV2(h, "lastOffsetDelta") = I32(f.n - 1)
       /\ FieldV2(h, "firstTimestamp") = f.firstTs
       /\ FieldV2(h, "maxTimestamp") = f.maxTs
       /\ FieldV2(h, "producerId") = c.pid
       /\ FieldV2(h, "producerEpoch") = c.epoch
       /\ FieldV2(h, "baseSequence") = c.seq
       /\ FieldV2(h, "recordCount") = I32(f.n)
\* v0/v1: every message (or the wrapper) starts with its fixed fields
LegacyMsgOK(magic, m, off8, size, attrs, ts, klen, vlen) ==
  /\ SubSeq(m.fix, 1, 8) = off8
  /\ SubSeq(m.fix, 9, 12) = Nat4(size - LogOverhead)
  /\ m.fix[17] = magic /\ m.fix[18] = attrs
  /\ (magic = 1 /\ ts # <<>>) => SubSeq(m.fix, 19, 26) = ts
  /\ SubSeq(m.fix, KeyOff(magic) + 1, KeyOff(magic) + 4) = I32(klen)
  /\ m.vlf = I32(vlen)
EncHeaderLegacy(c, e, st) ==
  (BuildIdx(c) # 0 /\ c.magic # 2) =>
    LET o == e.obs[BuildIdx(c)]
        f == Final(c, st)
    IN IF c.codec = 0
       THEN /\ Len(o.msgs) = f.n
            /\ \A j \in 1..f.n :
                 LegacyMsgOK(c.magic, o.msgs[j], Nat8(j - 1), RecSizeLegacy(c.magic, f.hist[j]), 0,
                             f.hist[j].ts, f.hist[j].k, f.hist[j].v)
       ELSE /\ Len(o.msgs) = 1 /\ o.codec = c.codec
            /\ LegacyMsgOK(c.magic, o.msgs[1], Zero8, o.len, c.codec, <<>>, 0 - 1,
                           o.len - LogOverhead - (IF c.magic = 0 THEN OverheadV0 ELSE OverheadV1))

\* both implementations: identical bytes when uncompressed, identical record
\* section under compression
BytesIdentical(c) ==
  BuildIdx(c) # 0 => /\ c.same.inner_eq
                     /\ c.codec = 0 => c.same.bytes_eq

\* what each (encoder, decoder) pair read back
CodecBitsOf(c, d) == c.enc[d.e].obs[BuildIdx(c)].codec
DecRoundTrip(c, d, st) ==
  /\ d.err = ""
  /\ d.batches = ExpectedBatches(Wire(Final(c, st), c.post), CodecBitsOf(c, d))
  /\ ~d.has_next_end /\ d.next_none
  /\ c.magic = 2 => /\ d.pid = c.pid /\ d.epoch = c.epoch /\ d.seq = c.seq
DecCrc(c, d) == d.crc
DecFlip(c, d) == ~d.flip

ClauseNames == <<"decisions", "metadata", "size", "size_in_bytes", "build_len", "header",
                 "bytes_identical", "roundtrip", "crc", "crc_flip", "splitter">>

BuildClause(c, name) ==
  LET st == Run(CaseBuilder(c), c.ops, 1)
      E == DOMAIN c.enc
      D == DOMAIN c.dec
  IN CASE name = "decisions" -> \A x \in E : EncDecisions(c, c.enc[x], st)
       [] name = "metadata" -> \A x \in E : EncMetadata(c, c.enc[x], st)
       [] name = "size" -> \A x \in E : EncSize(c, c.enc[x], st)
       [] name = "size_in_bytes" -> \A x \in E : EncSizeInBytes(c, c.enc[x], st)
       [] name = "build_len" -> \A x \in E : EncBuildLen(c, c.enc[x], st)
       [] name = "header" -> \A x \in E : EncHeaderV2(c, c.enc[x], st) /\ EncHeaderLegacy(c, c.enc[x], st)
       [] name = "bytes_identical" -> BytesIdentical(c)
       [] name = "roundtrip" -> \A x \in D : DecRoundTrip(c, c.dec[x], st)
       [] name = "crc" -> \A x \in D : DecCrc(c, c.dec[x])
       [] name = "crc_flip" -> \A x \in D : DecFlip(c, c.dec[x])
       [] OTHER -> TRUE

\* --- "split" case: a concatenation of builds (+ partial tail) through one splitter
\* c.builds[j] = [magic, codec, txnl, recs, lens (observed slice lengths, used
\* for compressed batches only)]
BuildOf(p) ==
  LET st == Run(NewBuilder(p.magic, p.codec, p.txnl, 0, 1000000000),
                [j \in 1..Len(p.recs) |-> [op |-> "append", r |-> p.recs[j]]], 1)
  IN st[Len(p.recs) + 1]
PartLens(p) == IF p.codec # 0 THEN p.lens
               ELSE IF p.magic = 2 THEN << BuildOf(p).size >>
               ELSE RecSizes(p.magic, p.recs)
RECURSIVE Flatten(_, _)
Flatten(ss, j) == IF j > Len(ss) THEN <<>> ELSE ss[j] \o Flatten(ss, j + 1)
SplitInput(c) ==
  [parts |-> Flatten([j \in 1..Len(c.builds) |->
                        [x \in 1..Len(PartLens(c.builds[j])) |->
                           [magic |-> c.builds[j].magic, len |-> PartLens(c.builds[j])[x]]]], 1),
   cut |-> c.cut, cutOf |-> c.cutOf]
SplitExpected(c) ==
  Flatten([j \in 1..Len(c.builds) |->
             ExpectedBatches(Wire(BuildOf(c.builds[j]), NoPost), c.builds[j].codecbits)], 1)
SplitClause(c, name) ==
  name = "splitter" =>
    LET s == SplitInput(c)
        slices == SplitFrom(s, 0)
        exp == SplitExpected(c)
    IN /\ c.got.err = ""
       /\ Len(slices) = Len(exp)                              \* sanity of the case itself
       /\ Len(c.got.batches) = Len(slices)
       /\ \A j \in 1..Len(slices) :
            /\ c.got.batches[j].magic = slices[j].magic
            /\ c.got.batches[j].recs = exp[j].recs
            /\ c.got.batches[j].crc
       /\ ~c.got.has_next_end /\ c.got.next_none
       /\ c.got.size_in_bytes = Total(s)

Clause(c, name) == IF c.kind = "build" THEN BuildClause(c, name) ELSE SplitClause(c, name)

\* which clauses to evaluate: all, or the one named in C09_CLAUSE (diagnosis)
Wanted == IF Has(IOEnv, "C09_CLAUSE") /\ IOEnv.C09_CLAUSE # ""
          THEN {IOEnv.C09_CLAUSE} ELSE {ClauseNames[x] : x \in DOMAIN ClauseNames}
CaseOK(c) == \A name \in Wanted : Clause(c, name)

\* CONSTRAINT of the model-checking configurations: with C09_EXPORT_ONLY set
\* only the initial states are generated (the run just exports the configuration)
NotExportOnly == IF Has(IOEnv, "C09_EXPORT_ONLY") THEN mode = "export-only" ELSE TRUE

ASSUME TLCSet(1, {})
Collect == IF mode = "table"
           THEN (IF CaseOK(Cases[i]) THEN TRUE ELSE TLCSet(1, TLCGet(1) \cup {i}))
           ELSE TRUE
WriteVerdicts == IF TableMode THEN JsonSerialize(IOEnv.VERDICT_FILE, [n |-> NC, bad |-> TLCGet(1)])
                 ELSE IF Has(IOEnv, "C09_EXPORT")
                 THEN JsonSerialize(IOEnv.C09_EXPORT,
                        [alphabet |-> Alphabet, limits |-> Limits, maxAppends |-> MaxAppends,
                         magics |-> Magics, parts |-> PartAlphabet, maxParts |-> MaxParts])
                 ELSE TRUE

\* ---------------------------------------------------------------------------
\* alphabets of the model-checked configurations

MagicsAll == {0, 1, 2}
T0 == <<0, 0, 1, 125, 120, 127, 188, 0>>          \* 1 640 995 200 000 ms
R(k, v, h, ts) == [k |-> k, kd |-> 0, v |-> v, vd |-> 0, h |-> h, ts |-> ts]
H(k, v) == [k |-> k, kd |-> 0, v |-> v, vd |-> 0]
AlphabetQuick ==
  { R(0 - 1, 0, <<>>, T0),
    R(1, 63, << H(3, 0 - 1) >>, AddSmall8(T0, 1000)),
    R(64, 0 - 1, <<>>, Sub8(T0, Nat8(5))),
    R(0, 8191, << H(5, 2), H(64, 0) >>, <<0, 0, 1, 126, 120, 127, 188, 7>>) }
AlphabetThorough ==
  AlphabetQuick \cup
  { R(63, 64, <<>>, T0),
    R(8192, 1, << H(1, 63), H(2, 0 - 1), H(7, 64) >>, Sub8(T0, <<0, 0, 0, 1, 0, 0, 0, 0>>)) }
\* batch_size values: one below / at / one above the size of every batch of
\* up to `depth` records of the alphabet, plus a tiny and a huge one
Sizes1(A, bb) == {AppendF(bb, r).b.size : r \in A}
Sizes2(A, bb) == Sizes1(A, bb) \cup UNION {Sizes1(A, AppendF(bb, r).b) : r \in A}
Sizes3(A, bb) == Sizes1(A, bb) \cup UNION {Sizes2(A, AppendF(bb, r).b) : r \in A}
SizesOfSeqs(A, bb, depth) == IF depth = 2 THEN Sizes2(A, bb) ELSE Sizes3(A, bb)
Boundaries(A, depth) ==
  UNION {{s - 1, s, s + 1} : s \in UNION {SizesOfSeqs(A, NewBuilder(m, 0, 0, 0, 1000000000), depth) : m \in MagicsAll}}
LimitsQuick == Boundaries(AlphabetQuick, 2) \cup {1, 1000000000}
LimitsThorough == Boundaries(AlphabetThorough, 2) \cup {1, 1000000000}
PartsQuick == {[magic |-> 0, len |-> 26], [magic |-> 1, len |-> 40], [magic |-> 2, len |-> 68],
               [magic |-> 2, len |-> 130]}
=============================================================================
