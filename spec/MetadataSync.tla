---------------------------- MODULE MetadataSync ----------------------------
(***************************************************************************)
(* The metadata synchroniser of AIOKafkaClient (client.py 247-271, 333-376) *)
(* -- the component every other subsystem leans on when it says "refresh    *)
(* the metadata and try again".                                              *)
(*                                                                           *)
(*   _md_synchronizer:   W: await wait([_md_update_waiter], timeout=max_age) *)
(*                       U: topics = self._topics (a REFERENCE);             *)
(*                          if _md_update_fut is None: create it;            *)
(*                          await _metadata_update(topics)                   *)
(*                       D: if topics != self._topics: continue   (-> W)     *)
(*                          _md_update_waiter = new future                   *)
(*                          _md_update_fut.set_result(..); _md_update_fut = None *)
(*   force_metadata_update(): if _md_update_fut is None:                     *)
(*                               set _md_update_waiter; create _md_update_fut*)
(*                            return shield(_md_update_fut)                  *)
(*   add_topic(t):  force unless t is tracked; self._topics.add(t)  (in place)*)
(*   set_topics(T): force if T is empty or has a new topic;                  *)
(*                  self._topics = set(T)                        (new object)*)
(*                                                                           *)
(* State is what the code holds: which set OBJECT the client tracks and its  *)
(* value, whether the waiter future is done, whether an update future exists *)
(* and who awaits it, the loop's program counter and the reference it took.  *)
(* `Tick` is the periodic timeout of W; it is NOT fair (metadata_max_age is  *)
(* minutes): a caller that has to wait for it has been forgotten.            *)
(***************************************************************************)
EXTENDS Naturals, FiniteSets, TLC

CONSTANTS Callers, Topics, MaxObj,
          RearmOnRetry   \* FALSE: the code (a retry after a topic-list change goes back to W without touching the waiter)
                         \* TRUE : the repair -- the retry does not wait

VARIABLES
  obj,        \* identity of the set object the client tracks now
  val,        \* object -> set of topics it holds
  waiterDone, \* _md_update_waiter.done()
  fut,        \* "none" | "pending"     (_md_update_fut)
  awaiting,   \* callers awaiting the current update future
  pc,         \* "W" | "U"
  ref,        \* object the loop took its reference to (in U)
  asked,      \* topics the in-flight MetadataRequest names (value at the time the request was built)
  view,       \* topics whose metadata the cluster view holds
  want,       \* caller -> topics it asked to be tracked by the call it is waiting on ({} none)
  woken       \* how the loop left W the last time: "force" | "tick"

vars == <<obj, val, waiterDone, fut, awaiting, pc, ref, asked, view, want, woken>>

Init ==
  /\ obj = 1 /\ val = [o \in 1..MaxObj |-> {}]
  /\ waiterDone = FALSE /\ fut = "none" /\ awaiting = {}
  /\ pc = "W" /\ ref = 1 /\ asked = {} /\ view = {}
  /\ want = [c \in Callers |-> {}] /\ woken = "tick"

Idle(c) == c \notin awaiting

\* force_metadata_update() as called by c
ForceBy(c) ==
  /\ IF fut = "none" THEN waiterDone' = TRUE /\ fut' = "pending" ELSE UNCHANGED <<waiterDone, fut>>
  /\ awaiting' = awaiting \cup {c}

Force(c) ==
  /\ Idle(c) /\ ForceBy(c)
  /\ want' = [want EXCEPT ![c] = {}]
  /\ UNCHANGED <<obj, val, pc, ref, asked, view, woken>>

AddTopic(c, t) ==
  /\ Idle(c)
  /\ IF t \in val[obj]
     THEN UNCHANGED <<waiterDone, fut, awaiting, want>>
     ELSE ForceBy(c) /\ want' = [want EXCEPT ![c] = {t}]
  /\ val' = [val EXCEPT ![obj] = @ \cup {t}]                    \* in place: same object
  /\ UNCHANGED <<obj, pc, ref, asked, view, woken>>

SetTopics(c, T) ==
  /\ Idle(c) /\ obj < MaxObj
  /\ IF T = {} \/ T \ val[obj] # {}
     THEN ForceBy(c) /\ want' = [want EXCEPT ![c] = T]
     ELSE UNCHANGED <<waiterDone, fut, awaiting, want>>
  /\ obj' = obj + 1 /\ val' = [val EXCEPT ![obj + 1] = T]       \* a NEW set object
  /\ UNCHANGED <<pc, ref, asked, view, woken>>

\* W -> U
Wake(how) ==
  /\ pc = "W"
  /\ how = "force" => waiterDone
  /\ pc' = "U" /\ ref' = obj /\ asked' = val[obj] /\ woken' = how
  /\ fut' = "pending"                                           \* created if there was none
  /\ UNCHANGED <<obj, val, waiterDone, awaiting, view, want>>
WakeByForce == Wake("force")
Tick == ~waiterDone /\ Wake("tick")

\* the update returned (successfully or not: the bookkeeping is the same)
UpdateDone ==
  /\ pc = "U"
  /\ view' = asked
  /\ pc' = "W"
  /\ IF val[ref] # val[obj]                                     \* `topics != self._topics` (set VALUES; an in-place
                                                                 \* add_topic changes both sides: same object) ...
     THEN /\ waiterDone' = (IF RearmOnRetry THEN TRUE ELSE waiterDone)   \* ... "continue": straight back to W
          /\ UNCHANGED <<fut, awaiting, want>>
     ELSE /\ waiterDone' = FALSE
          /\ fut' = "none" /\ awaiting' = {}
          /\ want' = [c \in Callers |-> IF c \in awaiting THEN {} ELSE want[c]]
  /\ UNCHANGED <<obj, val, ref, asked, woken>>

Next ==
  \/ \E c \in Callers : Force(c) \/ (\E t \in Topics : AddTopic(c, t)) \/ (\E T \in SUBSET Topics : SetTopics(c, T))
  \/ WakeByForce \/ Tick \/ UpdateDone

Spec == Init /\ [][Next]_vars
\* the periodic tick is deliberately NOT fair
LiveSpec == Spec /\ WF_vars(WakeByForce) /\ WF_vars(UpdateDone)

TypeOK == pc \in {"W", "U"} /\ fut \in {"none", "pending"} /\ obj \in 1..MaxObj
\* somebody waits => an update future exists
WaitersHaveFuture == awaiting # {} => fut = "pending"
\* an update future exists while the loop sleeps => the loop WILL wake without the periodic timeout
NoForgottenWaiter == (pc = "W" /\ fut = "pending") => waiterDone
\* every force / add_topic / set_topics future resolves without help from the periodic tick
ForceResolves == \A c \in Callers : (c \in awaiting) ~> (c \notin awaiting)
=============================================================================
