---------------------------- MODULE ConsumerFetch ----------------------------
(***************************************************************************)
(* Fetch path of the aiokafka consumer:                                     *)
(*   TopicPartitionState (position / awaiting reset / paused),              *)
(*   Fetcher._fetch_requests_routine / _get_actions_per_node (what may be   *)
(*   fetched), _proc_fetch_request (a response is accepted only if the      *)
(*   position still equals the requested offset), FetchResult /             *)
(*   PartitionRecords (the buffered, lazily consumed response),             *)
(*   next_record / fetched_records (getone / getmany), seek / pause /       *)
(*   resume / seek_to_beginning / seek_to_end, _update_fetch_positions      *)
(*   (committed offset, else auto_offset_reset via ListOffsets),            *)
(* and the leader's Fetch / ListOffsets rules.                              *)
(*                                                                          *)
(* The partition log is a sequence of batches                               *)
(*   [base, last, offs (present offsets), kind "data"|"commit"|"abort",     *)
(*    pid, txnl]                                                            *)
(* and visibility is DECLARATIVE (VisibleSet): the oracle for C03, C08,     *)
(* C13.  IsolationFilter.tla proves that the code's step-by-step filter     *)
(* computes exactly this set on every fetch response.                       *)
(***************************************************************************)
EXTENDS Naturals, Integers, Sequences, FiniteSets, TLC, SequencesExt, Functions

CONSTANTS Parts

None == -1

VARIABLES
  log,        \* p -> Seq(batch)                                   (cluster truth)
  hw,         \* p -> high watermark
  iso,        \* 0 read_uncommitted | 1 read_committed
  policy,     \* "earliest" | "latest" | "none"   (auto_offset_reset)
  committed,  \* p -> committed offset of the group, or None
  pos,        \* p -> position, or None
  rst,        \* p -> "none" | "earliest" | "latest": awaiting reset with this strategy
  fresh,      \* p -> TRUE until the partition got its first position after assignment
  paused,     \* p -> BOOLEAN
  buf,        \* p -> <<>> | [nfo, q, end]: buffered response (see Take)
  resp,       \* p -> <<>> | [f, i, j]: fetch response on its way to the consumer
  start,      \* p -> offset delivery (re)started from: last seek target / reset result  (history)
  delivered,  \* p -> Seq(offset) handed to the application since `start`                (history)
  err,        \* p -> "" | error raised to the caller for p
  asked       \* p -> strategies a ListOffsets lookup was (or may still be) in flight for

vars == <<log, hw, iso, policy, committed, pos, rst, fresh, paused, buf, resp, start, delivered, err, asked>>

\* ---- the log and its declarative visibility ----------------------------------------
LogStart(p) == IF log[p] = <<>> THEN 0 ELSE log[p][1].base
Leo(p) == IF log[p] = <<>> THEN 0 ELSE Last(log[p]).last + 1

\* outcome of the transaction batch i of p belongs to: the first marker of its pid after it
MarkerAfter(p, i) ==
  LET js == {j \in (i + 1)..Len(log[p]) : log[p][j].kind # "data" /\ log[p][j].pid = log[p][i].pid}
  IN IF js = {} THEN "open" ELSE log[p][CHOOSE j \in js : \A k \in js : j <= k].kind

\* last stable offset: first offset of the earliest transaction still open, else hw
OpenFirsts(p) == {log[p][i].base : i \in {i \in 1..Len(log[p]) :
                    log[p][i].kind = "data" /\ log[p][i].txnl /\ MarkerAfter(p, i) = "open"}}
Lso(p) == LET o == OpenFirsts(p) IN
          IF o = {} THEN hw[p] ELSE LET m == CHOOSE x \in o : \A y \in o : x <= y IN IF m < hw[p] THEN m ELSE hw[p]
Bound(p) == IF iso = 1 THEN Lso(p) ELSE hw[p]

\* offsets the application must see, at the consumer's isolation level
BatchVisible(p, i) ==
  /\ log[p][i].kind = "data"
  /\ log[p][i].last < Bound(p)
  /\ (iso = 1 /\ log[p][i].txnl) => MarkerAfter(p, i) = "commit"
VisibleSet(p) == UNION {log[p][i].offs : i \in {i \in 1..Len(log[p]) : BatchVisible(p, i)}}
VisibleFrom(p, s) == SetToSortSeq({o \in VisibleSet(p) : o >= s}, <)

\* ---- leader: Fetch and ListOffsets (Kafka's rules) ----------------------------------------
\* batches a response to Fetch(p, f) may carry: from the batch containing f, any number
\* (>= 1) of consecutive batches entirely below the bound
FirstIdx(p, f) == {i \in 1..Len(log[p]) : log[p][i].last >= f /\ \A k \in 1..(i - 1) : log[p][k].last < f}
Fetchable(p, f) == {i \in 1..Len(log[p]) : log[p][i].last >= f /\ log[p][i].last < Bound(p)}
OutOfRange(p, f) == f < LogStart(p) \/ f > Leo(p)
ResetTarget(p, s) == IF s = "earliest" THEN LogStart(p) ELSE Bound(p)

\* what the consumer must make of a response [f, i..j]: offsets to yield, in order
BatchVisibleIn(p, k) ==
  /\ log[p][k].kind = "data"
  /\ (iso = 1 /\ log[p][k].txnl) => MarkerAfter(p, k) = "commit"
Yield(p, f, i, j) ==
  SetToSortSeq({o \in UNION {log[p][k].offs : k \in {k \in i..j : BatchVisibleIn(p, k)}} : o >= f}, <)

\* ---- initial state -------------------------------------------------------------------------
InitWith(lg, h, is, pol, com) ==
  /\ log = lg /\ hw = h /\ iso = is /\ policy = pol /\ committed = com
  /\ pos = [p \in Parts |-> None]
  /\ rst = [p \in Parts |-> "none"]
  /\ fresh = [p \in Parts |-> TRUE]
  /\ paused = [p \in Parts |-> FALSE]
  /\ buf = [p \in Parts |-> <<>>]
  /\ resp = [p \in Parts |-> <<>>]
  /\ start = [p \in Parts |-> None]
  /\ delivered = [p \in Parts |-> <<>>]
  /\ err = [p \in Parts |-> ""]
  /\ asked = [p \in Parts |-> {}]

Restart(p, o) == /\ start' = [start EXCEPT ![p] = o]
                 /\ delivered' = [delivered EXCEPT ![p] = <<>>]

\* ---- position management (C13) ------------------------------------------------------------------
\* _update_fetch_positions, first half: a freshly assigned partition takes the group's
\* committed offset if there is one ...
UseCommitted(p) ==
  /\ fresh[p] /\ pos[p] = None /\ rst[p] = "none" /\ committed[p] # None
  /\ pos' = [pos EXCEPT ![p] = committed[p]]
  /\ fresh' = [fresh EXCEPT ![p] = FALSE]
  /\ Restart(p, committed[p])
  /\ UNCHANGED <<asked, log, hw, iso, policy, committed, rst, paused, buf, resp, err>>

\* ... otherwise follows auto_offset_reset
NoCommitted(p) ==
  /\ fresh[p] /\ pos[p] = None /\ rst[p] = "none" /\ committed[p] = None
  /\ IF policy = "none"
     THEN /\ err' = [err EXCEPT ![p] = "NoOffsetForPartitionError"]
          /\ UNCHANGED rst
     ELSE /\ rst' = [rst EXCEPT ![p] = policy]
          /\ UNCHANGED err
  /\ asked' = [asked EXCEPT ![p] = IF policy = "none" THEN @ ELSE @ \cup {policy}]
  /\ fresh' = [fresh EXCEPT ![p] = FALSE]
  /\ UNCHANGED <<log, hw, iso, policy, committed, pos, paused, buf, resp, start, delivered>>

\* TopicPartitionState.await_reset: seek_to_beginning/end, or OFFSET_OUT_OF_RANGE
AwaitReset(p, s) ==
  /\ pos' = [pos EXCEPT ![p] = None]
  /\ rst' = [rst EXCEPT ![p] = s]
  /\ asked' = [asked EXCEPT ![p] = @ \cup {s}]
  /\ fresh' = [fresh EXCEPT ![p] = FALSE]
  /\ UNCHANGED <<log, hw, iso, policy, committed, paused, buf, resp, start, delivered, err>>

\* ListOffsets reply applied (reset_to) -- only if still awaiting a reset.  Named deviation
\* from the ideal: the reply is not matched to the strategy it was requested for, so the
\* result of an earlier lookup (e.g. the initial "earliest" reset still in flight when the
\* application calls seek_to_end()) can be applied to a later reset with another strategy.
\* C13 only speaks about an explicit seek(), which always wins (Seek).
ApplyReset(p, o) ==
  /\ rst[p] # "none"
  /\ \E s \in asked[p] : o = ResetTarget(p, s)
  /\ pos' = [pos EXCEPT ![p] = o]
  /\ rst' = [rst EXCEPT ![p] = "none"]
  /\ Restart(p, o)
  /\ UNCHANGED <<asked, log, hw, iso, policy, committed, fresh, paused, buf, resp, err>>

\* consumer.seek(): always wins; drops the buffer
Seek(p, o) ==
  /\ pos' = [pos EXCEPT ![p] = o]
  /\ rst' = [rst EXCEPT ![p] = "none"]
  /\ fresh' = [fresh EXCEPT ![p] = FALSE]
  /\ buf' = [buf EXCEPT ![p] = <<>>]
  /\ Restart(p, o)
  \* C13 "an explicit seek() always takes precedence": an error parked for the position the consumer just left
  \* (NoOffsetForPartition / OffsetOutOfRange under policy none) is dropped with the buffer
  /\ err' = [err EXCEPT ![p] = ""]
  /\ UNCHANGED <<asked, log, hw, iso, policy, committed, paused, resp>>

Pause(p) == paused' = [paused EXCEPT ![p] = TRUE]
            /\ UNCHANGED <<asked, log, hw, iso, policy, committed, pos, rst, fresh, buf, resp, start, delivered, err>>
Resume(p) == paused' = [paused EXCEPT ![p] = FALSE]
             /\ UNCHANGED <<asked, log, hw, iso, policy, committed, pos, rst, fresh, buf, resp, start, delivered, err>>

\* ---- fetching ------------------------------------------------------------------------------------------
\* _get_actions_per_node + leader reply in one step: a Fetch for p at the current position is
\* answered with batches i..j (or nothing yet) -- the response travels in `resp`
FetchOK(p, i, j) ==
  /\ pos[p] # None /\ ~paused[p] /\ buf[p] = <<>> /\ resp[p] = <<>>
  /\ ~OutOfRange(p, pos[p])
  /\ i \in FirstIdx(p, pos[p]) /\ i <= j /\ (i..j) \subseteq Fetchable(p, pos[p])
  /\ resp' = [resp EXCEPT ![p] = [f |-> pos[p], i |-> i, j |-> j]]
  /\ UNCHANGED <<asked, log, hw, iso, policy, committed, pos, rst, fresh, paused, buf, start, delivered, err>>

\* OFFSET_OUT_OF_RANGE reply: reset per policy, or error to the caller
FetchOutOfRange(p) ==
  /\ pos[p] # None /\ ~paused[p] /\ buf[p] = <<>> /\ resp[p] = <<>>
  /\ OutOfRange(p, pos[p])
  /\ IF policy = "none"
     THEN /\ err' = [err EXCEPT ![p] = "OffsetOutOfRangeError"]
          /\ UNCHANGED <<pos, rst>>
     ELSE /\ pos' = [pos EXCEPT ![p] = None]
          /\ rst' = [rst EXCEPT ![p] = policy]
          /\ UNCHANGED err
  /\ asked' = [asked EXCEPT ![p] = IF policy = "none" THEN @ ELSE @ \cup {policy}]
  /\ UNCHANGED <<log, hw, iso, policy, committed, fresh, paused, buf, resp, start, delivered>>

\* _proc_fetch_request: accepted only if the position is still the requested offset
ProcResponse(p) ==
  /\ resp[p] # <<>>
  /\ IF pos[p] = resp[p].f
     THEN buf' = [buf EXCEPT ![p] = [nfo |-> resp[p].f,
                                     q |-> Yield(p, resp[p].f, resp[p].i, resp[p].j),
                                     end |-> log[p][resp[p].j].last + 1]]
     ELSE UNCHANGED buf
  /\ resp' = [resp EXCEPT ![p] = <<>>]
  /\ UNCHANGED <<asked, log, hw, iso, policy, committed, pos, rst, fresh, paused, start, delivered, err>>

\* ---- handing records to the application ---------------------------------------------------------------
\* buf[p] = [nfo, q, end]: next_fetch_offset of the lazy iterator, offsets it will still
\* yield, and the offset after the last batch of the response
\* take up to n records of the buffered response of p (getone: n = 1)
Take(p, n) ==
  /\ buf[p] # <<>> /\ ~paused[p] /\ pos[p] = buf[p].nfo /\ n >= 1
  /\ LET k == IF Len(buf[p].q) < n THEN Len(buf[p].q) ELSE n
         out == SubSeq(buf[p].q, 1, k)
         rest == SubSeq(buf[p].q, k + 1, Len(buf[p].q))
         exhausted == Len(buf[p].q) < n
         np == IF exhausted THEN buf[p].end ELSE out[k] + 1
     IN /\ delivered' = [delivered EXCEPT ![p] = @ \o out]
        /\ pos' = [pos EXCEPT ![p] = np]
        /\ buf' = [buf EXCEPT ![p] = IF exhausted THEN <<>> ELSE [@ EXCEPT !.q = rest, !.nfo = np]]
  /\ UNCHANGED <<asked, log, hw, iso, policy, committed, rst, fresh, paused, resp, start, err>>

\* FetchResult.check_assignment: a buffer whose partition is paused, or whose position is no
\* longer the iterator's next_fetch_offset, is thrown away without delivering anything
DropBuffer(p) ==
  /\ buf[p] # <<>> /\ (paused[p] \/ pos[p] # buf[p].nfo)
  /\ buf' = [buf EXCEPT ![p] = <<>>]
  /\ UNCHANGED <<asked, log, hw, iso, policy, committed, pos, rst, fresh, paused, resp, start, delivered, err>>

\* ===========================================================================
\* Properties
\* ===========================================================================
IsPrefixOf(s, t) == Len(s) <= Len(t) /\ \A i \in 1..Len(s) : s[i] = t[i]

\* C03/C08: exactly the visible records from the start position, once, in offset order
ExactlyVisibleOnceInOrder ==
  \A p \in Parts : start[p] # None => IsPrefixOf(delivered[p], VisibleFrom(p, start[p]))

\* C03: position never behind one past the last returned record, never ahead of a
\* visible record that has not been returned
PositionBounds ==
  \A p \in Parts : (pos[p] # None /\ start[p] # None) =>
    /\ delivered[p] # <<>> => pos[p] >= Last(delivered[p]) + 1
    /\ \A o \in VisibleSet(p) : (o >= start[p] /\ o < pos[p]) => o \in Range(delivered[p])

\* C13: a partition's first position is the committed offset when one exists (checked by
\* the action guards of UseCommitted / NoCommitted / ApplyReset) and the position is
\* always inside what the log can serve or about to be reset
StartIsLegal ==
  \A p \in Parts : start[p] # None => start[p] >= 0

NoErrorUnlessPolicyNone == \A p \in Parts : err[p] # "" => policy = "none"

\* the consumer never stalls below the end: whenever a position is set and nothing is
\* buffered, either the position is at/after the bound or a fetch makes progress
\* nothing more can be fetched for p at its position
AtEnd(p) == pos[p] # None /\ Fetchable(p, pos[p]) = {}
=============================================================================
