SPECIFICATION Spec
CONSTANTS
  Alphabet <- AlphabetThorough
  Limits <- LimitsThorough
  MaxAppends = 3
  Magics <- MagicsAll
  PartAlphabet <- PartsQuick
  MaxParts = 4
  TableMode = FALSE
INVARIANT C09_RecordBatchFormat
PROPERTY ClosedIsFinal
CONSTRAINT NotExportOnly
POSTCONDITION WriteVerdicts
CHECK_DEADLOCK FALSE
