----------------------------- MODULE TxnProducer -----------------------------
(***************************************************************************)
(* Transactional producer of aiokafka:                                       *)
(*   TransactionManager (state machine, pending partitions / offsets),       *)
(*   AIOKafkaProducer transactional API guards (producer.py 576-625),        *)
(*   Sender._maybe_do_transactional_request priority order and the handlers  *)
(*   AddPartitionsToTxn / AddOffsetsToTxn / TxnOffsetCommit / EndTxn         *)
(*   (sender.py), flush_for_commit,                                          *)
(* against Kafka's transaction coordinator (Ongoing / PrepareCommit /        *)
(* PrepareAbort, asynchronous markers, CONCURRENT_TRANSACTIONS window,       *)
(* epoch fencing) and the partition leaders.                                 *)
(*                                                                           *)
(* API calls are actions that either take effect or RAISE; a raising call    *)
(* changes nothing (UNCHANGED all variables but the call log).               *)
(* Sender actions follow the fixed priority: add partitions > add offsets >  *)
(* commit offsets > end transaction.                                         *)
(***************************************************************************)
EXTENDS Naturals, Integers, Sequences, FiniteSets, TLC, SequencesExt, Functions

CONSTANTS Parts, MaxTxn, MaxSend

VARIABLES
  \* ---- client -------------------------------------------------------------------
  ts,        \* TransactionState: "READY" "IN_TXN" "COMMITTING" "ABORTING" "ABORTABLE" "FATAL"
  txn,       \* number of the current / last transaction (0: none yet)
  pend,      \* _pending_txn_partitions
  added,     \* _txn_partitions (acknowledged by the coordinator)
  offQ,      \* a send_offsets_to_transaction batch waiting: "none" | "queued" | "groupAdded"
  hasGroup,  \* _txn_consumer_group is set
  queued,    \* partition -> records accepted by send() and not yet written (set of <<txn, k>>)
  inflight,  \* partition -> records written to the leader, reply not yet handled
  nsent,     \* records accepted in the current transaction (bounded by MaxSend)
  \* ---- coordinator ---------------------------------------------------------------------
  cs,        \* "Empty" | "Ongoing" | "PrepareCommit" | "PrepareAbort"
  cparts,    \* partitions added to the open transaction
  cgroup,    \* group added to the open transaction
  markers,   \* partitions still waiting for their marker
  gmarker,   \* group marker still to be written
  epochOK,   \* FALSE once another instance fenced this producer
  \* ---- cluster --------------------------------------------------------------------------
  log,       \* partition -> Seq([k |-> "data", r |-> <<txn,k>>] | [k |-> "commit"|"abort", t |-> txn])
  pendOff,   \* transactional offsets pending at the group coordinator: 0 none | txn number
  goff,      \* committed group offset = number of the transaction whose offsets were committed (0 none)
  \* ---- history ----------------------------------------------------------------------------
  outcome,   \* txn -> "open" | "committed" | "aborted" | "failed"
  accepted,  \* txn -> set of records whose send() was accepted
  sentOff,   \* txn -> BOOLEAN: send_offsets_to_transaction returned successfully in it
  bad        \* protocol-order violations observed (set of strings)

vars == <<ts, txn, pend, added, offQ, hasGroup, queued, inflight, nsent, cs, cparts, cgroup, markers, gmarker,
          epochOK, log, pendOff, goff, outcome, accepted, sentOff, bad>>
client == <<ts, txn, pend, added, offQ, hasGroup, queued, inflight, nsent>>
coord == <<cs, cparts, cgroup, markers, gmarker, epochOK>>
hist == <<outcome, accepted, sentOff, bad>>

Upd(f, k, v) == [x \in DOMAIN f \cup {k} |-> IF x = k THEN v ELSE f[x]]

Init ==
  /\ ts = "READY" /\ txn = 0 /\ pend = {} /\ added = {} /\ offQ = "none" /\ hasGroup = FALSE
  /\ queued = [p \in Parts |-> {}] /\ inflight = [p \in Parts |-> {}] /\ nsent = 0
  /\ cs = "Empty" /\ cparts = {} /\ cgroup = FALSE /\ markers = {} /\ gmarker = FALSE /\ epochOK = TRUE
  /\ log = [p \in Parts |-> <<>>] /\ pendOff = 0 /\ goff = 0
  /\ outcome = <<>> /\ accepted = <<>> /\ sentOff = <<>> /\ bad = {}

\* ---------------------------------------------------------------------------
\* API (each call: legal -> effect, else raises with no effect)
\* ---------------------------------------------------------------------------
Begin ==
  /\ ts = "READY" /\ txn < MaxTxn
  /\ ts' = "IN_TXN" /\ txn' = txn + 1 /\ nsent' = 0
  /\ outcome' = Upd(outcome, txn + 1, "open")
  /\ accepted' = Upd(accepted, txn + 1, {})
  /\ sentOff' = Upd(sentOff, txn + 1, FALSE)
  /\ UNCHANGED <<pend, added, offQ, hasGroup, queued, inflight, coord, log, pendOff, goff, bad>>

\* send(): accepted only inside a transaction; the partition is queued for AddPartitionsToTxn
Send(p) ==
  /\ ts = "IN_TXN" /\ nsent < MaxSend
  /\ LET r == <<txn, nsent + 1>> IN
     /\ queued' = [queued EXCEPT ![p] = @ \cup {r}]
     /\ accepted' = [accepted EXCEPT ![txn] = @ \cup {r}]
  /\ nsent' = nsent + 1
  /\ pend' = IF p \in added THEN pend ELSE pend \cup {p}
  /\ UNCHANGED <<ts, txn, added, offQ, hasGroup, inflight, coord, log, pendOff, goff, outcome, sentOff, bad>>

SendOffsets ==
  /\ ts = "IN_TXN" /\ offQ = "none"
  /\ offQ' = "queued"
  /\ UNCHANGED <<ts, txn, pend, added, hasGroup, queued, inflight, nsent, coord, log, pendOff, goff, hist>>

Commit ==
  /\ ts = "IN_TXN"
  /\ ts' = "COMMITTING"
  /\ UNCHANGED <<txn, pend, added, offQ, hasGroup, queued, inflight, nsent, coord, log, pendOff, goff, hist>>

Abort ==
  /\ ts \in {"IN_TXN", "ABORTABLE"}
  /\ ts' = "ABORTING"
  /\ UNCHANGED <<txn, pend, added, offQ, hasGroup, queued, inflight, nsent, coord, log, pendOff, goff, hist>>

\* which calls raise in which state (C16): everything not enabled above
Legal(call) ==
  CASE call = "begin" -> ts = "READY"
    [] call = "send" -> ts = "IN_TXN"
    [] call = "send_offsets" -> ts = "IN_TXN"
    [] call = "commit" -> ts = "IN_TXN"
    [] call = "abort" -> ts \in {"IN_TXN", "ABORTABLE"}

\* ---------------------------------------------------------------------------
\* sender: transactional requests in priority order
\* ---------------------------------------------------------------------------
Active == ts \in {"IN_TXN", "COMMITTING", "ABORTING", "ABORTABLE"}

\* AddPartitionsToTxn acknowledged by the coordinator
AddPartitions ==
  /\ Active /\ pend # {} /\ epochOK /\ cs \in {"Empty", "Ongoing"}
  /\ added' = added \cup pend /\ pend' = {}
  /\ cs' = "Ongoing" /\ cparts' = cparts \cup pend
  /\ UNCHANGED <<ts, txn, offQ, hasGroup, queued, inflight, nsent, cgroup, markers, gmarker, epochOK, log, pendOff, goff, hist>>

\* retriable answers (CONCURRENT_TRANSACTIONS while markers are in flight, coordinator moved,
\* load in progress, timeouts) leave everything as it is: modelled by not taking a step

\* abortable error (TOPIC_AUTHORIZATION_FAILED / GROUP_AUTHORIZATION_FAILED).  INTENDED design (as in
\* the Java client): the partitions already added stay part of the transaction so that the abort
\* that must follow sends EndTxn(abort); what was queued for the partitions that could not be
\* added is failed, never written.  (The code deviates: error_transaction() clears
\* _txn_partitions and the pending set -- see known finding C07-abortable-error.)
AbortableError ==
  /\ ts = "IN_TXN" /\ (pend # {} \/ offQ # "none")
  /\ ts' = "ABORTABLE"
  /\ queued' = [p \in Parts |-> IF p \in pend THEN {} ELSE queued[p]]
  /\ pend' = {} /\ offQ' = "none"
  /\ outcome' = [outcome EXCEPT ![txn] = "failed"]
  /\ UNCHANGED <<txn, added, hasGroup, inflight, nsent, coord, log, pendOff, goff, accepted, sentOff, bad>>

\* fatal error: fenced by a newer instance (INVALID_PRODUCER_EPOCH) at any transactional request
Fenced ==
  /\ ~epochOK /\ ts # "FATAL"
  /\ ts' = "FATAL"
  /\ pend' = {} /\ added' = {} /\ hasGroup' = FALSE /\ offQ' = "none"
  /\ queued' = [p \in Parts |-> {}]                 \* fail_all: pending sends fail
  /\ outcome' = IF txn \in DOMAIN outcome /\ outcome[txn] = "open" THEN [outcome EXCEPT ![txn] = "failed"] ELSE outcome
  /\ UNCHANGED <<txn, inflight, nsent, coord, log, pendOff, goff, accepted, sentOff, bad>>

\* a new instance with the same transactional id initialises: epoch bump, open transaction aborted
NewInstance ==
  /\ epochOK
  /\ epochOK' = FALSE
  /\ IF cs = "Ongoing"
     THEN /\ cs' = "PrepareAbort" /\ markers' = cparts /\ gmarker' = cgroup
     ELSE UNCHANGED <<cs, markers, gmarker>>
  /\ UNCHANGED <<client, cparts, cgroup, log, pendOff, goff, hist>>

AddOffsets ==
  /\ Active /\ pend = {} /\ offQ = "queued" /\ ~hasGroup /\ epochOK /\ cs \in {"Empty", "Ongoing"}
  /\ hasGroup' = TRUE /\ offQ' = "groupAdded"
  /\ cs' = "Ongoing" /\ cgroup' = TRUE
  /\ UNCHANGED <<ts, txn, pend, added, queued, inflight, nsent, cparts, markers, gmarker, epochOK, log, pendOff, goff, hist>>

TxnOffsetCommit ==
  /\ Active /\ pend = {} /\ hasGroup /\ offQ \in {"queued", "groupAdded"} /\ epochOK
  /\ offQ' = "none"
  /\ pendOff' = txn
  /\ sentOff' = [sentOff EXCEPT ![txn] = TRUE]
  /\ UNCHANGED <<ts, txn, pend, added, hasGroup, queued, inflight, nsent, coord, log, goff, outcome, accepted, bad>>

\* produce: a queued batch of p goes to the leader -- only once p was acknowledged (muted until then)
Produce(p) ==
  /\ Active /\ queued[p] # {} /\ p \notin pend /\ inflight[p] = {} /\ epochOK
  /\ inflight' = [inflight EXCEPT ![p] = queued[p]]
  /\ queued' = [queued EXCEPT ![p] = {}]
  /\ log' = [log EXCEPT ![p] = @ \o SetToSeq({[k |-> "data", r |-> r] : r \in queued[p]})]
  /\ bad' = bad \cup (IF p \in cparts /\ cs = "Ongoing" THEN {} ELSE {"ProduceOnlyAfterAdded"})
  /\ UNCHANGED <<ts, txn, pend, added, offQ, hasGroup, nsent, coord, pendOff, goff, outcome, accepted, sentOff>>

Ack(p) ==
  /\ inflight[p] # {}
  /\ inflight' = [inflight EXCEPT ![p] = {}]
  /\ UNCHANGED <<ts, txn, pend, added, offQ, hasGroup, queued, nsent, coord, log, pendOff, goff, hist>>

Unacked == \E p \in Parts : queued[p] # {} \/ inflight[p] # {}

\* _do_txn_commit: after flush_for_commit; an empty transaction completes locally
EndTxn ==
  /\ ts \in {"COMMITTING", "ABORTING"} /\ pend = {} /\ offQ = "none" /\ ~Unacked /\ epochOK
  /\ IF added = {} /\ ~hasGroup
     THEN /\ UNCHANGED <<cs, markers, gmarker>>
     ELSE /\ cs = "Ongoing"
          /\ cs' = IF ts = "COMMITTING" THEN "PrepareCommit" ELSE "PrepareAbort"
          /\ markers' = cparts /\ gmarker' = cgroup
  /\ outcome' = [outcome EXCEPT ![txn] = IF ts = "COMMITTING" /\ @ = "open" THEN "committed"
                                          ELSE IF @ = "open" THEN "aborted" ELSE @]
  /\ ts' = "READY"
  /\ added' = {} /\ hasGroup' = FALSE
  /\ UNCHANGED <<txn, pend, offQ, queued, inflight, nsent, cparts, cgroup, epochOK, log, pendOff, goff, accepted, sentOff, bad>>

\* coordinator writes the markers, one partition at a time, then the group's
WriteMarker(p) ==
  /\ cs \in {"PrepareCommit", "PrepareAbort"} /\ p \in markers
  /\ log' = [log EXCEPT ![p] = Append(@, [k |-> IF cs = "PrepareCommit" THEN "commit" ELSE "abort", t |-> txn])]
  /\ markers' = markers \ {p}
  /\ UNCHANGED <<client, cs, cparts, cgroup, gmarker, epochOK, pendOff, goff, hist>>

GroupMarker ==
  /\ cs \in {"PrepareCommit", "PrepareAbort"} /\ gmarker
  /\ goff' = IF cs = "PrepareCommit" /\ pendOff # 0 THEN pendOff ELSE goff
  /\ pendOff' = 0
  /\ gmarker' = FALSE
  /\ UNCHANGED <<client, cs, cparts, cgroup, markers, epochOK, log, hist>>

Complete ==
  /\ cs \in {"PrepareCommit", "PrepareAbort"} /\ markers = {} /\ ~gmarker
  /\ cs' = "Empty" /\ cparts' = {} /\ cgroup' = FALSE
  /\ UNCHANGED <<client, markers, gmarker, epochOK, log, pendOff, goff, hist>>

\* ===========================================================================
\* Properties
\* ===========================================================================
\* C07: never writes to a partition before the coordinator acknowledged adding it, never writes
\* transactional data outside an open transaction
ProtocolOrder == bad = {}

\* C07: never ends a transaction while one of its batches is unacknowledged
NoEndWhileUnacked ==
  epochOK => \A p \in Parts : \A r \in queued[p] \cup inflight[p] : outcome[r[1]] \notin {"committed", "aborted"}

\* read-committed view: a data record is visible iff the next marker after it in its partition is a commit
MarkerAfter(p, i) ==
  LET js == {j \in (i + 1)..Len(log[p]) : log[p][j].k # "data"} IN
  IF js = {} THEN "open" ELSE log[p][CHOOSE j \in js : \A x \in js : j <= x].k
VisibleRC == UNION {{log[p][i].r : i \in {i \in 1..Len(log[p]) : log[p][i].k = "data" /\ MarkerAfter(p, i) = "commit"}} : p \in Parts}
Quiet == cs = "Empty" /\ ~Unacked

\* C07 atomicity: all effects of a committed transaction, none of an aborted / failed one
Atomicity ==
  Quiet => \A n \in DOMAIN outcome :
     /\ outcome[n] = "committed" => accepted[n] \subseteq VisibleRC
     /\ outcome[n] \in {"aborted", "failed"} => accepted[n] \cap VisibleRC = {}
NoPartial == \A n \in DOMAIN outcome : outcome[n] \in {"aborted", "failed"} => (Quiet => accepted[n] \cap VisibleRC = {})
OffsetsAtomic == Quiet => (goff # 0 => (goff \in DOMAIN outcome /\ outcome[goff] = "committed" /\ sentOff[goff]))

\* C16: FATAL is final
FatalIsFinal == ts = "FATAL" => (pend = {} /\ added = {} /\ offQ = "none")
=============================================================================
