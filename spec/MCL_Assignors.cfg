SPECIFICATION SpecRef
CONSTANTS
 MaxMembers = 3
 MaxTopics = 2
 MaxParts = 3
 MaxNew = 2
INVARIANT InvValid
INVARIANT InvRangeBalanced
INVARIANT InvRRBalanced
INVARIANT InvStickyBalanced
INVARIANT InvUnchanged
INVARIANT InvDeparted
INVARIANT InvNewMembers
INVARIANT NotStuck
CHECK_DEADLOCK FALSE
