----------------------------- MODULE WireTypes -----------------------------
(* C11: the primitive codecs of the Kafka wire protocol as operators to      *)
(* byte sequences Seq(0..255), and their inverses.                           *)
(*                                                                           *)
(* TLC integers are 32 bit, so an integer value travels as sign + magnitude: *)
(*     [neg |-> BOOLEAN, mag |-> little-endian byte tuple without trailing   *)
(*      zero bytes]            (zero is [neg |-> FALSE, mag |-> <<>>])        *)
(* and all arithmetic below is byte / bit arithmetic.  Other values:         *)
(*   nullable things (string, bytes, array)  <<>> = null, <<payload>> else   *)
(*   string / bytes payload                  tuple of bytes (UTF-8 is done   *)
(*                                           by the harness, trusted)        *)
(*   array payload                           tuple of element values         *)
(*   struct                                  tuple of field values           *)
(*   boolean                                 TRUE / FALSE                    *)
(*   tagged fields                           tuple of <<tag, bytes>>, tag an *)
(*                                           integer value as above          *)
(*   float64                                 its 8 IEEE bytes (opaque)       *)
(* A type is a record [k |-> kind] (+ of |-> element type for "a"/"ca",      *)
(* f |-> tuple of field types for "s").  Enc(t, v) is the wire form,         *)
(* Dec(t, s, p) reads a value of type t at position p of s and returns       *)
(* [v |-> value, p |-> next position].                                       *)
(*                                                                           *)
(* Layout rules (Kafka protocol guide, "Protocol Primitive Types"):          *)
(*   INT8/16/32/64  big-endian two's complement                              *)
(*   UINT32         big-endian                                               *)
(*   UNSIGNED_VARINT  base-128 little-endian groups, bit 7 = continuation    *)
(*   VARINT/VARLONG   zig-zag ((n << 1) ^ (n >> 31|63)) then UNSIGNED_VARINT *)
(*   (NULLABLE_)STRING  INT16 length (-1 = null) + bytes                     *)
(*   COMPACT_(NULLABLE_)STRING  UNSIGNED_VARINT length+1 (0 = null) + bytes  *)
(*   (NULLABLE_)BYTES INT32 length / COMPACT: UNSIGNED_VARINT length+1       *)
(*   ARRAY  INT32 count (-1 = null) / COMPACT_ARRAY UNSIGNED_VARINT count+1  *)
(*   TAGGED_FIELDS  UNSIGNED_VARINT count, then per field                    *)
(*                  UNSIGNED_VARINT tag, UNSIGNED_VARINT size, size bytes    *)
(*   request header v1  api_key INT16, api_version INT16, correlation INT32, *)
(*                      client_id NULLABLE_STRING;  v2 = v1 + TAGGED_FIELDS  *)
(*   response header v0 correlation INT32;  v1 = v0 + TAGGED_FIELDS          *)
(***************************************************************************)
EXTENDS Naturals, Sequences, FiniteSets, TLC

\* ---------------------------------------------------------------- helpers
\* TLC keeps [i \in S |-> e] as an unevaluated lambda and re-evaluates e at
\* every application; concatenation forces it into a concrete tuple once
Sq(f) == f \o <<>>
Rev(s) == Sq([i \in 1..Len(s) |-> s[Len(s) + 1 - i]])
Pad(m, n) == Sq([i \in 1..n |-> IF i <= Len(m) THEN m[i] ELSE 0])
RECURSIVE Strip(_)
Strip(m) == IF Len(m) > 0 /\ m[Len(m)] = 0 THEN Strip(SubSeq(m, 1, Len(m) - 1)) ELSE m
RECURSIVE Flatten(_)
Flatten(ss) == IF Len(ss) = 0 THEN <<>> ELSE Head(ss) \o Flatten(Tail(ss))

\* ------------------------------------------- integers as sign + magnitude
I(neg, mag) == [neg |-> neg, mag |-> mag]
Norm(neg, m) == LET s == Strip(m) IN [neg |-> neg /\ Len(s) > 0, mag |-> s]
Zero == I(FALSE, <<>>)
MinusOne == I(TRUE, <<1>>)
\* a TLC natural below 2^31 as an integer value, and back
NatInt(n) == Norm(FALSE, <<n % 256, (n \div 256) % 256, (n \div 65536) % 256, n \div 16777216>>)
IntNat(x) == LET m == Pad(x.mag, 4) IN m[1] + 256 * m[2] + 65536 * m[3] + 16777216 * m[4]

\* n-byte little-endian words
Inv(m) == Sq([i \in 1..Len(m) |-> 255 - m[i]])
Inc(m) == Sq([i \in 1..Len(m) |-> IF \A j \in 1..(i - 1) : m[j] = 255 THEN (m[i] + 1) % 256 ELSE m[i]])
Dec1(m) == Sq([i \in 1..Len(m) |-> IF \A j \in 1..(i - 1) : m[j] = 0 THEN (m[i] + 255) % 256 ELSE m[i]])
Neg2c(m) == Inc(Inv(m))                       \* two's complement negation
Dbl(m) == Sq([i \in 1..(Len(m) + 1) |->          \* magnitude * 2 (one byte longer)
            (IF i <= Len(m) THEN (2 * m[i]) % 256 ELSE 0) + (IF i > 1 THEN m[i - 1] \div 128 ELSE 0)])

\* does x fit an n-byte signed / unsigned word
FitsSigned(x, n) ==
  /\ Len(x.mag) <= n
  /\ LET p == Pad(x.mag, n)
     IN \/ p[n] < 128
        \/ x.neg /\ p[n] = 128 /\ \A j \in 1..(n - 1) : p[j] = 0
FitsUnsigned(x, n) == ~x.neg /\ Len(x.mag) <= n

TwosLE(x, n) == IF x.neg THEN Neg2c(Pad(x.mag, n)) ELSE Pad(x.mag, n)
FromTwosLE(le) ==
  LET n == Len(le) IN IF le[n] >= 128 THEN Norm(TRUE, Neg2c(le)) ELSE Norm(FALSE, le)

EncInt(x, n) == Rev(TwosLE(x, n))                     \* INT8/16/32/64
EncUInt(x, n) == Rev(Pad(x.mag, n))                   \* UINT32
DecIntAt(s, p, n) == FromTwosLE(Rev(SubSeq(s, p, p + n - 1)))
DecUIntAt(s, p, n) == Norm(FALSE, Rev(SubSeq(s, p, p + n - 1)))

\* ------------------------------------------------------------------- bits
P2(k) == 2 ^ k
Bits(m) == Sq([i \in 1..(8 * Len(m)) |-> (m[(i - 1) \div 8 + 1] \div P2((i - 1) % 8)) % 2])
BitAt(b, i) == IF i <= Len(b) THEN b[i] ELSE 0
BitLen(b) == IF \A i \in 1..Len(b) : b[i] = 0 THEN 0
             ELSE CHOOSE i \in 1..Len(b) : b[i] = 1 /\ \A j \in (i + 1)..Len(b) : b[j] = 0
BitsToBytes(b) ==
  Sq([j \in 1..((Len(b) + 7) \div 8) |->
     BitAt(b, 8 * j - 7) + 2 * BitAt(b, 8 * j - 6) + 4 * BitAt(b, 8 * j - 5) + 8 * BitAt(b, 8 * j - 4)
     + 16 * BitAt(b, 8 * j - 3) + 32 * BitAt(b, 8 * j - 2) + 64 * BitAt(b, 8 * j - 1) + 128 * BitAt(b, 8 * j)])
Xor(a, b) == (a + b) % 2

\* --------------------------------------------------------- UNSIGNED_VARINT
Group7(b, g) ==
  BitAt(b, 7 * g - 6) + 2 * BitAt(b, 7 * g - 5) + 4 * BitAt(b, 7 * g - 4) + 8 * BitAt(b, 7 * g - 3)
  + 16 * BitAt(b, 7 * g - 2) + 32 * BitAt(b, 7 * g - 1) + 64 * BitAt(b, 7 * g)
UVarintOfBits(b) ==
  LET n == BitLen(b)
      groups == IF n = 0 THEN 1 ELSE (n + 6) \div 7
  IN Sq([g \in 1..groups |-> Group7(b, g) + (IF g < groups THEN 128 ELSE 0)])
EncUVarint(x) == UVarintOfBits(Bits(x.mag))               \* x >= 0

\* position of the last byte of the varint starting at p
VarintEnd(s, p) == CHOOSE q \in p..Len(s) : s[q] < 128 /\ \A r \in p..(q - 1) : s[r] >= 128
VarintBitsAt(s, p) ==
  LET q == VarintEnd(s, p)
  IN Sq([i \in 1..(7 * (q - p + 1)) |-> ((s[p + (i - 1) \div 7] % 128) \div P2((i - 1) % 7)) % 2])
DecUVarintAt(s, p) ==
  [v |-> Norm(FALSE, BitsToBytes(VarintBitsAt(s, p))), p |-> VarintEnd(s, p) + 1]

\* ---------------------------------------------------------- VARINT/VARLONG
\* zig-zag on the N-bit two's complement word t: (t << 1) ^ (t >> (N-1)), arithmetic shift
ZigZag(t) == Sq([i \in 1..Len(t) |-> Xor(IF i = 1 THEN 0 ELSE t[i - 1], t[Len(t)])])
\* inverse: (z >>> 1) ^ -(z & 1)
UnZigZag(z) == Sq([i \in 1..Len(z) |-> Xor(IF i = Len(z) THEN 0 ELSE z[i + 1], z[1])])
EncVarInt(x, n) == UVarintOfBits(ZigZag(Bits(TwosLE(x, n))))   \* n = 4 (VARINT), 8 (VARLONG)
DecVarIntAt(s, p, n) ==
  LET z == VarintBitsAt(s, p)
      zn == Sq([i \in 1..(8 * n) |-> BitAt(z, i)])
  IN [v |-> FromTwosLE(BitsToBytes(UnZigZag(zn))), p |-> VarintEnd(s, p) + 1]
\* the same map in sign-magnitude terms (protobuf: n >= 0 -> 2n, n < 0 -> 2|n| - 1);
\* WireMC checks that both formulations agree
ZigZagMag(x) == IF x.neg THEN Strip(Dec1(Dbl(x.mag))) ELSE Strip(Dbl(x.mag))

\* magnitude comparison (little-endian, stripped)
RECURSIVE LtMag(_, _)
LtMag(a, b) ==
  IF Len(a) # Len(b) THEN Len(a) < Len(b)
  ELSE IF Len(a) = 0 THEN FALSE
  ELSE IF a[Len(a)] # b[Len(b)] THEN a[Len(a)] < b[Len(b)]
  ELSE LtMag(SubSeq(a, 1, Len(a) - 1), SubSeq(b, 1, Len(b) - 1))
Pow2Mag(k) == Sq([i \in 1..(k \div 8 + 1) |-> IF i = k \div 8 + 1 THEN P2(k % 8) ELSE 0])
\* length of the varint of an unsigned magnitude: least L >= 1 with m < 2^(7L)
UVarintLen(m) == CHOOSE L \in 1..10 : LtMag(m, Pow2Mag(7 * L)) /\ (L = 1 \/ ~LtMag(m, Pow2Mag(7 * (L - 1))))

\* ------------------------------------------------ the type-directed codec
T(k) == [k |-> k]
ArrayOf(t) == [k |-> "a", of |-> t]
CArrayOf(t) == [k |-> "ca", of |-> t]
StructOf(fs) == [k |-> "s", f |-> fs]
IsNull(v) == Len(v) = 0

RECURSIVE Enc(_, _)
Enc(t, v) ==
  CASE t.k = "i8" -> EncInt(v, 1)
    [] t.k = "i16" -> EncInt(v, 2)
    [] t.k = "i32" -> EncInt(v, 4)
    [] t.k = "i64" -> EncInt(v, 8)
    [] t.k = "u32" -> EncUInt(v, 4)
    [] t.k = "f64" -> v
    [] t.k = "bool" -> IF v THEN <<1>> ELSE <<0>>
    [] t.k = "uv" -> EncUVarint(v)
    [] t.k = "vi32" -> EncVarInt(v, 4)
    [] t.k = "vi64" -> EncVarInt(v, 8)
    [] t.k = "str" -> IF IsNull(v) THEN EncInt(MinusOne, 2) ELSE EncInt(NatInt(Len(v[1])), 2) \o v[1]
    [] t.k = "bytes" -> IF IsNull(v) THEN EncInt(MinusOne, 4) ELSE EncInt(NatInt(Len(v[1])), 4) \o v[1]
    [] t.k = "cstr" -> IF IsNull(v) THEN <<0>> ELSE EncUVarint(NatInt(Len(v[1]) + 1)) \o v[1]
    [] t.k = "cbytes" -> IF IsNull(v) THEN <<0>> ELSE EncUVarint(NatInt(Len(v[1]) + 1)) \o v[1]
    [] t.k = "a" -> IF IsNull(v) THEN EncInt(MinusOne, 4)
                    ELSE EncInt(NatInt(Len(v[1])), 4) \o Flatten(Sq([i \in 1..Len(v[1]) |-> Enc(t.of, v[1][i])]))
    [] t.k = "ca" -> IF IsNull(v) THEN <<0>>
                     ELSE EncUVarint(NatInt(Len(v[1]) + 1)) \o Flatten(Sq([i \in 1..Len(v[1]) |-> Enc(t.of, v[1][i])]))
    [] t.k = "s" -> Flatten(Sq([i \in 1..Len(t.f) |-> Enc(t.f[i], v[i])]))
    [] t.k = "tags" -> EncUVarint(NatInt(Len(v)))
                       \o Flatten(Sq([i \in 1..Len(v) |->
                                     EncUVarint(v[i][1]) \o EncUVarint(NatInt(Len(v[i][2]))) \o v[i][2]]))

Size(t, v) == Len(Enc(t, v))

R(v, p) == [v |-> v, p |-> p]
RECURSIVE Dec(_, _, _), DecItems(_, _, _, _, _), DecFields(_, _, _, _, _), DecTags(_, _, _, _)
\* n more items of type t at p, appended to acc
DecItems(t, n, s, p, acc) ==
  IF n = 0 THEN R(acc, p)
  ELSE LET d == Dec(t, s, p) IN DecItems(t, n - 1, s, d.p, Append(acc, d.v))
DecFields(fs, i, s, p, acc) ==
  IF i > Len(fs) THEN R(acc, p)
  ELSE LET d == Dec(fs[i], s, p) IN DecFields(fs, i + 1, s, d.p, Append(acc, d.v))
DecTags(n, s, p, acc) ==
  IF n = 0 THEN R(acc, p)
  ELSE LET tag == DecUVarintAt(s, p)
           sz == DecUVarintAt(s, tag.p)
           len == IntNat(sz.v)
       IN DecTags(n - 1, s, sz.p + len, Append(acc, <<tag.v, SubSeq(s, sz.p, sz.p + len - 1)>>))
Dec(t, s, p) ==
  CASE t.k = "i8" -> R(DecIntAt(s, p, 1), p + 1)
    [] t.k = "i16" -> R(DecIntAt(s, p, 2), p + 2)
    [] t.k = "i32" -> R(DecIntAt(s, p, 4), p + 4)
    [] t.k = "i64" -> R(DecIntAt(s, p, 8), p + 8)
    [] t.k = "u32" -> R(DecUIntAt(s, p, 4), p + 4)
    [] t.k = "f64" -> R(SubSeq(s, p, p + 7), p + 8)
    [] t.k = "bool" -> R(s[p] # 0, p + 1)
    [] t.k = "uv" -> DecUVarintAt(s, p)
    [] t.k = "vi32" -> DecVarIntAt(s, p, 4)
    [] t.k = "vi64" -> DecVarIntAt(s, p, 8)
    [] t.k \in {"str", "bytes"} ->
         LET w == IF t.k = "str" THEN 2 ELSE 4
             n == DecIntAt(s, p, w)
         IN IF n.neg THEN R(<<>>, p + w)
            ELSE R(<<SubSeq(s, p + w, p + w + IntNat(n) - 1)>>, p + w + IntNat(n))
    [] t.k \in {"cstr", "cbytes"} ->
         LET n == DecUVarintAt(s, p)
         IN IF n.v = Zero THEN R(<<>>, n.p)
            ELSE R(<<SubSeq(s, n.p, n.p + IntNat(n.v) - 2)>>, n.p + IntNat(n.v) - 1)
    [] t.k = "a" ->
         LET n == DecIntAt(s, p, 4)
         IN IF n.neg THEN R(<<>>, p + 4)
            ELSE LET d == DecItems(t.of, IntNat(n), s, p + 4, <<>>) IN R(<<d.v>>, d.p)
    [] t.k = "ca" ->
         LET n == DecUVarintAt(s, p)
         IN IF n.v = Zero THEN R(<<>>, n.p)
            ELSE LET d == DecItems(t.of, IntNat(n.v) - 1, s, n.p, <<>>) IN R(<<d.v>>, d.p)
    [] t.k = "s" -> DecFields(t.f, 1, s, p, <<>>)
    [] t.k = "tags" -> LET n == DecUVarintAt(s, p) IN DecTags(IntNat(n.v), s, n.p, <<>>)

\* ------------------------------------------------------------- the headers
ReqHeaderType(flexible) ==
  StructOf(IF flexible THEN <<T("i16"), T("i16"), T("i32"), T("str"), T("tags")>>
                        ELSE <<T("i16"), T("i16"), T("i32"), T("str")>>)
RespHeaderType(flexible) ==
  StructOf(IF flexible THEN <<T("i32"), T("tags")>> ELSE <<T("i32")>>)
\* key, version: naturals; corr: integer value; cid: nullable string value
EncReqHeader(key, version, corr, cid, flexible) ==
  Enc(ReqHeaderType(flexible),
      IF flexible THEN <<NatInt(key), NatInt(version), corr, cid, <<>>>>
                  ELSE <<NatInt(key), NatInt(version), corr, cid>>)

\* ------------------------------------------------------------------ anchors
\* literal bytes of /repo/tests/test_protocol.py (test_unsigned_varint_serde,
\* test_compact_data_structs, test_encode_message_header) ...
U32(b0, b1, b2, b3) == Norm(FALSE, <<b0, b1, b2, b3>>)
ASSUME EncUVarint(Zero) = <<0>>
ASSUME EncUVarint(U32(255, 255, 255, 255)) = <<255, 255, 255, 255, 15>>
ASSUME EncUVarint(NatInt(1)) = <<1>>
ASSUME EncUVarint(NatInt(63)) = <<63>>
ASSUME EncUVarint(U32(192, 255, 255, 255)) = <<192, 255, 255, 255, 15>>
ASSUME EncUVarint(NatInt(64)) = <<64>>
ASSUME EncUVarint(NatInt(8191)) = <<255, 63>>
ASSUME EncUVarint(U32(0, 224, 255, 255)) = <<128, 192, 255, 255, 15>>
ASSUME EncUVarint(NatInt(8192)) = <<128, 64>>
ASSUME EncUVarint(U32(255, 223, 255, 255)) = <<255, 191, 255, 255, 15>>
ASSUME EncUVarint(NatInt(1048575)) = <<255, 255, 63>>
ASSUME Enc(T("cstr"), <<>>) = <<0>> /\ Enc(T("cstr"), <<<<>>>>) = <<1>>
ASSUME Enc(CArrayOf(T("cstr")), <<>>) = <<0>> /\ Enc(CArrayOf(T("cstr")), <<<<>>>>) = <<1>>
ASSUME Enc(T("cbytes"), <<>>) = <<0>> /\ Enc(T("cbytes"), <<<<>>>>) = <<1>>
ASSUME EncReqHeader(10, 0, NatInt(4), <<<<99, 108, 105, 101, 110, 116, 51>>>>, FALSE)
         = <<0, 10, 0, 0, 0, 0, 0, 4, 0, 7, 99, 108, 105, 101, 110, 116, 51>>
\* ... and of the Java client's ByteUtilsTest.testVarintSerde / testVarlongSerde
ASSUME EncVarInt(Zero, 4) = <<0>> /\ EncVarInt(MinusOne, 4) = <<1>> /\ EncVarInt(NatInt(1), 4) = <<2>>
ASSUME EncVarInt(NatInt(63), 4) = <<126>> /\ EncVarInt(I(TRUE, <<64>>), 4) = <<127>>
ASSUME EncVarInt(NatInt(64), 4) = <<128, 1>> /\ EncVarInt(I(TRUE, <<65>>), 4) = <<129, 1>>
ASSUME EncVarInt(NatInt(8191), 4) = <<254, 127>> /\ EncVarInt(I(TRUE, <<0, 32>>), 4) = <<255, 127>>
ASSUME EncVarInt(NatInt(8192), 4) = <<128, 128, 1>> /\ EncVarInt(I(TRUE, <<1, 32>>), 4) = <<129, 128, 1>>
ASSUME EncVarInt(I(FALSE, <<255, 255, 255, 127>>), 4) = <<254, 255, 255, 255, 15>>
ASSUME EncVarInt(I(TRUE, <<0, 0, 0, 128>>), 4) = <<255, 255, 255, 255, 15>>
ASSUME EncVarInt(NatInt(64), 8) = <<128, 1>> /\ EncVarInt(MinusOne, 8) = <<1>>
ASSUME EncVarInt(I(FALSE, <<255, 255, 255, 255, 255, 255, 255, 127>>), 8)
         = <<254, 255, 255, 255, 255, 255, 255, 255, 255, 1>>
ASSUME EncVarInt(I(TRUE, <<0, 0, 0, 0, 0, 0, 0, 128>>), 8)
         = <<255, 255, 255, 255, 255, 255, 255, 255, 255, 1>>
\* two's complement corner cases
ASSUME EncInt(MinusOne, 4) = <<255, 255, 255, 255>> /\ EncInt(I(TRUE, <<0, 128>>), 2) = <<128, 0>>
ASSUME EncInt(I(FALSE, <<52, 18>>), 2) = <<18, 52>> /\ EncInt(I(TRUE, <<0, 1>>), 4) = <<255, 255, 255, 0>>
=============================================================================
