SPECIFICATION TraceSpec
CONSTANTS
  Kind = "consumer"
  Comps <- ConsumerComps
  MaxLive = 2
  AutoCommit = TRUE
  Static = FALSE
  FlushBounded = TRUE
  CommitGivesUp = TRUE
  SwallowCancel = TRUE
  ConnLossAtClose = FALSE
CONSTRAINT Rec
POSTCONDITION Post
CHECK_DEADLOCK FALSE
