------------------------- MODULE MC_GroupMembership -------------------------
(* Bounded instance: Members x Parts, logs of LogLen records, <= MaxGen        *)
(* generations, <= MaxCrash crashes (a crash is enabled in EVERY state: the    *)
(* crash point is explored exhaustively), restarts, commits at any point.      *)
EXTENDS GroupMembership

CONSTANTS MaxCrash
VARIABLE crashes
mcvars == <<vars, crashes>>

MCInit == Init /\ crashes = 0

AStart == \E m \in Members, p \in Parts : StartPartition(m, p) /\ UNCHANGED crashes
ADeliver == \E m \in Members, p \in Parts : Deliver(m, p) /\ UNCHANGED crashes
ACommit == \E m \in Members : Commit(m) /\ UNCHANGED crashes
AJoinPrepare == \E m \in Members : JoinPrepare(m) /\ UNCHANGED crashes
ASendJoin == \E m \in Members : SendJoin(m) /\ UNCHANGED crashes
ACompleteJoin == CompleteJoin /\ (joined = {m \in gmem : alive[m]}) /\ UNCHANGED crashes
ARecvJoin == \E m \in Members : RecvJoin(m) /\ UNCHANGED crashes
ASendSync == \E m \in Members : SendSync(m) /\ UNCHANGED crashes
ARecvSync == \E m \in Members : RecvSync(m) /\ UNCHANGED crashes
ASyncFails == \E m \in Members : SyncFails(m) /\ UNCHANGED crashes
AHeartbeat == \E m \in Members : Heartbeat(m) /\ UNCHANGED crashes
AEvict == \E m \in Members : Evict(m) /\ UNCHANGED crashes
ACrash == \E m \in Members : crashes < MaxCrash /\ Crash(m) /\ crashes' = crashes + 1
ARestart == \E m \in Members : Restart(m) /\ UNCHANGED crashes

Next == AStart \/ ADeliver \/ ACommit \/ AJoinPrepare \/ ASendJoin \/ ACompleteJoin \/ ARecvJoin \/ ASendSync
        \/ ARecvSync \/ ASyncFails \/ AHeartbeat \/ AEvict \/ ACrash \/ ARestart

Spec == MCInit /\ [][Next]_mcvars

Fair == /\ WF_mcvars(AStart) /\ WF_mcvars(ADeliver) /\ WF_mcvars(AJoinPrepare) /\ WF_mcvars(ASendJoin)
        /\ WF_mcvars(ACompleteJoin) /\ WF_mcvars(ARecvJoin) /\ WF_mcvars(ASendSync) /\ WF_mcvars(ARecvSync)
        /\ WF_mcvars(ASyncFails) /\ WF_mcvars(AHeartbeat) /\ WF_mcvars(AEvict) /\ WF_mcvars(ARestart)
LiveSpec == Spec /\ Fair

\* C06: the group converges and stays converged (generation budget permitting)
Converges == <>[](Converged \/ gen = MaxGen)
\* C04: at least once -- every record is eventually delivered by some incarnation
AtLeastOnce == <>[]((\A p \in Parts : everDeliv[p] = 0..(LogLen - 1)) \/ gen = MaxGen)
Sym == Permutations(Members) \cup Permutations(Parts)
=============================================================================
