---------------------------- MODULE ProducerCore ----------------------------
(***************************************************************************)
(* Producer data path of aiokafka: MessageAccumulator / MessageBatch /      *)
(* Sender._sender_routine / SendProduceReqHandler, the idempotent sequence  *)
(* state of TransactionManager, the client's metadata view, and the produce *)
(* path of the partition leaders with Kafka's idempotence rules.            *)
(*                                                                          *)
(* One action per critical section of the code (the stretch between two     *)
(* awaits, or one synchronous method):                                      *)
(*   Send            MessageAccumulator.add_message / MessageBatch.append   *)
(*   Drain           one iteration of _sender_routine: drain_by_nodes,      *)
(*                   _pop_batch (first-drain sequence stamping), mute,      *)
(*                   mark node in flight                                    *)
(*   BrokerPart      leader append of one partition of a produce request    *)
(*   BrokerError     injected retriable error reply (nothing applied)       *)
(*   ConnLost        connection dropped / reply lost / request timed out    *)
(*   ReplyArrives    response reaches SendProduceReqHandler.handle_response *)
(*   ClientDone / ClientFail / (implicit retry) per batch                   *)
(*   NoAck           acks=0: done_noack right after the write               *)
(*   Reenqueue       after the back-off sleep: reenqueue at the FRONT       *)
(*   Release         end of _send_produce_req: unmute, node not in flight   *)
(*   MdUpdate, LeaderMoves, LeaderUnknown   metadata / cluster environment  *)
(*   ExpireNoLeader  drain_by_nodes failing the head batch of a partition   *)
(*                   whose leader stayed unknown past the batch TTL         *)
(*                   (non-idempotent producers only -- see IdemNeverFails)  *)
(*                                                                          *)
(* Sequence numbers are pairs <<hi, lo>> (value hi*LoMod + lo, hi < HiMod)   *)
(* so that the same operators serve the small model (HiMod=LoMod=2: wrap at  *)
(* 4) and real traces (LoMod = 65536, HiMod = 32768: wrap at 2^31; TLC       *)
(* integers are 32 bit).                                                     *)
(***************************************************************************)
EXTENDS Naturals, Integers, Sequences, FiniteSets, TLC, SequencesExt, Functions   \* Range(f) is from Functions

CONSTANTS Parts, Nodes, HiMod, LoMod, Retain,
          NoLeader   \* value of the metadata view for a partition without leader (not in Nodes)

NoSeq == <<-1, -1>>

VARIABLES
  conf,     \* [idem, acks0, tst: Parts -> {0,1} (0 CreateTime, 1 LogAppendTime)]
  issued,   \* task -> Seq(rid): records in send() issue order        (history)
  acc,      \* p -> Seq(rid): accepted records in append order          (history)
  rts,      \* rid -> the record's own (create) timestamp
  batch,    \* Seq of [p, recs, seq, drained, closed, st]
  queue,    \* p -> Seq(batch index): MessageAccumulator._batches[tp]
  muted,    \* Sender._muted_partitions
  busy,     \* Sender._in_flight (nodes)
  nextSeq,  \* TransactionManager._sequence_numbers[tp]
  md,       \* client's metadata view: p -> node | NoLeader
  ldr,      \* true leader of p
  req,      \* n -> in-flight produce request of the sender to node n
  log,      \* p -> Seq([rid, b, ts]): the partition log (truth)
  bst,      \* p -> Seq([seq, cnt, base, ts]): broker's retained batches of our pid
  pres,     \* p -> Seq([seq, recs]): distinct batches presented to any broker (history)
  res,      \* rid -> [k, off, ts, tt]  resolution of the send future
  nres,     \* rid -> number of times the future was resolved
  wire0,    \* acks=0 only: n -> Seq([p, b]) batches written to node n, not yet processed
  faults,   \* remaining fault budget (model checking only)
  hard      \* TRUE once a non-retriable fault was injected (traces only)

vars == <<conf, issued, acc, rts, batch, queue, muted, busy, nextSeq, md, ldr, req,
          log, bst, pres, res, nres, wire0, faults, hard>>

\* ---- sequence arithmetic (Kafka: 0 .. 2^31-1, wrapping to 0) ------------
SeqValid(s) == s[1] \in 0..(HiMod - 1) /\ s[2] \in 0..(LoMod - 1)
SeqAdd(s, n) == LET t == s[2] + n IN <<(s[1] + (t \div LoMod)) % HiMod, t % LoMod>>

\* ---- helpers ---------------------------------------------------------------
NoReq == [ph |-> "none", ps |-> {}, bs |-> {}, out |-> <<>>]

BatchOf(bs, p) == CHOOSE b \in bs : batch[b].p = p
HasBatch(bs, p) == \E b \in bs : batch[b].p = p
IdxIn(s, x) == CHOOSE i \in 1..Len(s) : s[i] = x
Upd(f, k, v) == [x \in DOMAIN f \cup {k} |-> IF x = k THEN v ELSE f[x]]
Active(n) == req[n].ph \in {"sent", "replied", "lost"}

TypeOK ==
  /\ \A p \in Parts : nextSeq[p] = NoSeq \/ SeqValid(nextSeq[p]) \/ TRUE
  /\ muted \subseteq Parts /\ busy \subseteq Nodes

InitWith(c, start, leaders, view) ==
  /\ conf = c
  /\ issued = <<>> /\ acc = [p \in Parts |-> <<>>] /\ rts = <<>>
  /\ batch = <<>> /\ queue = [p \in Parts |-> <<>>]
  /\ muted = {} /\ busy = {}
  /\ nextSeq = start
  /\ ldr = leaders /\ md = view
  /\ req = [n \in Nodes |-> NoReq]
  /\ log = [p \in Parts |-> <<>>]
  /\ bst = [p \in Parts |-> <<>>]
  /\ pres = [p \in Parts |-> <<>>]
  /\ res = <<>> /\ nres = <<>>
  /\ wire0 = [n \in Nodes |-> <<>>]
  /\ hard = FALSE

\* ---- producer API -------------------------------------------------------------
\* add_message: append to the tail batch if it is open and has room, else (queue
\* empty) create a batch.  A full tail batch blocks the caller (no step).
Send(t, r, p, ts, cap) ==
  /\ issued' = Upd(issued, t, (IF t \in DOMAIN issued THEN issued[t] ELSE <<>>) \o <<r>>)
  /\ rts' = Upd(rts, r, ts)
  /\ \/ /\ queue[p] = <<>>
        /\ batch' = Append(batch, [p |-> p, recs |-> <<r>>, seq |-> NoSeq,
                                   drained |-> FALSE, closed |-> FALSE, st |-> "queued"])
        /\ queue' = [queue EXCEPT ![p] = <<Len(batch) + 1>>]
     \/ /\ queue[p] # <<>>
        /\ LET b == Last(queue[p]) IN
           /\ ~batch[b].closed /\ Len(batch[b].recs) < cap
           /\ batch' = [batch EXCEPT ![b].recs = Append(@, r)]
        /\ UNCHANGED queue
  /\ acc' = [acc EXCEPT ![p] = Append(@, r)]
  /\ UNCHANGED <<wire0, conf, muted, busy, nextSeq, md, ldr, req, log, bst, pres, res, nres, faults, hard>>

\* ---- resolution of send futures -------------------------------------------------
\* the metadata each record future must receive when its batch is acknowledged
Meta(b, i, base, ts) ==
  LET r == batch[b].recs[i] IN
  [k |-> "ok", off |-> base + i - 1,
   ts |-> IF ts = -1 THEN rts[r] ELSE ts,
   tt |-> IF ts = -1 THEN 0 ELSE 1]

Resolve(b, f(_)) ==
  /\ res' = [r \in DOMAIN res \cup Range(batch[b].recs) |->
               IF r \in Range(batch[b].recs) THEN f(IdxIn(batch[b].recs, r)) ELSE res[r]]
  /\ nres' = [r \in DOMAIN nres \cup Range(batch[b].recs) |->
               IF r \in Range(batch[b].recs)
               THEN (IF r \in DOMAIN nres THEN nres[r] ELSE 0) + 1 ELSE nres[r]]

\* ---- sender -----------------------------------------------------------------------
Eligible == {p \in Parts : p \notin muted /\ queue[p] # <<>> /\ md[p] \in Nodes /\ md[p] \notin busy}

\* one pass of drain_by_nodes over the partitions ps whose linger has expired:
\* head batch of each, grouped by leader, one request per node
Drain(ps) ==
  /\ ps # {} /\ ps \subseteq Eligible
  /\ LET ns == {md[p] : p \in ps}
         hd(p) == Head(queue[p])
         hds == {hd(p) : p \in ps}
         first(b) == conf.idem /\ ~batch[b].drained
     IN
     /\ batch' = [b \in 1..Len(batch) |->
                    IF b \in hds
                    THEN [batch[b] EXCEPT
                            !.seq = IF first(b) THEN nextSeq[batch[b].p] ELSE @,
                            !.drained = TRUE, !.closed = TRUE, !.st = "inflight"]
                    ELSE batch[b]]
     /\ nextSeq' = [p \in Parts |->
                      IF p \in ps /\ first(hd(p))
                      THEN SeqAdd(nextSeq[p], Len(batch[hd(p)].recs)) ELSE nextSeq[p]]
     /\ queue' = [p \in Parts |-> IF p \in ps THEN Tail(queue[p]) ELSE queue[p]]
     /\ req' = [n \in Nodes |->
                  IF n \in ns
                  THEN LET nps == {q \in ps : md[q] = n} IN
                       [ph |-> "sent", ps |-> nps, bs |-> {hd(q) : q \in nps}, out |-> <<>>]
                  ELSE req[n]]
     /\ muted' = muted \cup ps
     /\ busy' = busy \cup ns
     /\ wire0' = [n \in Nodes |->
                    IF conf.acks0 /\ n \in ns
                    THEN wire0[n] \o SetToSeq({[p |-> q, b |-> hd(q)] : q \in {q \in ps : md[q] = n}})
                    ELSE wire0[n]]
  /\ UNCHANGED <<conf, issued, acc, rts, md, ldr, log, bst, pres, res, nres, faults, hard>>

\* drain_by_nodes: leader unknown and head batch older than its TTL
ExpireCore(p) ==
  /\ p \notin muted /\ queue[p] # <<>> /\ md[p] = NoLeader
  /\ ~conf.idem
  /\ LET b == Head(queue[p]) IN
     /\ batch' = [batch EXCEPT ![b].st = "failed", ![b].drained = TRUE, ![b].closed = TRUE]
     /\ queue' = [queue EXCEPT ![p] = Tail(@)]
  /\ UNCHANGED <<wire0, conf, issued, acc, rts, muted, busy, nextSeq, md, ldr, req, log, bst, pres, faults, hard>>
ExpireNoLeader(p) ==
  /\ ExpireCore(p)
  /\ Resolve(Head(queue[p]), LAMBDA i : [k |-> "err", off |-> 0, ts |-> 0, tt |-> 0])

\* ---- partition leader (Kafka's rules) -----------------------------------------------
InSeq(p, s) == bst[p] = <<>> \/ s = SeqAdd(Last(bst[p]).seq, Last(bst[p]).cnt)
DupOf(p, s, c) == {i \in 1..Len(bst[p]) : bst[p][i].seq = s /\ bst[p][i].cnt = c}

Outcome(n, p, s, c) ==
  IF ldr[p] # n THEN [k |-> "notleader", base |-> 0, ts |-> 0]
  ELSE IF ~conf.idem THEN [k |-> "ok", base |-> Len(log[p]), ts |-> 0]
  ELSE IF ~SeqValid(s) THEN [k |-> "ooo", base |-> 0, ts |-> 0]
  ELSE IF DupOf(p, s, c) # {}
       THEN LET i == CHOOSE i \in DupOf(p, s, c) : TRUE
            IN [k |-> "dup", base |-> bst[p][i].base, ts |-> bst[p][i].ts]
  ELSE IF InSeq(p, s) THEN [k |-> "ok", base |-> Len(log[p]), ts |-> 0]
  ELSE [k |-> "ooo", base |-> 0, ts |-> 0]

\* what every broker is shown, in first-presentation order (history)
Present(p, s, recs) ==
  IF \E i \in 1..Len(pres[p]) : pres[p][i].recs = recs /\ pres[p][i].seq = s
  THEN pres[p] ELSE Append(pres[p], [seq |-> s, recs |-> recs])

\* the leader-side effect of presenting batch b of partition p (wire sequence s,
\* wire records recs) to node n with outcome o
ApplyLog(p, b, s, recs, o, at) ==
  /\ pres' = [pres EXCEPT ![p] = Present(p, s, recs)]
  /\ IF o.k = "ok"
     THEN /\ log' = [log EXCEPT ![p] = @ \o [i \in 1..Len(recs) |->
                       [rid |-> recs[i], b |-> b, ts |-> IF conf.tst[p] = 1 THEN at ELSE rts[recs[i]]]]]
          /\ bst' = [bst EXCEPT ![p] =
                       IF conf.idem
                       THEN LET a == Append(@, [seq |-> s, cnt |-> Len(recs), base |-> Len(log[p]), ts |-> o.ts])
                            IN IF Len(a) > Retain THEN Tail(a) ELSE a
                       ELSE @]
     ELSE UNCHANGED <<log, bst>>

StampedOutcome(n, p, s, recs, at) ==
  LET o0 == Outcome(n, p, s, Len(recs)) IN
  IF o0.k = "ok" THEN [o0 EXCEPT !.ts = IF conf.tst[p] = 1 THEN at ELSE -1] ELSE o0

\* node n processes partition p of the request it received.  s / recs are the
\* base sequence and the records *on the wire* (the design sends batch[b].seq and
\* batch[b].recs; a trace supplies what the broker really saw); `at` = broker
\* clock (append time of LogAppendTime topics)
BrokerPart(n, p, s, recs, at) ==
  /\ ~conf.acks0
  /\ req[n].ph = "sent" /\ p \in req[n].ps /\ p \notin DOMAIN req[n].out
  /\ LET b == BatchOf(req[n].bs, p)
         o == StampedOutcome(n, p, s, recs, at)
     IN /\ ApplyLog(p, b, s, recs, o, at)
        /\ req' = [req EXCEPT ![n].out = Upd(@, p, o)]
  /\ UNCHANGED <<wire0, conf, issued, acc, rts, batch, queue, muted, busy, nextSeq, md, ldr, res, nres, faults, hard>>

\* acks=0: the sender does not wait; node n processes, in per-partition FIFO order,
\* what was written to it (or never does: a lost request leaves no trace)
FirstFor(n, p) == CHOOSE i \in 1..Len(wire0[n]) :
                    wire0[n][i].p = p /\ \A j \in 1..(i-1) : wire0[n][j].p # p
BrokerPart0(n, p, s, recs, at) ==
  /\ conf.acks0
  /\ \E i \in 1..Len(wire0[n]) : wire0[n][i].p = p
  /\ LET i == FirstFor(n, p)
         b == wire0[n][i].b
         o == StampedOutcome(n, p, s, recs, at)
     IN /\ ApplyLog(p, b, s, recs, o, at)
        /\ wire0' = [wire0 EXCEPT ![n] = RemoveAt(@, i)]
  /\ UNCHANGED <<conf, issued, acc, rts, batch, queue, muted, busy, nextSeq, md, ldr, req, res, nres, faults, hard>>

\* acks=0: everything written to node n and not yet processed is lost
Lose0(n) ==
  /\ conf.acks0 /\ wire0[n] # <<>>
  /\ wire0' = [wire0 EXCEPT ![n] = <<>>]
  /\ UNCHANGED <<conf, issued, acc, rts, batch, queue, muted, busy, nextSeq, md, ldr, req, log, bst, pres, res, nres, hard>>

\* injected retriable error reply: nothing applied, every partition gets the code
BrokerError(n, kind) ==
  /\ req[n].ph = "sent" /\ req[n].out = <<>>
  /\ req' = [req EXCEPT ![n].out = [p \in req[n].ps |-> [k |-> kind, base |-> 0, ts |-> 0]]]
  /\ UNCHANGED <<wire0, conf, issued, acc, rts, batch, queue, muted, busy, nextSeq, md, ldr, log, bst, pres, res, nres, hard>>

Processed(n) == DOMAIN req[n].out = req[n].ps

\* connection refused/reset before the broker saw the request, or after it
\* processed it (reply never arrives: reset, or the request timeout fires)
ConnLost(n) ==
  /\ req[n].ph = "sent" /\ (req[n].out = <<>> \/ Processed(n))
  /\ req' = [req EXCEPT ![n].ph = "lost"]
  /\ UNCHANGED <<wire0, conf, issued, acc, rts, batch, queue, muted, busy, nextSeq, md, ldr, log, bst, pres, res, nres, hard>>

ReplyArrives(n) ==
  /\ req[n].ph = "sent" /\ Processed(n) /\ ~conf.acks0
  /\ req' = [req EXCEPT ![n].ph = "replied"]
  /\ UNCHANGED <<wire0, conf, issued, acc, rts, batch, queue, muted, busy, nextSeq, md, ldr, log, bst, pres, res, nres, faults, hard>>

\* ---- response handling (per batch) --------------------------------------------------------
\* batch.done(offset, timestamp): NoError or a duplicate the broker still knows
DoneCore(n, b) ==
  /\ req[n].ph = "replied" /\ b \in req[n].bs
  /\ req[n].out[batch[b].p].k \in {"ok", "dup"}
  /\ batch' = [batch EXCEPT ![b].st = "done"]
  /\ req' = [req EXCEPT ![n].bs = @ \ {b}]
  /\ UNCHANGED <<wire0, conf, issued, acc, rts, queue, muted, busy, nextSeq, md, ldr, log, bst, pres, faults, hard>>
ClientDone(n, b) ==
  /\ DoneCore(n, b)
  /\ LET o == req[n].out[batch[b].p] IN Resolve(b, LAMBDA i : Meta(b, i, o.base, o.ts))

\* batch.failure(exc): non-retriable error (or, without idempotence, an expired batch)
FailCore(n, b) ==
  /\ req[n].ph \in {"replied", "lost"} /\ b \in req[n].bs
  /\ \/ ~conf.idem
     \/ req[n].ph = "replied" /\ req[n].out[batch[b].p].k \in {"ooo", "fatal"}
  /\ batch' = [batch EXCEPT ![b].st = "failed"]
  /\ req' = [req EXCEPT ![n].bs = @ \ {b}]
  /\ UNCHANGED <<wire0, conf, issued, acc, rts, queue, muted, busy, nextSeq, md, ldr, log, bst, pres, faults, hard>>
ClientFail(n, b) ==
  /\ FailCore(n, b)
  /\ Resolve(b, LAMBDA i : [k |-> "err", off |-> 0, ts |-> 0, tt |-> 0])

\* acks=0: done_noack as soon as the request is written
NoAckCore(n, b) ==
  /\ conf.acks0 /\ req[n].ph = "sent" /\ b \in req[n].bs
  /\ batch' = [batch EXCEPT ![b].st = "done"]
  /\ req' = [req EXCEPT ![n].bs = @ \ {b}]
  /\ UNCHANGED <<wire0, conf, issued, acc, rts, queue, muted, busy, nextSeq, md, ldr, log, bst, pres, faults, hard>>
NoAck(n, b) ==
  /\ NoAckCore(n, b)
  /\ Resolve(b, LAMBDA i : [k |-> "noack", off |-> 0, ts |-> 0, tt |-> 0])

\* after the back-off: MessageAccumulator.reenqueue puts the batch back at the FRONT
Retriable(n, b) ==
  \/ req[n].ph = "lost"
  \/ req[n].ph = "replied" /\ req[n].out[batch[b].p].k \in {"retriable", "notleader"}

Reenqueue(n, b) ==
  /\ b \in req[n].bs /\ Retriable(n, b)
  /\ queue' = [queue EXCEPT ![batch[b].p] = <<b>> \o @]
  /\ batch' = [batch EXCEPT ![b].st = "queued"]
  /\ req' = [req EXCEPT ![n].bs = @ \ {b}]
  /\ UNCHANGED <<wire0, conf, issued, acc, rts, muted, busy, nextSeq, md, ldr, log, bst, pres, res, nres, faults, hard>>

\* end of _send_produce_req: every batch was resolved or re-enqueued
Release(n) ==
  /\ req[n].ph \in {"replied", "lost"} \/ (conf.acks0 /\ req[n].ph = "sent")
  /\ req[n].bs = {}
  /\ busy' = busy \ {n}
  /\ muted' = muted \ req[n].ps
  /\ req' = [req EXCEPT ![n] = NoReq]
  /\ UNCHANGED <<wire0, conf, issued, acc, rts, batch, queue, nextSeq, md, ldr, log, bst, pres, res, nres, faults, hard>>

\* ---- metadata / cluster environment ---------------------------------------------------------
MdUpdate(view) ==
  /\ md' = view
  /\ UNCHANGED <<wire0, conf, issued, acc, rts, batch, queue, muted, busy, nextSeq, ldr, req, log, bst, pres, res, nres, hard>>

LeaderMoves(p, n) ==
  /\ ldr' = [ldr EXCEPT ![p] = n]
  /\ UNCHANGED <<wire0, conf, issued, acc, rts, batch, queue, muted, busy, nextSeq, md, req, log, bst, pres, res, nres, hard>>


\* ===========================================================================
\* Properties
\* ===========================================================================
\* ---- C01 ---------------------------------------------------------------------
InflightBatches(p) == {b \in 1..Len(batch) : batch[b].p = p /\ batch[b].st = "inflight"}

\* never two batches (requests) of one partition in flight
OneInFlightPerPartition ==
  \A p \in Parts :
    /\ Cardinality({n \in Nodes : Active(n) /\ p \in req[n].ps}) <= 1
    /\ Cardinality(InflightBatches(p)) <= 1

\* what the brokers are shown per partition: valid sequences, no gap, no reuse;
\* a re-sent batch repeats its sequence and its records (else it is a new entry
\* of `pres` and breaks contiguity)
SeqContiguous ==
  (conf.idem /\ ~hard) =>
    \A p \in Parts : \A i \in 1..Len(pres[p]) :
      /\ SeqValid(pres[p][i].seq)
      /\ i > 1 => pres[p][i].seq = SeqAdd(pres[p][i-1].seq, Len(pres[p][i-1].recs))
      /\ \A j \in 1..(i-1) : Range(pres[p][j].recs) \cap Range(pres[p][i].recs) = {}

LogFromAccepted ==
  \A p \in Parts : \A i \in 1..Len(log[p]) : log[p][i].rid \in Range(acc[p])

InLog(p, r) == \E i \in 1..Len(log[p]) : log[p][i].rid = r
FirstPos(p, r) == CHOOSE i \in 1..Len(log[p]) :
                     log[p][i].rid = r /\ \A j \in 1..(i-1) : log[p][j].rid # r
\* first occurrences in the log keep each task's issue order
TaskOrder ==
  \A t \in DOMAIN issued : \A i, j \in 1..Len(issued[t]) : i < j =>
    \A p \in Parts :
      (InLog(p, issued[t][i]) /\ InLog(p, issued[t][j]))
        => FirstPos(p, issued[t][i]) < FirstPos(p, issued[t][j])

AtMostOnce ==
  conf.idem => \A p \in Parts : \A i, j \in 1..Len(log[p]) :
                  i # j => log[p][i].rid # log[p][j].rid

AckedExactlyOnce ==
  conf.idem => \A r \in DOMAIN res : res[r].k = "ok" =>
    \E p \in Parts : Cardinality({i \in 1..Len(log[p]) : log[p][i].rid = r}) = 1

\* without idempotence duplicates are whole re-sent batches: the log is a
\* concatenation of complete client batches
RECURSIVE WholeFrom(_, _)
WholeFrom(p, i) ==
  IF i > Len(log[p]) THEN TRUE
  ELSE LET b == log[p][i].b
           n == Len(batch[b].recs)
       IN /\ i + n - 1 <= Len(log[p])
          /\ \A k \in 1..n : log[p][i + k - 1].b = b /\ log[p][i + k - 1].rid = batch[b].recs[k]
          /\ WholeFrom(p, i + n)
DuplicatesAreWholeBatches == \A p \in Parts : WholeFrom(p, 1)

\* ---- C02 ---------------------------------------------------------------------
ResolvedAtMostOnce == \A r \in DOMAIN nres : nres[r] <= 1

TrueCoordinates ==
  \A r \in DOMAIN res : res[r].k = "ok" =>
    \E p \in Parts :
      /\ r \in Range(acc[p])
      /\ res[r].off + 1 \in 1..Len(log[p])
      /\ LET e == log[p][res[r].off + 1] IN
           /\ e.rid = r
           /\ e.ts = res[r].ts
           /\ res[r].tt = conf.tst[p]

\* ("cancelled": the application cancelled the future itself -- only the trace spec ever records that)
Acks0NoMetadata == conf.acks0 => \A r \in DOMAIN res : res[r].k \in {"noack", "err", "cancelled"}
AcksMetadata == ~conf.acks0 => \A r \in DOMAIN res : res[r].k \in {"ok", "err", "cancelled"}

IdemNeverFails == (conf.idem /\ ~hard) => \A r \in DOMAIN res : res[r].k # "err"

Accepted == UNION {Range(acc[p]) : p \in Parts}
AllResolved == Accepted \subseteq DOMAIN res
Quiescent == /\ \A n \in Nodes : req[n].ph = "none"
             /\ \A p \in Parts : queue[p] = <<>>
=============================================================================
