------------------------------ MODULE Trace_Txn ------------------------------
(***************************************************************************)
(* Trace specification for runs of the REAL transactional AIOKafkaProducer   *)
(* (harness/drv_txn.py) against the simulated transaction coordinator.       *)
(* TxnProducer.tla proves C07/C16 on the intended design for every           *)
(* interleaving; here the same clauses are the guards of the event actions.  *)
(*                                                                           *)
(*  Call / Return   C16: a call is accepted only where the state machine     *)
(*                  allows it; an out-of-order call raises and leaves the    *)
(*                  state unchanged; a legal call fails only when the        *)
(*                  producer is (or becomes) in an error state               *)
(*  BrokerApply     C07 ProduceOnlyAfterAdded / NoTxnDataOutsideTxn          *)
(*  EndTxnReply     C07 NoEndWhileUnacked                                    *)
(*  Append/Done/Fail  batches of the open transaction                        *)
(*  coordinator events  mirror of Ongoing / Prepare / Empty, markers         *)
(*  End             C07 Atomicity (records and group offsets), no hanging    *)
(*                  transaction left in any partition                        *)
(***************************************************************************)
EXTENDS Naturals, Integers, Sequences, FiniteSets, TLC, SequencesExt, Functions, TraceKit

CONSTANTS Insts, TPs

VARIABLES
  tid, l,
  tstate,     \* instance -> TransactionState name ("UNINITIALIZED", "READY", ...)
  alive,      \* instance -> BOOLEAN
  calling,    \* call id -> [i, op, legal, st]: API calls in progress (several tasks may call concurrently)
  curTxn,     \* number of the transaction opened by the last successful begin (0 none)
  outcome,    \* txn -> "open" | "committed" | "aborted" | "failed"
  ridTxn,     \* record id -> transaction number it was sent in
  accepted,   \* txn -> set of record ids accepted by send()
  openB,      \* set of <<instance, batch>> appended to and not yet done/failed
  cstate,     \* coordinator: "Empty" | "Ongoing" | "PrepareCommit" | "PrepareAbort"
  cparts,     \* partitions added to the open transaction at the coordinator
  cepoch,     \* current producer epoch at the coordinator
  log,        \* tp -> Seq([k |-> "data", rids] | [k |-> "commit" | "abort"])
  txnOff,     \* txn -> offsets sent with send_offsets_to_transaction (successful calls)
  goff,       \* tp -> committed group offset as written by group markers (-1 none)
  resolved,   \* record ids whose send() future completed (either way)
  ridInst,    \* record id -> instance that sent it
  abErr,      \* instance -> name of the abortable error that put it into ABORTABLE_ERROR ("" none)
  fatalCause, \* something that justifies a FATAL_ERROR happened (fencing, TRANSACTIONAL_ID_AUTHORIZATION_FAILED, ...)
  commitSeen, \* the coordinator accepted EndTxn(commit) since the last commit call started (the commit point)
  failedR,    \* record ids whose send() future completed with an error
  viol        \* name of the first violated clause that does not block the trace ("" none)

tvars == <<tid, l, tstate, alive, calling, curTxn, outcome, ridTxn, accepted, openB, cstate, cparts, cepoch, log,
           txnOff, goff, resolved, ridInst, failedR, commitSeen, abErr, fatalCause, viol>>

Tr == Traces[tid]
Ev == Tr[l]
Cfg == Tr[1]
IsEvent(e) == l <= Len(Tr) /\ Ev.e = e /\ l' = l + 1 /\ UNCHANGED tid
Upd(f, k, v) == [x \in DOMAIN f \cup {k} |-> IF x = k THEN v ELSE f[x]]
Keep(vs) == UNCHANGED vs
NoCall == [op |-> "", legal |-> TRUE, st |-> "", offs |-> <<>>]
Merge(new, old) == [k \in DOMAIN new \cup DOMAIN old |-> IF k \in DOMAIN new THEN new[k] ELSE old[k]]

TraceInit ==
  /\ tid \in 1..NT /\ l = 2
  /\ tstate = [i \in Insts |-> "UNINITIALIZED"]
  /\ alive = [i \in Insts |-> FALSE]
  /\ calling = <<>>
  /\ curTxn = 0 /\ outcome = <<>> /\ ridTxn = <<>> /\ accepted = <<>> /\ openB = {}
  /\ cstate = "Empty" /\ cparts = {} /\ cepoch = -1
  /\ log = [tp \in TPs |-> <<>>]
  /\ txnOff = <<>>
  /\ goff = [tp \in TPs |-> -1]
  /\ resolved = {} /\ ridInst = <<>> /\ failedR = {} /\ commitSeen = FALSE /\ abErr = [i \in Insts |-> ""] /\ fatalCause = FALSE /\ viol = ""

\* ---- C16: the API state machine ----------------------------------------------------------------
Legal(op, st) ==
  CASE op \in {"begin", "ctx_enter"} -> st = "READY"
    [] op \in {"send", "send_offsets", "commit", "ctx_exit_ok"} -> st = "IN_TRANSACTION"
    [] op = "abort" -> st \in {"IN_TRANSACTION", "ABORTABLE_ERROR"}
    [] op = "ctx_exit_exc" -> st \in {"IN_TRANSACTION", "ABORTABLE_ERROR", "FATAL_ERROR"}   \* aborts; silent once fatal
    [] OTHER -> TRUE
ErrorState(st) == st \in {"ABORTABLE_ERROR", "FATAL_ERROR"}

TCall ==
  /\ IsEvent("Call")
  /\ LET i == Ev.i IN
     /\ calling' = Upd(calling, Ev.cid, [op |-> Ev.op, legal |-> Legal(Ev.op, tstate[i]), st |-> tstate[i],
                                          offs |-> IF Ev.op = "send_offsets" THEN Ev.offsets ELSE <<>>])
     /\ IF Ev.op \in {"begin", "ctx_enter"} /\ Legal(Ev.op, tstate[i])
        THEN /\ curTxn' = Ev.txn
             /\ outcome' = Upd(outcome, Ev.txn, "open")
             /\ accepted' = Upd(accepted, Ev.txn, {})
        ELSE UNCHANGED <<curTxn, outcome, accepted>>
     /\ IF Ev.op = "send" THEN ridTxn' = Upd(ridTxn, Ev.rid, curTxn) /\ ridInst' = Upd(ridInst, Ev.rid, Ev.i)
        ELSE UNCHANGED <<ridTxn, ridInst>>
     /\ commitSeen' = IF Ev.op \in {"commit", "ctx_exit_ok"} /\ Legal(Ev.op, tstate[i]) THEN FALSE ELSE commitSeen
  /\ Keep(<<tstate, alive, openB, cstate, cparts, cepoch, log, txnOff, goff, resolved, failedR, abErr, fatalCause, viol>>)

TReturn ==
  /\ IsEvent("Return")
  /\ LET i == Ev.i
         c == IF Ev.cid \in DOMAIN calling THEN calling[Ev.cid] ELSE NoCall
     IN IF Ev.op = "start" \/ c.op = ""
        THEN /\ alive' = [alive EXCEPT ![i] = Ev.ok]
             /\ UNCHANGED <<outcome, txnOff>>
        ELSE /\ Ev.ok => c.legal                                   \* accepted only in protocol order
             /\ ~c.legal => ~Ev.ok                                 \* out of order: raises
             /\ (c.legal /\ ~Ev.ok) => (ErrorState(tstate[i]) \/ ErrorState(c.st))   \* legal calls fail only in error states
             \* abort is the way out of an abortable error: it fails only when the producer is beyond recovery
             \* (an abort called BEFORE the error surfaced may raise it and has to be repeated -- named deviation)
             /\ (c.op \in {"abort", "ctx_exit_exc"} /\ c.st = "ABORTABLE_ERROR" /\ ~Ev.ok) => tstate[i] = "FATAL_ERROR"
             \* C16: what a successful call leaves behind -- commit / abort / context exit end the transaction (READY: a new
             \* one can begin), begin opens one; a context exit that returns silently on a FATAL producer stays FATAL
             /\ (Ev.ok /\ c.op \in {"commit", "ctx_exit_ok", "abort", "ctx_exit_exc"}) =>
                   tstate[i] = (IF c.st = "FATAL_ERROR" THEN "FATAL_ERROR" ELSE "READY")
             /\ (Ev.ok /\ c.op \in {"begin", "ctx_enter"}) => tstate[i] = "IN_TRANSACTION"
             \* C16: after an abortable error commit raises THAT error
             /\ (c.op \in {"commit", "ctx_exit_ok"} /\ c.st = "ABORTABLE_ERROR" /\ tstate[i] = "ABORTABLE_ERROR") => Ev.err = abErr[i]
             \* C07: when only retriable faults occur every transaction ends the way the application requested --
             \* no call made in protocol order fails
             /\ (Cfg.strict /\ c.legal) => Ev.ok
             /\ Ev.err # "CallTimeout"                                \* a call fails or succeeds, it never hangs
             /\ outcome' = IF c.op \in {"commit", "ctx_exit_ok"} /\ curTxn \in DOMAIN outcome
                           THEN [outcome EXCEPT ![curTxn] = IF (Ev.ok \/ (c.legal /\ commitSeen)) /\ @ = "open" THEN "committed"
                                                             ELSE IF @ = "open" THEN "failed" ELSE @]
                           ELSE IF c.op \in {"abort", "ctx_exit_exc"} /\ curTxn \in DOMAIN outcome
                           THEN [outcome EXCEPT ![curTxn] = IF @ = "open" THEN (IF Ev.ok THEN "aborted" ELSE "failed") ELSE @]
                           ELSE IF c.op \in {"begin", "ctx_enter"} /\ c.legal /\ ~Ev.ok /\ curTxn \in DOMAIN outcome
                           THEN [outcome EXCEPT ![curTxn] = IF @ = "open" THEN "failed" ELSE @]
                           ELSE outcome
             /\ txnOff' = IF c.op = "send_offsets" /\ Ev.ok
                          THEN Upd(txnOff, curTxn, Merge(c.offs, IF curTxn \in DOMAIN txnOff THEN txnOff[curTxn] ELSE <<>>))
                          ELSE txnOff
             /\ UNCHANGED alive
  /\ calling' = [c \in DOMAIN calling \ {Ev.cid} |-> calling[c]]
  \* C07: a commit must not succeed when a record the transaction accepted was refused for good
  /\ viol' = IF /\ viol = "" /\ Ev.ok /\ Ev.cid \in DOMAIN calling /\ calling[Ev.cid].op \in {"commit", "ctx_exit_ok"}
                 /\ curTxn \in DOMAIN accepted /\ accepted[curTxn] \cap failedR # {}
              THEN "CommitAfterFailedSend" ELSE viol
  /\ Keep(<<tstate, curTxn, ridTxn, accepted, openB, cstate, cparts, cepoch, log, goff, resolved, ridInst, failedR, commitSeen, abErr, fatalCause>>)

\* C16 "a call out of order raises without any effect": the state machine does not move as the effect of
\* an illegal call -- an (ok) API-driven transition needs a legal call in progress; sender-driven
\* transitions are those to READY (EndTxn done / InitProducerId) and to the error states
ApiDriven(to) == to \in {"IN_TRANSACTION", "COMMITTING_TRANSACTION", "ABORTING_TRANSACTION"}
TTState ==
  /\ IsEvent("TState")
  /\ (Ev.ok /\ ApiDriven(Ev.to)) => \E c \in DOMAIN calling : calling[c].legal
  \* C16: only fatal conditions (fencing, sequence violation, transactional-id authorization) are fatal
  /\ (Ev.ok /\ Ev.to = "FATAL_ERROR") => fatalCause
  /\ tstate' = [tstate EXCEPT ![Ev.i] = IF Ev.ok THEN Ev.to ELSE @]
  /\ abErr' = IF Ev.ok /\ Ev.to \in {"READY", "FATAL_ERROR"} THEN [abErr EXCEPT ![Ev.i] = ""] ELSE abErr
  /\ outcome' = IF Ev.ok /\ Ev.to \in {"ABORTABLE_ERROR", "FATAL_ERROR"} /\ curTxn \in DOMAIN outcome /\ outcome[curTxn] = "open"
                THEN [outcome EXCEPT ![curTxn] = "failed"] ELSE outcome
  /\ Keep(<<alive, calling, curTxn, ridTxn, accepted, openB, cstate, cparts, cepoch, log, txnOff, goff, resolved, ridInst, failedR, commitSeen, fatalCause, viol>>)

\* ---- batches -----------------------------------------------------------------------------------------------
TAppend ==
  /\ IsEvent("Append")
  /\ Ev.rid \in DOMAIN ridTxn
  /\ \E c \in DOMAIN calling : calling[c].op = "send" /\ calling[c].legal   \* C16: an out-of-order send has no effect
  /\ accepted' = [accepted EXCEPT ![ridTxn[Ev.rid]] = @ \cup {Ev.rid}]
  /\ openB' = openB \cup {<<Ev.i, Ev.b>>}
  /\ Keep(<<tstate, alive, calling, curTxn, outcome, ridTxn, cstate, cparts, cepoch, log, txnOff, goff, resolved, ridInst, failedR, commitSeen, abErr, fatalCause, viol>>)

TDoneFail ==
  /\ (IsEvent("Done") \/ IsEvent("Fail"))
  /\ openB' = openB \ {<<Ev.i, Ev.b>>}
  /\ Keep(<<tstate, alive, calling, curTxn, outcome, ridTxn, accepted, cstate, cparts, cepoch, log, txnOff, goff, resolved, ridInst, failedR, commitSeen, abErr, fatalCause, viol>>)

\* ---- cluster -------------------------------------------------------------------------------------------------------
\* C07: a transactional batch reaches a leader only for a partition the coordinator acknowledged
\* for the OPEN transaction of the current epoch
TBrokerApply ==
  /\ IsEvent("BrokerApply")
  /\ Ev.txnl
  /\ viol' = IF viol = "" /\ ~(Ev.tp \in cparts /\ cstate = "Ongoing" /\ Ev.epoch = cepoch)
             THEN "ProduceOnlyAfterAdded" ELSE viol
  /\ log' = [log EXCEPT ![Ev.tp] = Append(@, [k |-> "data", rids |-> Ev.rids])]
  /\ Keep(<<tstate, alive, calling, curTxn, outcome, ridTxn, accepted, openB, cstate, cparts, cepoch, txnOff, goff, resolved, ridInst, failedR, commitSeen, abErr, fatalCause>>)

TBrokerOther ==
  /\ (IsEvent("BrokerReject") \/ IsEvent("BrokerDup") \/ IsEvent("NewInstance")
      \/ IsEvent("AddOffsetsReply") \/ IsEvent("TxnOffsetCommitReply") \/ IsEvent("CoordinatorMoves")
      \/ IsEvent("NodeDown") \/ IsEvent("LeaderMoves"))
  /\ Keep(<<tstate, alive, calling, curTxn, outcome, ridTxn, accepted, openB, cstate, cparts, cepoch, log, txnOff, goff, resolved, ridInst, failedR, commitSeen, abErr, fatalCause, viol>>)

\* a send() future completes; successfully only for a record that is in a partition log
InLog(rid) == \E tp \in TPs : \E j \in 1..Len(log[tp]) : log[tp][j].k = "data" /\ rid \in Range(log[tp][j].rids)
TResolved ==
  /\ IsEvent("Resolved")
  /\ Ev.k = "ok" => InLog(Ev.rid)
  /\ resolved' = resolved \cup {Ev.rid}
  /\ failedR' = IF Ev.k = "ok" THEN failedR ELSE failedR \cup {Ev.rid}
  /\ Keep(<<tstate, alive, calling, curTxn, outcome, ridTxn, accepted, openB, cstate, cparts, cepoch, log, txnOff, goff, ridInst, commitSeen, abErr, fatalCause, viol>>)

\* C16: after a fatal error nothing more is sent on behalf of the transaction
TxnApis == {"ProduceRequest", "AddPartitionsToTxnRequest", "AddOffsetsToTxnRequest", "TxnOffsetCommitRequest", "EndTxnRequest"}
TClientSend ==
  /\ IsEvent("ClientSend")
  /\ Ev.api \in TxnApis => tstate[Ev.i] # "FATAL_ERROR"
  /\ Keep(<<tstate, alive, calling, curTxn, outcome, ridTxn, accepted, openB, cstate, cparts, cepoch, log, txnOff, goff, resolved, ridInst, failedR, commitSeen, abErr, fatalCause, viol>>)

FatalCodes == {45, 53, 47, 48, 49}     \* sequence violation, transactional-id authorization, (epoch / txn-state / id-mapping)
TFault ==
  /\ IsEvent("Fault")
  /\ fatalCause' = (fatalCause \/ (Ev.kind = "error" /\ Ev.code \in FatalCodes))
  /\ Keep(<<tstate, alive, calling, curTxn, outcome, ridTxn, accepted, openB, cstate, cparts, cepoch, log, txnOff, goff, resolved, ridInst, failedR, commitSeen, abErr, viol>>)

TAbortableError ==
  /\ IsEvent("AbortableError")
  /\ abErr' = [abErr EXCEPT ![Ev.i] = Ev.err]
  /\ Keep(<<tstate, alive, calling, curTxn, outcome, ridTxn, accepted, openB, cstate, cparts, cepoch, log, txnOff, goff, resolved, ridInst, failedR, commitSeen, fatalCause, viol>>)

TInitPid ==
  /\ IsEvent("InitPidReply")
  /\ cepoch' = IF Ev.code = 0 THEN Ev.epoch ELSE cepoch
  \* an epoch bump fences whoever still uses the previous epoch
  /\ fatalCause' = (fatalCause \/ (Ev.code = 0 /\ cepoch >= 0 /\ Ev.epoch > cepoch))
  \* once the next instance has its epoch nothing of the dead one can be applied any more: what is still in doubt failed
  /\ outcome' = [n \in DOMAIN outcome |-> IF outcome[n] = "indoubt" /\ Ev.code = 0 THEN "failed" ELSE outcome[n]]
  /\ Keep(<<tstate, alive, calling, curTxn, ridTxn, accepted, openB, cstate, cparts, log, txnOff, goff, resolved, ridInst, failedR, commitSeen, abErr, viol>>)

TAddPartitions ==
  /\ IsEvent("AddPartitionsReply")
  /\ IF Ev.code = 0
     THEN /\ cstate \in {"Empty", "Ongoing"}
          /\ cstate' = "Ongoing" /\ cparts' = cparts \cup Range(Ev.tps)
     ELSE UNCHANGED <<cstate, cparts>>
  /\ Keep(<<tstate, alive, calling, curTxn, outcome, ridTxn, accepted, openB, cepoch, log, txnOff, goff, resolved, ridInst, failedR, commitSeen, abErr, fatalCause, viol>>)

\* C07: EndTxn reaches the coordinator only when no batch of the transaction is queued or in flight
TEndTxnReply ==
  /\ IsEvent("EndTxnReply")
  /\ \A x \in openB : x[1] # Ev.i
  /\ Keep(<<tstate, alive, calling, curTxn, outcome, ridTxn, accepted, openB, cstate, cparts, cepoch, log, txnOff, goff, resolved, ridInst, failedR, commitSeen, abErr, fatalCause, viol>>)

TPrepare ==
  /\ IsEvent("TxnPrepare")
  /\ cstate' = IF Ev.commit THEN "PrepareCommit" ELSE "PrepareAbort"
  /\ cepoch' = Ev.epoch
  /\ commitSeen' = (commitSeen \/ Ev.commit)
  /\ fatalCause' = (fatalCause \/ Ev.why = "fenced")
  \* the EndTxn a killed producer had put on the wire decides its in-doubt transaction; so does the fencing abort
  /\ outcome' = [n \in DOMAIN outcome |-> IF outcome[n] = "indoubt"
                                           THEN (IF Ev.commit /\ Ev.why = "EndTxn" THEN "committed" ELSE "failed")
                                           ELSE outcome[n]]
  /\ Keep(<<tstate, alive, calling, curTxn, ridTxn, accepted, openB, cparts, log, txnOff, goff, resolved, ridInst, failedR, abErr, viol>>)

TWriteMarker ==
  /\ IsEvent("WriteMarker")
  /\ log' = [log EXCEPT ![Ev.tp] = Append(@, [k |-> IF Ev.commit THEN "commit" ELSE "abort", rids |-> <<>>])]
  /\ Keep(<<tstate, alive, calling, curTxn, outcome, ridTxn, accepted, openB, cstate, cparts, cepoch, txnOff, goff, resolved, ridInst, failedR, commitSeen, abErr, fatalCause, viol>>)

TGroupMarker ==
  /\ IsEvent("GroupMarker")
  /\ goff' = IF Ev.commit THEN [tp \in TPs |-> IF tp \in DOMAIN Ev.offsets THEN Ev.offsets[tp] ELSE goff[tp]] ELSE goff
  /\ Keep(<<tstate, alive, calling, curTxn, outcome, ridTxn, accepted, openB, cstate, cparts, cepoch, log, txnOff, resolved, ridInst, failedR, commitSeen, abErr, fatalCause, viol>>)

TComplete ==
  /\ IsEvent("TxnComplete")
  /\ cstate' = "Empty" /\ cparts' = {}
  /\ Keep(<<tstate, alive, calling, curTxn, outcome, ridTxn, accepted, openB, cepoch, log, txnOff, goff, resolved, ridInst, failedR, commitSeen, abErr, fatalCause, viol>>)

TKilled ==
  /\ IsEvent("Killed")
  /\ alive' = [alive EXCEPT ![Ev.i] = FALSE]
  /\ calling' = <<>>
  /\ openB' = {x \in openB : x[1] # Ev.i}
  \* a commit in progress whose EndTxn(commit) the coordinator accepted IS committed (the commit point is the
  \* coordinator's PrepareCommit); any other open transaction of a dead producer must end aborted
  /\ outcome' = IF curTxn \in DOMAIN outcome /\ outcome[curTxn] = "open"
                THEN [outcome EXCEPT ![curTxn] =
                        IF \E c \in DOMAIN calling : calling[c].legal /\ calling[c].op \in {"commit", "ctx_exit_ok"}
                        THEN (IF commitSeen THEN "committed" ELSE "indoubt")   \* its EndTxn may still be on the wire
                        ELSE "failed"]
                ELSE outcome
  /\ Keep(<<tstate, curTxn, ridTxn, accepted, cstate, cparts, cepoch, log, txnOff, goff, resolved, ridInst, failedR, commitSeen, abErr, fatalCause, viol>>)

\* ---- the read-committed view at the end -------------------------------------------------------------------------------
MarkerAfter(tp, i) ==
  LET js == {j \in (i + 1)..Len(log[tp]) : log[tp][j].k # "data"} IN
  IF js = {} THEN "open" ELSE log[tp][CHOOSE j \in js : \A x \in js : j <= x].k
VisibleRC == UNION {UNION {Range(log[tp][i].rids) : i \in {i \in 1..Len(log[tp]) : log[tp][i].k = "data" /\ MarkerAfter(tp, i) = "commit"}}
                    : tp \in TPs}
Dangling == {tp \in TPs : \E i \in 1..Len(log[tp]) : log[tp][i].k = "data" /\ MarkerAfter(tp, i) = "open"}

TEnd ==
  /\ IsEvent("End")
  /\ \A n \in DOMAIN outcome :
       /\ outcome[n] = "committed" => accepted[n] \subseteq VisibleRC             \* all of a committed transaction
       /\ outcome[n] \in {"aborted", "failed", "indoubt"} => accepted[n] \cap VisibleRC = {}  \* none of an aborted / failed one
  \* nothing left hanging: unless the last instance still has a transaction open, every
  \* transactional record has its marker (otherwise the partition's LSO is stuck for ever)
  \* (a program that walks away from an abortable error without abort, or a producer in a fatal state, leaves it to the
  \* coordinator's transaction timeout)
  /\ ((\A n \in DOMAIN outcome : outcome[n] # "open") /\ \A i \in Insts : alive[i] => tstate[i] = "READY") => Dangling = {}
  \* group offsets: what the markers applied is what the group coordinator holds, and it is exactly the
  \* offsets of the committed transactions (the latest one per partition), none of an aborted / failed one
  /\ \A tp \in TPs : goff[tp] = IF tp \in DOMAIN Ev.goffsets THEN Ev.goffsets[tp] ELSE -1
  /\ \A tp \in TPs :
       LET ns == {n \in DOMAIN txnOff : outcome[n] = "committed" /\ tp \in DOMAIN txnOff[n]} IN
       goff[tp] = IF ns = {} THEN -1 ELSE txnOff[CHOOSE n \in ns : \A m \in ns : m <= n][tp]
  \* C16/C02: no send() future of a live instance is left pending (in particular after a fatal error)
  /\ \A n \in DOMAIN accepted : \A r \in accepted[n] : alive[ridInst[r]] => r \in resolved
  /\ Keep(<<tstate, alive, calling, curTxn, outcome, ridTxn, accepted, openB, cstate, cparts, cepoch, log, txnOff, goff, resolved, ridInst, failedR, commitSeen, abErr, fatalCause, viol>>)

TraceNext ==
  \/ TCall \/ TReturn \/ TTState \/ TAppend \/ TDoneFail \/ TBrokerApply \/ TBrokerOther \/ TInitPid \/ TAddPartitions
  \/ TResolved \/ TClientSend \/ TFault \/ TAbortableError
  \/ TEndTxnReply \/ TPrepare \/ TWriteMarker \/ TGroupMarker \/ TComplete \/ TKilled \/ TEnd

TraceSpec == TraceInit /\ [][TraceNext]_tvars

\* a group marker of an aborted transaction never applies offsets; offsets only come from markers
Bad == viol
View == [tstate |-> tstate, calling |-> calling, curTxn |-> curTxn, outcome |-> outcome, accepted |-> accepted,
         openB |-> openB, cstate |-> cstate, cparts |-> cparts, cepoch |-> cepoch, log |-> log, goff |-> goff]
Rec == Record(tid, l, Bad, IF IOEnv.DIAG = "1" THEN ToString(View) ELSE "")
Post == WriteVerdicts
=============================================================================
