SPECIFICATION Spec
CONSTANTS
  Parts = {p1, p2}
  MaxTxn = 2
  MaxSend = 2
  Faults = 1
INVARIANT ProtocolOrder
INVARIANT NoEndWhileUnacked
INVARIANT Atomicity
INVARIANT OffsetsAtomic
INVARIANT FatalIsFinal
CHECK_DEADLOCK FALSE
