SPECIFICATION LiveSpec
CONSTANTS
  CorrMax = 3
  Huge = 1000
  MaxReq = 2
  MaxFrames = 2
  FaultBudget = 1
  BodyLen = 1
  Vias = {FALSE, TRUE}
  InitCorrs = {2}
  Fine = FALSE
  KindNames = {"plain", "quirk"}
  MaxDone = 1
PROPERTY FailureCloses
CHECK_DEADLOCK FALSE
