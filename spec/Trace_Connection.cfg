SPECIFICATION TraceSpec
CONSTANTS
  CorrMax = 2147483647
  Huge = 1073741824
CONSTRAINT Rec
POSTCONDITION Post
CHECK_DEADLOCK FALSE
