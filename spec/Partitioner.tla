---------------------------- MODULE Partitioner ----------------------------
(* C17: the default partitioner.                                             *)
(*                                                                           *)
(* Specification of Kafka's (Java) murmur2 and of the partition choice, in   *)
(* byte-limb arithmetic (TLC integers are 32 bit and trap on overflow, so a  *)
(* 32-bit word is a little-endian tuple of four bytes).  TLC is used as an   *)
(* independent evaluator: the harness records what the real                  *)
(* `aiokafka.partitioner.murmur2`, `DefaultPartitioner.__call__` and         *)
(* `AIOKafkaProducer._partition` returned for a table of cases, and every    *)
(* case is one state of this module in which the invariant `CaseOK` must     *)
(* hold.  The six Java-computed anchors of tests/test_partitioner.py pin the *)
(* transcription itself (ASSUME below).                                      *)
(***************************************************************************)
EXTENDS Naturals, Sequences, FiniteSets, TLC, TLCExt, Json, IOUtils, Bitwise

\* ---- 32-bit words as <<b0, b1, b2, b3>> (b0 least significant) ----------
W(b0, b1, b2, b3) == <<b0, b1, b2, b3>>
FromNat16(hi, lo) == <<lo % 256, lo \div 256, hi % 256, hi \div 256>>
Hi(w) == w[4] * 256 + w[3]
Lo(w) == w[2] * 256 + w[1]
XorW(a, b) == <<a[1] ^^ b[1], a[2] ^^ b[2], a[3] ^^ b[3], a[4] ^^ b[4]>>

\* product modulo 2^32 (schoolbook on bytes; partial sums stay below 2^19)
MulW(a, b) ==
  LET s0 == a[1] * b[1]
      s1 == a[1] * b[2] + a[2] * b[1] + s0 \div 256
      s2 == a[1] * b[3] + a[2] * b[2] + a[3] * b[1] + s1 \div 256
      s3 == a[1] * b[4] + a[2] * b[3] + a[3] * b[2] + a[4] * b[1] + s2 \div 256
  IN <<s0 % 256, s1 % 256, s2 % 256, s3 % 256>>

\* unsigned shift right (Java >>>) by 24, 13, 15: results are below 2^19
SmallW(n) == <<n % 256, (n \div 256) % 256, (n \div 65536) % 256, 0>>
Shr24(w) == SmallW(w[4])
Shr13(w) == SmallW(Hi(w) * 8 + Lo(w) \div 8192)
Shr15(w) == SmallW(Hi(w) * 2 + Lo(w) \div 32768)

M == W(149, 233, 209, 91)        \* 0x5BD1E995
Seed == W(140, 178, 71, 151)     \* 0x9747B28C

\* ---- murmur2 as in org.apache.kafka.common.utils.Utils.murmur2 ----------
RECURSIVE Mix(_, _, _, _)
Mix(data, i, n4, h) ==           \* i-th 4-byte block, 0-based
  IF i = n4 THEN h
  ELSE LET k0 == <<data[4*i+1], data[4*i+2], data[4*i+3], data[4*i+4]>>
           k1 == MulW(k0, M)
           k2 == XorW(k1, Shr24(k1))
           k3 == MulW(k2, M)
           h1 == XorW(MulW(h, M), k3)
       IN Mix(data, i + 1, n4, h1)

Murmur2(data) ==
  LET n == Len(data)
      n4 == n \div 4
      base == 4 * n4
      ex == n % 4
      \* seed ^ length: the harness keeps keys below 2^16 bytes
      h0 == XorW(Seed, FromNat16(0, n))
      h1 == Mix(data, 0, n4, h0)
      h2 == IF ex >= 3 THEN XorW(h1, <<0, 0, data[base + 3], 0>>) ELSE h1
      h3 == IF ex >= 2 THEN XorW(h2, <<0, data[base + 2], 0, 0>>) ELSE h2
      h4 == IF ex >= 1 THEN MulW(XorW(h3, <<data[base + 1], 0, 0, 0>>), M) ELSE h3
      h5 == XorW(h4, Shr13(h4))
      h6 == MulW(h5, M)
  IN XorW(h6, Shr15(h6))

\* (h & 0x7fffffff) % n, for 1 <= n <= 2^15, without leaving 32-bit range:
\* v = hi15 * 65536 + lo ;  v % n = ((hi15 % n) * (65536 % n) + lo % n) % n
PosMod(w, n) ==
  LET hi15 == (w[4] % 128) * 256 + w[3]
  IN ((hi15 % n) * (65536 % n) + (Lo(w) % n)) % n

\* index the Java client's DefaultPartitioner picks for a keyed record
KeyedIndex(key, nparts) == PosMod(Murmur2(key), nparts)

\* ---- anchors: values computed by the Java client (tests/test_partitioner.py)
Bytes(s) == s
ASSUME KeyedIndex(<<>>, 1000) = 681
ASSUME KeyedIndex(<<97>>, 1000) = 524
ASSUME KeyedIndex(<<97, 98>>, 1000) = 434
ASSUME KeyedIndex(<<97, 98, 99>>, 1000) = 107
ASSUME KeyedIndex(<<49, 50, 51, 52, 53, 54, 55, 56, 57>>, 1000) = 566
ASSUME KeyedIndex(<<0, 32>>, 1000) = 742

\* ---- the recorded table ---------------------------------------------------
\* case: [kind |-> "hash",  key |-> Seq(0..255), got |-> <<b0,b1,b2,b3>>]
\*       [kind |-> "keyed", key, all |-> Seq(Nat), avail |-> Seq(Nat), got |-> Nat]
\*       [kind |-> "unkeyed", all, avail, got]
Cases == JsonDeserialize(IOEnv.TRACE_FILE)
NC == Len(Cases)

ToSet(s) == {s[i] : i \in 1..Len(s)}

\* `all` is either given explicitly or, when it is 0..n-1, as its length `n`
NAll(c) == IF "n" \in DOMAIN c THEN c.n ELSE Len(c.all)
AllAt(c, j) == IF "n" \in DOMAIN c THEN j - 1 ELSE c.all[j]
AllSet(c) == IF "n" \in DOMAIN c THEN 0..(c.n - 1) ELSE ToSet(c.all)

CaseOK(c) ==
  CASE c.kind = "hash"    -> c.got = Murmur2(c.key)
    [] c.kind = "keyed"   -> c.got = AllAt(c, KeyedIndex(c.key, NAll(c)) + 1)
    [] c.kind = "unkeyed" -> IF c.avail # <<>> THEN c.got \in ToSet(c.avail)
                                               ELSE c.got \in AllSet(c)

VARIABLE i
Stride == 512
Init == i \in {1 + k * Stride : k \in 0..((NC - 1) \div Stride)}
Next == /\ i % Stride # 0 /\ i < NC
        /\ i' = i + 1
Spec == Init /\ [][Next]_i

\* failing case numbers are collected (verdicts are total), not just the first
ASSUME TLCSet(1, {})
Collect == IF CaseOK(Cases[i]) THEN TRUE ELSE TLCSet(1, TLCGet(1) \cup {i})
WriteVerdicts == JsonSerialize(IOEnv.VERDICT_FILE, [n |-> NC, bad |-> TLCGet(1)])

=============================================================================
