------------------------------ MODULE WireTable ------------------------------
(* C11: TLC as the judge of what the real codecs of aiokafka/protocol did.    *)
(*                                                                           *)
(* The harness records one case per call of the real code (JSON, values in   *)
(* the representation of WireTypes); one case = one state; CaseOK decides.   *)
(*   [kind |-> "enc", t, v, ok, got, dec]                                    *)
(*        the real encoder of type t was given v and returned the bytes      *)
(*        `got` (ok = FALSE: it raised); the real decoder then returned      *)
(*        `dec` from `got` (rt = FALSE: it raised / left bytes unread)       *)
(*        clauses  enc: got = Enc(t, v)      rt: dec = v                      *)
(*   [kind |-> "dec", t, inp, ok, dec, used]                                 *)
(*        the real decoder of type t was given the bytes inp (written by the *)
(*        harness, not by the code under test) and returned dec after        *)
(*        consuming `used` bytes    clause  dec: Dec(t, inp, 1) = <<dec, used>>*)
(* A rejected case is judged again with a field clause = enc | rt | dec so   *)
(* that the harness can name the failing conjunct.                           *)
(***************************************************************************)
EXTENDS WireTypes, TLCExt, Json, IOUtils

Cases == JsonDeserialize(IOEnv.TRACE_FILE)
NC == Len(Cases)
\* a case may name the one clause to evaluate (diagnosis of a rejected case)
ClauseOf(c) == IF "clause" \in DOMAIN c THEN c.clause ELSE "all"
On(c, name) == ClauseOf(c) \in {"all", name}

CaseOK(c) ==
  CASE c.kind = "enc" ->
         /\ On(c, "enc") => c.ok /\ c.got = Enc(c.t, c.v)
         /\ On(c, "rt") => c.ok /\ c.rt /\ c.dec = c.v
    [] c.kind = "dec" ->
         On(c, "dec") => c.ok /\ Dec(c.t, c.inp, 1) = [v |-> c.dec, p |-> c.used + 1]

VARIABLE i
Stride == 256
Init == i \in {1 + k * Stride : k \in 0..((NC - 1) \div Stride)}
Next == /\ i % Stride # 0 /\ i < NC
        /\ i' = i + 1
Spec == Init /\ [][Next]_i

ASSUME TLCSet(1, {})
Collect == IF CaseOK(Cases[i]) THEN TRUE ELSE TLCSet(1, TLCGet(1) \cup {i})
WriteVerdicts == JsonSerialize(IOEnv.VERDICT_FILE, [n |-> NC, bad |-> TLCGet(1)])
=============================================================================
