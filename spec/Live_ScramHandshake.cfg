SPECIFICATION Spec
CONSTANTS
  Users <- LUsers
  CNonces <- QCNonces
  SFirsts <- QSFirsts
  FlipBits <- QFlipBits
  TruncLens <- QTruncLens
CHECK_DEADLOCK TRUE
PROPERTY BadNonceLeadsToAbort
PROPERTY Terminates
