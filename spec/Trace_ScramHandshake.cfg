SPECIFICATION TSpec
CONSTANTS
  Users <- NoSet
  CNonces <- NoSet
  SFirsts <- NoSet
  FlipBits <- NoSet
  TruncLens <- NoSet
CONSTRAINT TRecord
POSTCONDITION WriteVerdicts
CHECK_DEADLOCK FALSE
