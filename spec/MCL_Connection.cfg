\* largest thorough instance: both send paths, all API kinds, every byte boundary, three starting ids
SPECIFICATION Spec
CONSTANTS
  CorrMax = 3
  Huge = 1000
  MaxReq = 2
  MaxFrames = 3
  FaultBudget = 1
  BodyLen = 1
  Vias = {FALSE, TRUE}
  InitCorrs = {0, 2, 3}
  Fine = TRUE
  KindNames = {"plain", "flex", "quirk"}
  MaxDone = 2
INVARIANT OnlyOwnReply
INVARIANT InRequestOrder
INVARIANT NoCrossDelivery
INVARIANT FailureFailsAll
PROPERTY MCStepProps
CHECK_DEADLOCK FALSE
