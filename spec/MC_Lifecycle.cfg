SPECIFICATION LiveSpec
CONSTANTS
  Kind = "consumer"
  Comps <- ConsumerComps
  MaxLive = 2
  AutoCommit = TRUE
  Static = FALSE
  FlushBounded = TRUE
  CommitGivesUp = TRUE
  SwallowCancel = TRUE
  ConnLossAtClose = FALSE
INVARIANT TypeOK
INVARIANT NothingLeft
INVARIANT StopReturnsNormally
INVARIANT BoundedWaits
INVARIANT LeftIfReachable
INVARIANT StaticStays
INVARIANT ClosedInOrder
PROPERTY StopTerminates
CHECK_DEADLOCK FALSE
