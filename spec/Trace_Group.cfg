SPECIFICATION TraceSpec
CONSTANTS
  Clients = {"c0", "c1", "c2", "c3"}
  TPs = {"t-0", "t-1", "t-2", "t-3", "t-4", "u-0", "u-1", "u-2"}
CONSTRAINT Rec
POSTCONDITION Post
CHECK_DEADLOCK FALSE
