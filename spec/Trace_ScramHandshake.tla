------------------------ MODULE Trace_ScramHandshake ------------------------
(* Conformance of recorded runs of the real ScramAuthenticator generator     *)
(* (driven by the harness' servers) with ScramHandshake.  A trace is         *)
(*   [ev |-> "ClientFirst", user, cnonce, msg]      what _step(None) returned *)
(*   [ev |-> "ServerFirst", kind, own, delivered]   the harness' server       *)
(*   [ev |-> "ClientFinal", msg]  or  [ev |-> "Abort", at |-> "server-first"] *)
(*   [ev |-> "ServerFinal", reply, accepts]         accepts: measured by the  *)
(*                                 independent byte-level RFC 5802 server     *)
(*   [ev |-> "Done"]              or  [ev |-> "Abort", at |-> "server-final"] *)
(* Client events must be exactly what the client actions produce; the        *)
(* server events must satisfy the guards of the server actions (so a harness *)
(* server that is not the specified one is rejected too).                    *)
(***************************************************************************)
EXTENDS ScramHandshake, TraceKit

VARIABLES tid, l
tvars == <<tid, l>>

Tr == Traces[tid]
Ev == Tr[l]
IsEvent(name) == l <= Len(Tr) /\ Ev.ev = name
Consume == l' = l + 1 /\ UNCHANGED tid

TInit == /\ tid \in 1..NT /\ l = 1
         /\ InitWith(Traces[tid][1].user, Traces[tid][1].cnonce)

TClientFirst == IsEvent("ClientFirst") /\ ClientFirst /\ cfirst' = Ev.msg /\ Consume
TServerFirst == IsEvent("ServerFirst") /\ ServerFirst(Ev.kind, Ev.own, Ev.delivered) /\ Consume
\* process_server_first_message and final_message run inside one send(): the
\* first is silent unless it raises
TProcessFirstOK == IsEvent("ClientFinal") /\ ProcessServerFirst /\ phase' = "SentFirst"
                   /\ UNCHANGED tvars
TProcessFirstAbort == IsEvent("Abort") /\ Ev.at = "server-first"
                      /\ ProcessServerFirst /\ phase' = "Aborted" /\ Consume
TClientFinal == IsEvent("ClientFinal") /\ FinalMessage /\ cfinal' = Ev.msg /\ Consume
TServerFinal == IsEvent("ServerFinal") /\ ServerFinal(Ev.reply)
                /\ srv'.accepts = Ev.accepts /\ Consume
TDone == IsEvent("Done") /\ ProcessServerFinal /\ phase' = "Done" /\ Consume
TProcessFinalAbort == IsEvent("Abort") /\ Ev.at = "server-final"
                      /\ ProcessServerFinal /\ phase' = "Aborted" /\ Consume

TNext == \/ TClientFirst \/ TServerFirst \/ TProcessFirstOK \/ TProcessFirstAbort
         \/ TClientFinal \/ TServerFinal \/ TDone \/ TProcessFinalAbort
TSpec == TInit /\ [][TNext]_<<vars, tvars>>

TRecord == Record(tid, l, BadName,
                  [phase |-> phase, abortAt |-> abortAt, haveKeys |-> keys # None,
                   gotFirst |-> sfirst # None, gotFinal |-> sfinal # None])
NoSet == {}
=============================================================================
