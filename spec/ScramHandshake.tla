--------------------------- MODULE ScramHandshake ---------------------------
(* C18: SCRAM (RFC 5802) login as done by aiokafka.conn.ScramAuthenticator.  *)
(*                                                                           *)
(* The client is a state machine with one action per step of the generator   *)
(* `authenticator_scram`:                                                    *)
(*     ClientFirst          first_message()                                  *)
(*     ProcessServerFirst   process_server_first_message()  (nonce check,    *)
(*                          salted password, proof, expected signature)      *)
(*     FinalMessage         final_message()                                  *)
(*     ProcessServerFinal   process_server_final_message()  (signature)      *)
(* phases: Init -> SentFirst -> SentFinal -> Done | Aborted.                 *)
(*                                                                           *)
(* Messages are *texts*: sequences of tokens.  A token is a character        *)
(* [ch |-> code point], the base64 rendering of a cryptographic term         *)
(* [b64 |-> term] or a decimal number [dec |-> n].  Cryptographic values are *)
(* symbolic terms (Dolev-Yao style, free algebra up to XOR cancellation):    *)
(*     Hi(p, s, i)   PBKDF2-HMAC (password atom, salt atom, iterations)      *)
(*     HMAC(k, m)    m is [lit |-> "Client Key"] or [txt |-> text]           *)
(*     H(t), XOR(a, b), Flip(t, bit), Trunc(t, n)                            *)
(* The server knows the password (honest), does not (impostor: a different   *)
(* password atom), or one field of one server message is tampered with.      *)
(* The harness interprets terms with hashlib/hmac (trusted base) to talk to  *)
(* the real generator and abstracts the bytes it gets back to terms; TLC     *)
(* decides (Trace_ScramHandshake) whether those are the specified messages.  *)
(***************************************************************************)
EXTENDS Naturals, Sequences, FiniteSets, TLC

CONSTANTS Users,      \* user names: sequences of code points, non-empty
          CNonces,    \* client nonces: sequences of code points, non-empty
          SFirsts,    \* universe of server-first records [r, s, i]
          FlipBits,   \* bit positions an attacker flips in a signature
          TruncLens   \* lengths an attacker truncates a signature to

Pw      == "pw"       \* the password atom of the client
OtherPw == "otherpw"  \* what a peer that does not know the password uses

Kinds == {"honest", "impostor",
          "nonce_prefix", "nonce_other", "nonce_short", "nonce_suffix",
          "salt", "iter",
          "sig_flip", "sig_trunc", "sig_wrongpw", "sig_error"}

None == [none |-> TRUE]

\* ---- texts ---------------------------------------------------------------
Ch(codes) == [k \in 1..Len(codes) |-> [ch |-> codes[k]]]
Comma == 44
Equals == 61
GS2Header == <<110, 44, 44>>                               \* n,,
AttrN == <<110, 61>>                                       \* n=
AttrR == <<114, 61>>                                       \* r=
CommaR == <<44, 114, 61>>                                  \* ,r=
CommaS == <<44, 115, 61>>                                  \* ,s=
CommaI == <<44, 105, 61>>                                  \* ,i=
CommaP == <<44, 112, 61>>                                  \* ,p=
CBind == <<99, 61, 98, 105, 119, 115>>                     \* c=biws

\* RFC 5802 5.1: ',' is sent as '=2C' and '=' as '=3D' in a saslname
EscChar(c) == IF c = Comma THEN <<61, 50, 67>>
              ELSE IF c = Equals THEN <<61, 51, 68>>
              ELSE <<c>>
RECURSIVE Escape(_)
Escape(u) == IF u = <<>> THEN <<>> ELSE EscChar(Head(u)) \o Escape(Tail(u))

IsPrefix(a, b) == Len(a) <= Len(b) /\ SubSeq(b, 1, Len(a)) = a

FirstBare(u, cn) == Ch(AttrN \o Escape(u) \o CommaR \o cn)
ClientFirstMsg(u, cn) == Ch(GS2Header) \o FirstBare(u, cn)
RenderSF(sf) == Ch(AttrR \o sf.r) \o Ch(CommaS) \o <<[b64 |-> sf.s]>>
                \o Ch(CommaI) \o <<[dec |-> sf.i]>>
FinalNoProof(r) == Ch(CBind \o CommaR \o r)
AuthMessage(bare, sfText, fnp) == bare \o Ch(<<Comma>>) \o sfText \o Ch(<<Comma>>) \o fnp
ClientFinalMsg(r, proof) == FinalNoProof(r) \o Ch(CommaP) \o <<[b64 |-> proof]>>

\* ---- terms ---------------------------------------------------------------
Hi(p, s, i) == [op |-> "Hi", p |-> p, s |-> s, i |-> i]
HMAC(k, m) == [op |-> "HMAC", k |-> k, m |-> m]
H(t) == [op |-> "H", of |-> t]
XOR(a, b) == [op |-> "XOR", a |-> a, b |-> b]
Flip(t, bit) == [op |-> "Flip", of |-> t, bit |-> bit]
Trunc(t, n) == [op |-> "Trunc", of |-> t, n |-> n]
Lit(s) == [lit |-> s]
Txt(t) == [txt |-> t]

ClientKey(sp) == HMAC(sp, Lit("Client Key"))
StoredKey(sp) == H(ClientKey(sp))
ServerKey(sp) == HMAC(sp, Lit("Server Key"))
ClientSignature(sp, am) == HMAC(StoredKey(sp), Txt(am))
ClientProof(sp, am) == XOR(ClientKey(sp), ClientSignature(sp, am))
ServerSignature(sp, am) == HMAC(ServerKey(sp), Txt(am))

\* the only equation of the term algebra that the protocol uses: (a ^ b) ^ b = a
XorCancel(p, s) == IF "op" \in DOMAIN p /\ p.op = "XOR" /\ p.b = s THEN p.a ELSE XOR(p, s)

\* ---- state ---------------------------------------------------------------
VARIABLES
  phase,    \* "Init", "SentFirst", "SentFinal", "Done", "Aborted"
  user,     \* configured user name (code points)
  cnonce,   \* ScramAuthenticator._nonce as created by __init__
  cfirst,   \* client-first-message as sent (text) or <<>>
  sfirst,   \* server-first-message as *delivered* to the client, or None
  keys,     \* None, or what process_server_first_message derived:
            \*   [nonce, am, proof, expect]  (_nonce, _auth_message,
            \*   _client_proof, _server_signature)
  cfinal,   \* client-final-message as sent (text) or <<>>
  sfinal,   \* server-final-message as delivered: [v |-> term] / [e |-> ..] / None
  srv,      \* None or the server side: [kind, pw, sf (server-first as the
            \*   server produced it), accepts (did it accept the proof)]
  abortAt   \* "" or the step at which the client raised

vars == <<phase, user, cnonce, cfirst, sfirst, keys, cfinal, sfinal, srv, abortAt>>

InitWith(u, cn) ==
  /\ phase = "Init" /\ user = u /\ cnonce = cn
  /\ cfirst = <<>> /\ sfirst = None /\ keys = None /\ cfinal = <<>>
  /\ sfinal = None /\ srv = None /\ abortAt = ""

Init == \E u \in Users, cn \in CNonces : InitWith(u, cn)

\* ---- client --------------------------------------------------------------
ClientFirst ==
  /\ phase = "Init"
  /\ cfirst' = ClientFirstMsg(user, cnonce)
  /\ phase' = "SentFirst"
  /\ UNCHANGED <<user, cnonce, sfirst, keys, cfinal, sfinal, srv, abortAt>>

\* what the client put into _auth_message: its own first-bare, the server-first
\* text as received, and its final message without proof
ClientAM(sf) == AuthMessage(FirstBare(user, cnonce), RenderSF(sf), FinalNoProof(sf.r))

ProcessServerFirst ==
  /\ phase = "SentFirst" /\ sfirst # None /\ keys = None
  /\ IF IsPrefix(cnonce, sfirst.r)
       THEN LET sp == Hi(Pw, sfirst.s, sfirst.i)
                am == ClientAM(sfirst)
            IN /\ keys' = [nonce |-> sfirst.r, am |-> am,
                           proof |-> ClientProof(sp, am),
                           expect |-> ServerSignature(sp, am)]
               /\ UNCHANGED <<phase, abortAt>>
       ELSE /\ phase' = "Aborted" /\ abortAt' = "server-first"
            /\ UNCHANGED keys
  /\ UNCHANGED <<user, cnonce, cfirst, sfirst, cfinal, sfinal, srv>>

FinalMessage ==
  /\ phase = "SentFirst" /\ keys # None
  /\ cfinal' = ClientFinalMsg(keys.nonce, keys.proof)
  /\ phase' = "SentFinal"
  /\ UNCHANGED <<user, cnonce, cfirst, sfirst, keys, sfinal, srv, abortAt>>

ProcessServerFinal ==
  /\ phase = "SentFinal" /\ sfinal # None
  /\ IF "v" \in DOMAIN sfinal /\ sfinal.v = keys.expect
       THEN phase' = "Done" /\ UNCHANGED abortAt
       ELSE phase' = "Aborted" /\ abortAt' = "server-final"
  /\ UNCHANGED <<user, cnonce, cfirst, sfirst, keys, cfinal, sfinal, srv>>

\* ---- server / network ----------------------------------------------------
\* `own` is the server-first the server produced (its nonce extends the nonce
\* it received), `d` is what reaches the client: equal to `own` unless the
\* behaviour tampers with exactly one field of the server-first.
SameBut(d, own, f) == /\ f # "r" => d.r = own.r
                      /\ f # "s" => d.s = own.s
                      /\ f # "i" => d.i = own.i
DeliveryOK(kind, own, d) ==
  CASE kind = "nonce_prefix" -> \* same length, same server part, client part altered
         /\ SameBut(d, own, "r") /\ Len(d.r) = Len(own.r)
         /\ ~IsPrefix(cnonce, d.r)
         /\ SubSeq(d.r, Len(cnonce) + 1, Len(d.r)) = SubSeq(own.r, Len(cnonce) + 1, Len(own.r))
    [] kind = "nonce_other"  -> \* nothing in common with the client nonce
         /\ SameBut(d, own, "r") /\ Len(d.r) > 0 /\ d.r[1] # cnonce[1]
    [] kind = "nonce_short"  -> \* a proper prefix of the client nonce
         /\ SameBut(d, own, "r") /\ IsPrefix(d.r, cnonce) /\ Len(d.r) < Len(cnonce)
    [] kind = "nonce_suffix" -> \* extends the client nonce, but not the server's
         /\ SameBut(d, own, "r") /\ IsPrefix(cnonce, d.r) /\ Len(d.r) > Len(cnonce)
         /\ d.r # own.r
    [] kind = "salt"         -> SameBut(d, own, "s") /\ d.s # own.s
    [] kind = "iter"         -> SameBut(d, own, "i") /\ d.i # own.i
    [] OTHER                 -> d = own

OwnOK(own) == IsPrefix(cnonce, own.r) /\ Len(own.r) > Len(cnonce)
TamperFirst == {"nonce_prefix", "nonce_other", "nonce_short", "nonce_suffix", "salt", "iter"}
Deliveries(kind, own) == IF kind \in TamperFirst THEN {d \in SFirsts : DeliveryOK(kind, own, d)}
                         ELSE {own}

ServerFirst(kind, own, d) ==
  /\ phase = "SentFirst" /\ srv = None
  /\ kind \in Kinds
  /\ OwnOK(own)
  /\ DeliveryOK(kind, own, d)
  /\ srv' = [kind |-> kind, pw |-> IF kind = "impostor" THEN OtherPw ELSE Pw,
             sf |-> own, accepts |-> FALSE]
  /\ sfirst' = d
  /\ UNCHANGED <<phase, user, cnonce, cfirst, keys, cfinal, sfinal, abortAt>>

\* The server's own view of the exchange (RFC 5802 section 3): the bare part
\* of the client-first it received, the server-first *it* sent, the received
\* client-final without the proof attribute (last four tokens: ",p=" blob).
SrvBare == SubSeq(cfirst, Len(GS2Header) + 1, Len(cfirst))
SrvFinalNoProof == SubSeq(cfinal, 1, Len(cfinal) - 4)
SrvProof == cfinal[Len(cfinal)].b64
SrvAM == AuthMessage(SrvBare, RenderSF(srv.sf), SrvFinalNoProof)
SrvSalted == Hi(srv.pw, srv.sf.s, srv.sf.i)
SrvSig == ServerSignature(SrvSalted, SrvAM)
\* ClientKey' = ClientProof XOR ClientSignature; accept iff H(ClientKey') = StoredKey
\* (and the final message repeats the server's nonce with the gs2 header "biws")
SrvAccepts ==
  /\ SrvFinalNoProof = FinalNoProof(srv.sf.r)
  /\ H(XorCancel(SrvProof, ClientSignature(SrvSalted, SrvAM))) = StoredKey(SrvSalted)

ReplyOK(kind, reply) ==
  CASE kind = "sig_flip"    -> /\ DOMAIN reply = {"v"} /\ reply.v.op = "Flip"
                               /\ reply.v = Flip(SrvSig, reply.v.bit)
    [] kind = "sig_trunc"   -> /\ DOMAIN reply = {"v"} /\ reply.v.op = "Trunc"
                               /\ reply.v = Trunc(SrvSig, reply.v.n)
    [] kind = "sig_wrongpw" -> reply = [v |-> ServerSignature(Hi(OtherPw, srv.sf.s, srv.sf.i), SrvAM)]
    [] kind = "sig_error"   -> DOMAIN reply = {"e"}
    [] OTHER                -> reply = [v |-> SrvSig]

ReplyChoices ==
  {[v |-> SrvSig], [v |-> ServerSignature(Hi(OtherPw, srv.sf.s, srv.sf.i), SrvAM)],
   [e |-> "other-error"]}
  \cup {[v |-> Flip(SrvSig, b)] : b \in FlipBits}
  \cup {[v |-> Trunc(SrvSig, n)] : n \in TruncLens}

ServerFinal(reply) ==
  /\ phase = "SentFinal" /\ sfinal = None
  /\ ReplyOK(srv.kind, reply)
  /\ srv' = [srv EXCEPT !.accepts = SrvAccepts]
  /\ sfinal' = reply
  /\ UNCHANGED <<phase, user, cnonce, cfirst, sfirst, keys, cfinal, abortAt>>

Terminal == phase \in {"Done", "Aborted"}

\* the login is over (lets TLC check that nothing else gets stuck)
Finished == Terminal /\ UNCHANGED vars

ServerFirstStep ==
  /\ phase = "SentFirst" /\ srv = None
  /\ \E kind \in Kinds, own \in {o \in SFirsts : OwnOK(o)} :
       \E d \in Deliveries(kind, own) : ServerFirst(kind, own, d)

ServerFinalStep ==
  /\ phase = "SentFinal" /\ sfinal = None
  /\ \E reply \in ReplyChoices : ServerFinal(reply)

Next ==
  \/ ClientFirst
  \/ ServerFirstStep
  \/ ProcessServerFirst
  \/ FinalMessage
  \/ ServerFinalStep
  \/ ProcessServerFinal
  \/ Finished

Spec == Init /\ [][Next]_vars /\ WF_vars(Next)

\* ---- properties ----------------------------------------------------------
\* Stated on the messages only (not on `keys`), in RFC 5802 terms.
\* saslname = 1*(value-safe-char / "=2C" / "=3D"): decoded independently of Escape;
\* <<0>> marks an illegal name (a raw ',' or an '=' not starting "=2C" / "=3D")
RECURSIVE Decode(_)
Decode(n) ==
  IF n = <<>> THEN <<>>
  ELSE IF n[1] = 61
    THEN IF Len(n) >= 3 /\ n[2] = 50 /\ n[3] = 67 THEN <<44>> \o Decode(SubSeq(n, 4, Len(n)))
         ELSE IF Len(n) >= 3 /\ n[2] = 51 /\ n[3] = 68 THEN <<61>> \o Decode(SubSeq(n, 4, Len(n)))
         ELSE <<0>>
  ELSE IF n[1] = 44 THEN <<0>>
  ELSE <<n[1]>> \o Decode(Tail(n))
CodesOf(text) == [k \in 1..Len(text) |-> text[k].ch]

WFFirst ==                \* "n,," "n=" saslname ",r=" c-nonce
  LET c == CodesOf(cfirst)
      nameEnd == Len(c) - Len(cnonce) - 3
  IN /\ nameEnd >= 6
     /\ SubSeq(c, 1, 5) = <<110, 44, 44, 110, 61>>
     /\ SubSeq(c, nameEnd + 1, Len(c)) = <<44, 114, 61>> \o cnonce
     /\ Decode(SubSeq(c, 6, nameEnd)) = user
WFBare == SubSeq(cfirst, 4, Len(cfirst))       \* client-first-message-bare as sent
WFAuthMessage ==          \* client-first-bare "," server-first "," client-final-without-proof
  WFBare \o Ch(<<44>>) \o RenderSF(sfirst) \o Ch(<<44>>)
  \o Ch(<<99, 61, 98, 105, 119, 115, 44, 114, 61>>) \o Ch(sfirst.r)
WFSalted == Hi(Pw, sfirst.s, sfirst.i)

ClientMessagesWellFormed ==
  /\ cfirst # <<>> => WFFirst
  /\ cfinal # <<>> =>
       LET ck == HMAC(WFSalted, Lit("Client Key"))
           proof == XOR(ck, HMAC(H(ck), Txt(WFAuthMessage)))
       IN /\ sfirst # None /\ IsPrefix(cnonce, sfirst.r)
          /\ cfinal = Ch(<<99, 61, 98, 105, 119, 115, 44, 114, 61>>) \o Ch(sfirst.r)
                      \o Ch(<<44, 112, 61>>) \o <<[b64 |-> proof]>>

NonceMustExtend ==
  (sfirst # None /\ ~IsPrefix(cnonce, sfirst.r)) =>
     /\ cfinal = <<>> /\ keys = None
     /\ phase \in {"SentFirst", "Aborted"}
     /\ phase = "Aborted" => abortAt = "server-first"

DoneOnlyWithPasswordProof ==
  phase = "Done" =>
     /\ "v" \in DOMAIN sfinal
     /\ sfinal.v = HMAC(HMAC(WFSalted, Lit("Server Key")), Txt(WFAuthMessage))

\* ... hence only with a peer that knows the password and an untampered exchange
DoneOnlyWithHonestServer ==
  phase = "Done" => srv.pw = Pw /\ srv.kind = "honest" /\ sfirst = srv.sf

\* the client's messages are accepted by a server that knows the password
HonestServerAcceptsProof ==
  (srv # None /\ srv.kind = "honest" /\ sfinal # None) => srv.accepts

\* and such a server is never rejected by the client
HonestServerNotRejected ==
  (srv # None /\ srv.kind = "honest") => phase # "Aborted"

BadNonceLeadsToAbort ==
  [](( sfirst # None /\ ~IsPrefix(cnonce, sfirst.r)) => <>(phase = "Aborted"))
Terminates == <>Terminal

\* name of the first violated state property ("" if none): for trace validation
BadName ==
  IF ~ClientMessagesWellFormed THEN "ClientMessagesWellFormed"
  ELSE IF ~NonceMustExtend THEN "NonceMustExtend"
  ELSE IF ~DoneOnlyWithPasswordProof THEN "DoneOnlyWithPasswordProof"
  ELSE IF ~DoneOnlyWithHonestServer THEN "DoneOnlyWithHonestServer"
  ELSE IF ~HonestServerAcceptsProof THEN "HonestServerAcceptsProof"
  ELSE IF ~HonestServerNotRejected THEN "HonestServerNotRejected"
  ELSE ""
=============================================================================
