--------------------------- MODULE Sim_Connection ---------------------------
(* Behaviour generator (spec -> code): MC_Connection with a history variable *)
(* holding the environment inputs of the behaviour (send / frame / chunk /   *)
(* eof / reset / timeout / cancel / close); TLC -simulate writes the         *)
(* behaviours to BEHAVIOUR_FILE; checks/c12.py replays them as scripts into  *)
(* the real connection and has the resulting traces validated.               *)
EXTENDS MC_Connection, TLC, TLCExt, Json, IOUtils

VARIABLE hist
svars == <<mcvars, hist>>

Changed(k) == CHOOSE i \in DOMAIN waiter : Pending(i) /\ waiter'[i].k = k
Label ==
  IF Len(sent') > Len(sent) THEN [op |-> "send", flex |-> sent'[Len(sent')].flex, quirk |-> sent'[Len(sent')].quirk,
                                  via |-> sent'[Len(sent')].via, corr |-> sent'[Len(sent')].corr]
  ELSE IF nframes' > nframes THEN [op |-> "frame", f |-> wire'[Len(wire')], own |-> IF R <= Len(sent) THEN sent[R].corr ELSE CorrMax + 1]
  ELSE IF avail' > avail THEN [op |-> "chunk", n |-> avail' - avail]
  ELSE IF tp = "up" /\ tp' = "eof" THEN [op |-> "eof"]
  ELSE IF tp = "up" /\ tp' = "lost" THEN [op |-> "reset"]
  ELSE IF \E i \in DOMAIN waiter : Pending(i) /\ waiter'[i].k = "timedOut" THEN [op |-> "timeout", i |-> Changed("timedOut")]
  ELSE IF \E i \in DOMAIN waiter : Pending(i) /\ waiter'[i].k = "cancelled" THEN [op |-> "cancel", i |-> Changed("cancelled")]
  ELSE IF open /\ ~open' /\ reason' = "SHUTDOWN" THEN [op |-> "close"]
  ELSE [op |-> "tau"]

SimInit == MCInit /\ hist = <<[op |-> "init", corr0 |-> nextCorr]>>
SimNext == Next /\ hist' = Append(hist, Label)
SimSpec == SimInit /\ [][SimNext]_svars

\* TLC's simulator evaluates invariants on every successor it generates, each of which
\* extends a behaviour prefix of the spec, so every `hist` seen is a behaviour of the spec.
\* register 1: the longest one seen in the current run; register 2: finished ones
\* (flushed to BEHAVIOUR_FILE whenever a new run starts).
ASSUME TLCSet(1, <<>>) /\ TLCSet(2, <<>>)
Collect ==
  /\ IF Len(hist) = 2 /\ Len(TLCGet(1)) > 2
       THEN TLCSet(2, Append(TLCGet(2), TLCGet(1))) /\ JsonSerialize(IOEnv.BEHAVIOUR_FILE, TLCGet(2))
       ELSE TRUE
  /\ IF Len(hist) = 2 \/ Len(hist) > Len(TLCGet(1)) THEN TLCSet(1, hist) ELSE TRUE
=============================================================================
