SPECIFICATION Spec
CONSTRAINT Collect
POSTCONDITION WriteVerdicts
CHECK_DEADLOCK FALSE
