"""C07 — transactions are atomic and follow the transactional protocol order.

Specs: spec/TxnProducer.tla (+ MC_TxnProducer: every interleaving of the transactional producer,
the transaction coordinator, leaders and marker writes with a fault budget and a crash/fence at any
state: ProtocolOrder, NoEndWhileUnacked, Atomicity, OffsetsAtomic, FatalIsFinal; liveness
EndsAsRequested, AbortRecovers) and spec/Trace_Txn.tla, which binds the same clauses to the REAL
transactional AIOKafkaProducer running against the simulated transaction/group coordinators."""
import random

from harness.runner import Report

from . import _txn as T


def run(ctx) -> Report:
    rep = Report()
    if not ctx.replay:
        T.run_mc(rep, ctx, "C07")
    n = 1 if ctx.quick else 12
    classes = {"plain": 120 * n, "faults": 260 * n, "crash": 80 * n, "crashany": 160 * n, "abortable": 60 * n, "refused": 50 * n, "nodedown": 100 * n}
    rng = random.Random(ctx.seed * 7919 + 7)
    scs = [T.gen_scenario(rng, rng.randrange(1 << 30), c) for c, k in classes.items() for _ in range(k)]
    T.conformance(rep, ctx, "C07", scs)
    rep.extra.update(
        classes=classes,
        bounds="MC: 2 partitions, <=2 transactions, <=2-3 sends, 1-2 faults at any request (error reply, lost request, lost reply, "
               "coordinator moved), producer crash + replacement instance at any state; traces: 1-4 transactions over 1-3 partitions on 1-3 nodes, "
               "send / concurrent send tasks / send_offsets_to_transaction / commit / abort / transaction() context, linger 0-20 ms, marker delay 2-50 ms, "
               "faults at InitProducerId, AddPartitionsToTxn, AddOffsetsToTxn, TxnOffsetCommit, EndTxn, FindCoordinator, Produce "
               "(NOT_COORDINATOR, COORDINATOR_NOT_AVAILABLE, COORDINATOR_LOAD_IN_PROGRESS, CONCURRENT_TRANSACTIONS, UNKNOWN_TOPIC, "
               "NOT_LEADER, REQUEST_TIMED_OUT, dropped before/after apply, lost reply), coordinator move, producer SIGKILLed between calls "
               "(crash) or at a random instant (crashany) and replaced by an instance with the same transactional id, an unauthorized "
               "topic inside a transaction (abortable), a batch refused for good by a leader (refused)",
        rule="one trace per generated scenario (seeded); non-trivial = the trace contains a fault, a kill or a raised API call")
    rep.assumptions = ["the simulated transaction coordinator / group coordinator / leaders follow Kafka's rules (harness/simtxn.py, simgroup.py, "
                       "simcluster.py); their own steps are events of the trace and are checked by the same spec",
                       "kill = SIGKILL: the instance's connections go dead and none of its code runs again",
                       "a commit interrupted after the coordinator accepted EndTxn(commit) counts as committed (Kafka's commit point)"]
    return rep
