"""Shared machinery of C01 / C02: model checking of ProducerCore, scenario
generation, execution of the real producer, TLC trace validation, triage."""
from __future__ import annotations

import os
import json
import logging
import multiprocessing as mp
import random
from concurrent.futures import ThreadPoolExecutor

from harness import tlc
from harness.runner import Report, Violation
from harness.tlc import MachineryError

C01_INVS = {"OneInFlightPerPartition", "SeqContiguous", "LogFromAccepted", "TaskOrder", "AtMostOnce",
            "AckedExactlyOnce", "DuplicatesAreWholeBatches"}
C02_INVS = {"ResolvedAtMostOnce", "TrueCoordinates", "Acks0NoMetadata", "AcksMetadata", "IdemNeverFails"}
# events whose rejection concerns the resolution half (C02); everything else is C01's protocol half
C02_EVENTS = {"Done", "NoAck", "Fail", "Resolved", "FlushReturn", "StopReturn", "Quiet", "StopHang", "Hang", "Crash"}

MC_BASE = """SPECIFICATION {spec}
CONSTANTS
  Parts = {{p1, p2}}
  Nodes = {{n1, n2}}
  Tasks = {{t1, t2}}
  HiMod = 2
  LoMod = 2
  Retain = 2
  NoLeader = noleader
  MaxPerTask = {per}
  MaxTotal = {total}
  Cap = 2
  FaultBudget = {faults}
  Idem = {idem}
  Acks0 = {acks0}
  StartHi = 1
  StartLo = 1
  TsChoices = {ts}
  Lat = {lat}
{invs}
{extra}
CHECK_DEADLOCK FALSE
"""

ALL_INVS = sorted(C01_INVS | C02_INVS)


def mc_cfg(name, *, total, faults, idem, acks0=False, lat=False, per=2, ts="{1, 2}", sym=True, live=False):
    invs = "" if live else "\n".join(f"INVARIANT {i}" for i in ALL_INVS)
    extra = ("SYMMETRY Sym" if sym and not live else "") + ("\nPROPERTY EventuallyResolved" if live else "")
    txt = MC_BASE.format(spec="LiveSpec" if live else "Spec", per=per, total=total, faults=faults,
                         idem="TRUE" if idem else "FALSE", acks0="TRUE" if acks0 else "FALSE", ts=ts,
                         lat="TRUE" if lat else "FALSE", invs=invs, extra=extra)
    path = tlc.SPEC / f"_gen_{name}_{os.getpid()}.cfg"
    path.write_text(txt)
    return path.name


def run_mc(rep: Report, ctx, which: str):
    """Exhaustive model checking of the design spec (all interleavings + faults)."""
    if ctx.quick:
        if which == "C01":
            cfgs = [("idem_f2", dict(total=3, faults=2, idem=True)),
                    ("plain_f1", dict(total=3, faults=1, idem=False)),
                    ("acks0_f1", dict(total=2, faults=1, idem=False, acks0=True))]
        else:
            cfgs = [("idem_lat_f1", dict(total=3, faults=1, idem=True, lat=True)),
                    ("plain_f1", dict(total=3, faults=1, idem=False)),
                    ("acks0_f1", dict(total=3, faults=1, idem=False, acks0=True)),
                    ("live_idem", dict(total=2, faults=1, idem=True, live=True, ts="{1}"))]
        workers, to = 5, 900
    else:
        cfgs = [("idem_f2_t4", dict(total=4, faults=2, idem=True)),
                ("plain_f2_t4", dict(total=4, faults=2, idem=False)),
                ("idem_f3", dict(total=3, faults=3, idem=True)),
                ("idem_lat_f2", dict(total=3, faults=2, idem=True, lat=True)),
                ("acks0_f3", dict(total=2, faults=3, idem=False, acks0=True)),
                ("live_idem", dict(total=3, faults=2, idem=True, live=True, ts="{1}")),
                ("live_plain", dict(total=3, faults=1, idem=False, live=True, ts="{1}"))]
        workers, to = 5, 3000
    # names as TLC's -coverage reports them (innermost definition holding the disjunct)
    need = ["MCSend", "Drain", "Free", "Fault", "ReplyArrives", "ADone", "AReenqueue", "Release",
            "AMdRefresh", "ALeaderMoves", "ALeaderUnknown"]

    def one(item):
        name, kw = item
        cfg = mc_cfg(name, **kw)
        r = tlc.mc("MC_ProducerCore", cfg, workers=workers, timeout=to, coverage=not kw.get("live"), heap="5g")
        return name, kw, r

    with ThreadPoolExecutor(max_workers=3) as ex:
        results = list(ex.map(one, cfgs))
    for name, kw, r in results:
        if r.get("violated"):
            raise MachineryError(f"design spec violates {r['violated']} in config {name} (spec bug or design flaw):\n"
                                 + tlc.counterexample(r["output"], 3000))
        if r.get("timed_out"):
            raise MachineryError(f"MC config {name} timed out")
        na = None
        if not kw.get("live") and not kw.get("acks0"):
            na = need
        rep.add_mc(f"MC_ProducerCore/{name}", r, need_actions=na)
    for p in tlc.SPEC.glob(f"_gen_*_{os.getpid()}.cfg"):
        p.unlink()


# ---------------------------------------------------------------------------
# scenarios

WRAP = 2**31


def gen_scenario(rng: random.Random, seed: int, cls: str) -> dict:
    nparts = rng.choice([1, 2, 2, 3])
    nnodes = rng.choice([1, 2, 2, 3])
    idem = cls.startswith("idem")
    acks = -1 if idem else rng.choice([1, -1])
    ntasks = rng.randrange(1, 5)
    total = rng.randrange(3, 41)
    tasks = [[] for _ in range(ntasks)]
    tsmode = rng.choice(["default", "default", "inc", "dec", "equal", "mixed"])
    for i in range(total):
        t = rng.randrange(ntasks)
        k = len(tasks[t])
        ts = {"default": None, "inc": 100 + 10 * i, "dec": 5000 - 10 * i, "equal": 777,
              "mixed": rng.choice([None, 100 + i, 900 - i])}[tsmode]
        tasks[t].append([rng.randrange(nparts), ts, rng.choice([8, 20, 60, 120])])
    sc = dict(cls=cls, seed=seed, idem=idem, acks=acks, nparts=nparts, nnodes=nnodes,
              leaders=[rng.randrange(nnodes) for _ in range(nparts)],
              lat=[rng.choice([0, 0, 1]) for _ in range(nparts)],
              tasks=[t for t in tasks if t],
              max_batch_size=rng.choice([120, 200, 400, 1000, 16384]),
              linger_ms=rng.choice([0, 0, 5, 20]),
              compression=rng.choice([None, None, "gzip"]),
              task_gap=[rng.choice([0, 0, 0.003, 0.02]) for _ in range(ntasks)],
              faults=dict(budget=rng.choice([0, 1, 2, 3, 4, 6]), p=rng.choice([0.2, 0.4, 0.7]),
                          slow=rng.choice([0, 0.005, 0.03]),
                          kinds=rng.choice([["drop_before", "drop_after", "lose_reply", "error"], ["error"],
                                            ["drop_after", "lose_reply"]])),
              env=[])
    sc["task_gap"] = sc["task_gap"][:len(sc["tasks"])]
    for _ in range(rng.choice([0, 0, 1, 2])):
        if nnodes > 1:
            sc["env"].append([round(rng.random() * 0.3, 4), "move", rng.randrange(nparts), rng.randrange(nnodes)])
    if rng.random() < 0.15 and nnodes > 1:
        sc["env"].append([round(rng.random() * 0.1, 4), "stale", rng.randrange(nparts), rng.randrange(nnodes),
                          round(rng.random() * 0.5, 3)])
    if cls == "idem-wrap":
        # start the per-partition sequence counter just below the wrap point (known finding C01-seqwrap)
        sc["start_seq"] = {str(p): WRAP - rng.randrange(1, 4) for p in range(nparts)}
    elif cls == "idem-start":
        # any starting value, far enough from the wrap point that the run does not cross it
        sc["start_seq"] = {str(p): rng.choice([1, 7, 65535, 65536, 10**6, WRAP - 1000]) for p in range(nparts)}
    if cls == "idem-long":
        # a run of retriable faults that outlasts the batch TTL (= request timeout): an idempotent
        # producer must keep retrying (never expire a batch whose sequence was already consumed)
        sc["request_timeout_ms"] = rng.choice([300, 500])
        sc["faults"] = dict(budget=rng.choice([10, 14, 20]), p=rng.choice([0.8, 1.0]), slow=0,
                            kinds=rng.choice([["error"], ["error", "drop_before"]]))
        sc["quiet"] = 6.0
    if cls.endswith("cancel"):
        # the application cancels some of the futures send() gave it (before or while their batch is in flight)
        sc["cancel"] = [[f"r{ti}.{k}", rng.choice([0, 0, 0.001, 0.01])] for ti, t in enumerate(sc["tasks"]) for k in range(len(t))
                        if rng.random() < 0.3]
        sc["linger_ms"] = rng.choice([5, 20])
    if cls.endswith("noleader"):
        # a partition has no leader when its records are accepted; the leader appears later and NOTHING else
        # happens afterwards (no new batch, no other partition's traffic) -- the records must still get out
        p = rng.randrange(nparts)
        sc["noleader"] = [[p, rng.choice([0.08, 0.2, 0.5, 1.1])]]
        sc["tasks"] = [[[p, None, rng.choice([8, 60])] for _ in range(rng.randrange(1, 4))]]
        if rng.random() < 0.4 and nparts > 1:
            sc["tasks"].append([[(p + 1) % nparts, None, 20]])
        sc["task_gap"] = [0] * len(sc["tasks"])
        sc["faults"] = dict(budget=0, p=0, slow=rng.choice([0, 0.005]), kinds=["error"])
        sc["env"] = []
    if cls.startswith("acks0"):
        sc["idem"], sc["acks"] = False, 0
    if cls == "versions":
        sc["produce_max"] = rng.randrange(0, 8)
        if sc["produce_max"] < 2:
            sc["lat"] = [0] * nparts        # LogAppendTime does not exist before Produce v2
        if sc["produce_max"] < 3:
            sc["idem"], sc["acks"] = False, rng.choice([1, -1])
    if cls == "flush":
        sc["flush_at"] = round(rng.random() * 0.2, 4)
    if cls == "stop":
        sc["stop_at"] = round(rng.random() * 0.3, 4)
    return sc


def _run_one(sc):
    logging.disable(logging.CRITICAL)
    from harness import drv_producer
    ev, info, _ = drv_producer.run_scenario(sc)
    return ev, {"hang": info["hang"], "exc": info["exc"]}


def run_scenarios(scs, jobs=12):
    if len(scs) < 8:
        return [_run_one(s) for s in scs]
    ctxm = mp.get_context("fork")
    with ctxm.Pool(jobs) as pool:
        return pool.map(_run_one, scs, chunksize=max(1, len(scs) // (jobs * 4)))


def classify(pid, sc, trace, v):
    """-> (property, signature) or None for an accepted trace with no violation"""
    if v["accepted"] and not v["bad_l"]:
        return None
    if v["bad_l"] and (v["accepted"] or v["bad_l"] <= v["reached"]):
        name = v["bad_name"]
        # state number l = events 1..l-1 consumed: the violating event is trace[l-2]
        ev = trace[v["bad_l"] - 2] if 0 <= v["bad_l"] - 2 < len(trace) else {"e": "init"}
        prop = "C01" if name in C01_INVS else "C02"
        detail = ""
        if name == "SeqContiguous" and isinstance(ev.get("seq"), list) and ev["seq"][0] >= 32768:
            detail = ":negative-seq-after-wrap"
        if name == "TrueCoordinates":
            detail = ":" + _true_coord_kind(trace, v["bad_l"] - 1)
        return prop, f"{prop}:inv:{name}{detail}"
    ev = trace[v["reached"] - 1] if v["reached"] - 1 < len(trace) else {"e": "end"}
    e = ev["e"]
    prop = "C02" if e in C02_EVENTS else "C01"
    if e == "Fail" and sc["idem"] and pid == "C01":
        # an idempotent batch failed after its sequence was consumed: the next batch of the partition
        # leaves a sequence gap (C01) -- besides failing an accepted record on retriable faults (C02)
        prop = "C01"
    extra = ""
    if e == "Fail":
        extra = ":" + ev.get("err", "")
    if e in ("Hang", "Crash"):
        extra = ":" + str(ev.get("why", ev.get("err", "")))[:40]
    return prop, f"{prop}:reject:{e}{extra}:{'idem' if sc['idem'] else 'plain'}"


def _true_coord_kind(trace, bad_l):
    """which coordinate is wrong at the violating Resolved event (diagnostic class)"""
    ev = trace[bad_l - 1]
    if ev.get("e") != "Resolved":
        return "other"
    rid = ev["rid"]
    # find where the broker put the record
    for b in trace[:bad_l]:
        if b["e"] == "BrokerApply" and rid in b["rids"]:
            i = b["rids"].index(rid)
            if b["base"] + i != ev["off"] or b["tp"] != ev["tp"]:
                continue
            if b["rts"][i] != ev["ts"]:
                return "timestamp"
            return "timestamp-type"
    return "offset"


def conformance(rep: Report, ctx, pid: str, classes: dict[str, int], *, selftest=True):
    """Run the real producer over generated scenarios and let TLC judge the traces."""
    rng = random.Random(ctx.seed * 7919 + (1 if pid == "C01" else 2))
    scs = []
    for cls, n in classes.items():
        for _ in range(n):
            scs.append(gen_scenario(rng, rng.randrange(1 << 30), cls))
    if ctx.replay:
        d = json.load(open(ctx.replay))
        scs = [d["detail"]["scenario"]]
    results = run_scenarios(scs)
    traces = [r[0] for r in results]
    # a run that died before its Config event cannot be judged by the trace spec: it is
    # reported as what it is (the client could not even be started)
    for sc_, (tr_, inf_) in zip(scs, results):
        if not tr_ or tr_[0].get("e") != "Config":
            rep.violations.append(Violation(f"{pid}:reject:NoStart:{(tr_[-1].get('err') if tr_ else '')}",
                                            {"scenario": sc_, "info": inf_, "trace": tr_[-3:]}))
    keep_ = [i for i, t in enumerate(traces) if t and t[0].get("e") == "Config"]
    scs = [scs[i] for i in keep_]
    traces = [traces[i] for i in keep_]
    ver, st = tlc.validate("Trace_ProducerCore", "Trace_ProducerCore.cfg", traces,
                           shard=max(10, min(150, len(traces) // 12 + 1)), jobs=12)
    rep.traces += len(traces)
    rep.states += st
    rep.transitions += st
    counts = {}
    nontrivial = 0
    for sc, tr, v in zip(scs, traces, ver):
        if any(e["e"] in ("SendFailed", "BrokerReject", "Reenqueue") for e in tr):
            nontrivial += 1
        c = classify(pid, sc, tr, v)
        if c is None:
            continue
        prop, sig = c
        counts[sig] = counts.get(sig, 0) + 1
        if prop != pid:
            # reported by the other property's check.  But the trace was not examined beyond that point: C02's end
            # clauses are read directly off the remaining events (same clauses as TQuiet / TReturn of the trace spec)
            if pid == "C02":
                late = next((e for e in tr[v["reached"]:] if (e["e"] == "Quiet" and e.get("pending")) or
                             (e["e"] in ("FlushReturn", "StopReturn") and e.get("undone"))), None)
                if late is not None:
                    sig2 = f"C02:reject:{late['e']}:{'idem' if sc['idem'] else 'plain'}"
                    counts[sig2] = counts.get(sig2, 0) + 1
                    rep.violations.append(Violation(sig2, {"scenario": sc, "verdict": {k: v[k] for k in ("reached", "need", "bad")},
                                                           "event": late, "first_rejection": sig}))
            continue
        k = (v["bad_l"] - 2) if (v["bad_l"] and (v["accepted"] or v["bad_l"] <= v["reached"])) else v["reached"] - 1
        ev_at = tr[k] if 0 <= k < len(tr) else None
        rep.violations.append(Violation(sig, {"scenario": sc, "verdict": {k: v[k] for k in ("reached", "need", "bad")},
                                              "event": ev_at}))
    rep.extra.setdefault("verdict_classes", {}).update(counts)
    rep.extra["traces_with_faults_or_retries"] = rep.extra.get("traces_with_faults_or_retries", 0) + nontrivial
    rep.extra["trace_events"] = rep.extra.get("trace_events", 0) + sum(len(t) for t in traces)
    # how often each event (= action of the trace spec) was exercised by the real code: an action with count 0 was never bound
    _cnt = {}
    for _t in traces:
        for _e in _t:
            _cnt[_e["e"]] = _cnt.get(_e["e"], 0) + 1
    for _k, _v in _cnt.items():
        rep.extra.setdefault("trace_action_counts", {})[_k] = rep.extra.get("trace_action_counts", {}).get(_k, 0) + _v
    if traces and not rep.samples:
        ok = [t for t, v in zip(traces, ver) if v["accepted"]]
        if ok:
            t = max(ok[:50], key=len)
            rep.samples.append({"scenario": scs[traces.index(t)], "trace_prefix": t[:25], "trace_len": len(t)})
    if selftest and traces:
        _binding_selftest(traces, ver)
    return scs, traces, ver


def _binding_selftest(traces, ver):
    """The binding must be real: corrupting one logged field and removing one event
    of an accepted trace must both be rejected by TLC."""
    base = next((t for t, v in zip(traces, ver) if v["accepted"] and not v["bad_l"]
                 and sum(1 for e in t if e["e"] == "Done") >= 1 and any(e["e"] == "Drain" for e in t)), None)
    if base is None:
        return
    mut = []
    t1 = [dict(e) for e in base]
    i = next(i for i, e in enumerate(t1) if e["e"] == "Done")
    t1[i]["base"] = t1[i]["base"] + 1                      # corrupted field
    mut.append(t1)
    t2 = [dict(e) for e in base]
    i = next(i for i, e in enumerate(t2) if e["e"] == "Drain")
    del t2[i]                                              # removed event
    mut.append(t2)
    t3 = [dict(e) for e in base]
    i = next((i for i, e in enumerate(t3) if e["e"] == "BrokerApply" and len(e["rids"]) > 1), None)
    if i is not None:
        t3[i] = dict(t3[i], rids=list(reversed(t3[i]["rids"])))   # records reordered on the wire
        mut.append(t3)
    v, _ = tlc.validate("Trace_ProducerCore", "Trace_ProducerCore.cfg", mut, shard=10, jobs=1)
    for k, x in enumerate(v):
        if x["accepted"] and not x["bad_l"]:
            raise MachineryError(f"binding self-test: corrupted trace #{k} was accepted by the trace spec")
