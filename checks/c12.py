"""C12 -- responses reach exactly their requests; connection failure fails all waiters.

Oracle: spec/Connection.tla evaluated by TLC.
 1. exhaustive model checking of MC_Connection (bounded pipelining, every
    chunking at the byte boundaries of size field / header, every bad-frame kind
    at every position, timeouts / cancels at any time, EOF / reset at any byte,
    correlation counter wrapping inside the run) + liveness "a detected failure
    closes the connection";
 2. spec -> code: behaviours of the model (TLC -simulate of Sim_Connection) are
    replayed as scripts into the real AIOKafkaConnection / AIOKafkaClient.send
    and the recorded traces validated by TLC;
 3. code -> spec: the real connection is driven on the virtual-time loop by
    enumerated and seeded-random scripts (harness/c12_drv.py) and every recorded
    trace is validated by TLC against Connection.tla (spec/Trace_Connection.tla).
"""
from __future__ import annotations

import os
import json
import multiprocessing as mp
import random
import shutil
import tempfile
from concurrent.futures import ThreadPoolExecutor
from pathlib import Path

from harness import tlc
from harness.runner import Report, Violation
from harness.tlc import MachineryError

INVS = ["OnlyOwnReply", "InRequestOrder", "NoCrossDelivery", "FailureFailsAll"]
WRAP = 2 ** 31

# negotiated versions (sent by the peer in its ApiVersionResponse): A has the 0.8.2-quirk API
# (FindCoordinator v0) and three flexible-header APIs, B has plain FindCoordinator v1 / DeleteRecords v1
VERS_A = {"fc": 0, "lg": 0, "dr": 2, "apr": 0, "lpr": 0}
VERS_B = {"fc": 1, "lg": 0, "dr": 1, "apr": 0, "lpr": 0}
APIS = ["fc", "lg", "dr", "apr", "lpr"]

MC_TEMPLATE = """SPECIFICATION {spec}
CONSTANTS
  CorrMax = {corrmax}
  Huge = 1000
  MaxReq = {maxreq}
  MaxFrames = {maxframes}
  FaultBudget = {faults}
  BodyLen = {bodylen}
  Vias = {vias}
  InitCorrs = {inits}
  Fine = {fine}
  KindNames = {kinds}
  MaxDone = {maxdone}
{props}
CHECK_DEADLOCK FALSE
"""
SAFETY = "\n".join(f"INVARIANT {i}" for i in INVS) + "\nPROPERTY MCStepProps"

NEED = ["ASend", "APeerGood", "APeerWrongCorr", "APeerBadBody", "APeerNoHdr", "APeerNegSize", "APeerHugeSize",
        "APeerUnsolicited", "AChunk", "ARdSize", "AUnsolicitedFrame", "AHeaderFails", "AMismatch", "ADeliver",
        "ASkipDone", "ADecodeFails", "ARdFail", "AReaderErrClose", "AEof", "AReset", "AWaiterTimeout", "ACancel",
        "AUserClose"]


def _cfg(name, *, spec="Spec", corrmax=3, maxreq=3, maxframes=3, faults=1, bodylen=1, vias="{FALSE}", inits="{2}",
         fine="FALSE", kinds='{"plain", "flex"}', maxdone=1, props=SAFETY):
    txt = MC_TEMPLATE.format(spec=spec, corrmax=corrmax, maxreq=maxreq, maxframes=maxframes, faults=faults,
                             bodylen=bodylen, vias=vias, inits=inits, fine=fine, kinds=kinds, maxdone=maxdone,
                             props=props)
    p = tlc.SPEC / f"_gen_c12_{name}_{os.getpid()}.cfg"
    p.write_text(txt)
    return p.name


def run_mc(ctx):
    live = dict(spec="LiveSpec", maxreq=2, maxframes=2, vias="{FALSE, TRUE}", kinds='{"plain", "quirk"}',
                props="PROPERTY FailureCloses")
    if ctx.quick:
        cfgs = [("conn_plain_flex", dict(), NEED),
                ("client_plain_quirk", dict(vias="{TRUE}", kinds='{"plain", "quirk"}'),
                 NEED + ["AClientClose", "AQuirk082", "APeerQuirk"]),
                ("live", live, None)]
        workers, to = 5, 900
    else:
        cfgs = [("conn_plain_flex_d2", dict(maxdone=2), NEED),
                ("client_plain_quirk_d2", dict(vias="{TRUE}", kinds='{"plain", "quirk"}', maxdone=2),
                 NEED + ["AClientClose", "AQuirk082", "APeerQuirk"]),
                ("mixedvia_all_kinds_r2_everybyte", dict(vias="{FALSE, TRUE}", kinds='{"plain", "flex", "quirk"}', maxreq=2,
                                                         maxdone=2, fine="TRUE", inits="{0, 2, 3}"),
                 NEED + ["AClientClose", "AQuirk082", "AFormMismatch"]),
                ("conn_plain_flex_r4_f4", dict(maxreq=4, maxframes=4, inits="{1}"), NEED),
                ("two_faults_r2", dict(vias="{FALSE, TRUE}", maxreq=2, maxframes=2, faults=2, maxdone=2),
                 [a for a in NEED if a != "APeerUnsolicited"] + ["AClientClose"]),
                ("live", dict(live, maxreq=3, maxframes=2), None)]
        workers, to = 5, 2400

    def one(item):
        name, kw, need = item
        cfg = _cfg(name, **kw)
        r = tlc.mc("MC_Connection", cfg, workers=workers, timeout=to, coverage=need is not None, heap="5g")
        return name, need, r

    try:
        with ThreadPoolExecutor(max_workers=3) as ex:
            results = list(ex.map(one, cfgs))
    finally:
        for p in tlc.SPEC.glob(f"_gen_c12_*_{os.getpid()}.cfg"):
            p.unlink()
    return results


def account_mc(rep, results):
    for name, need, r in results:
        if r.get("violated"):
            raise MachineryError(f"C12: Connection.tla violates {r['violated']} in config {name}:\n"
                                 + tlc.counterexample(r["output"], 3000))
        if r.get("timed_out") or not r["ok"]:
            raise MachineryError(f"C12: MC config {name} did not finish: rc={r['rc']}")
        rep.add_mc(f"MC_Connection/{name}", r, need_actions=need)


# ---------------------------------------------------------------------------
# scripts (see harness/c12_drv.py for the step language)

def G(i, **k):
    return ["frame", dict({"for": i, "corr": "own", "kind": "good"}, **k)]


def frame_bytes(api, versions, f=None):
    from harness import c12_drv
    return len(c12_drv.build_frame(api, versions, 1, f or {"kind": "good"}, 1)[0])


def sc(family, versions, steps, **kw):
    return dict(family=family, versions=versions, steps=steps, **kw)


def gen_split3(apis, versions, via=0, corr0=None):
    """every split of the whole response stream into <= 3 chunks"""
    n = len(apis)
    total = sum(frame_bytes(a, versions) for a in apis)
    head = [["send", a, via, None] for a in apis] + [G(i + 1) for i in range(n)]
    out = []
    for a in range(1, total + 1):
        for b in range(a, total + 1):
            chunks = [c for c in (a, b - a, total - b) if c > 0]
            out.append(sc("split3", versions, head + [["chunk", c] for c in chunks], corr0=corr0))
    return out


def _chunks_random(rng, total, fine):
    out = []
    while total > 0:
        c = min(total, rng.choice([1, 1, 2, 3, 4, 5, 7]) if fine else rng.randrange(1, 40))
        out.append(c)
        total -= c
    return out


def gen_fine(rng, n_cases, nmax=8):
    """1..8 pipelined requests of mixed APIs, sends / frames / chunks interleaved at random,
    random fine chunking, waiters timing out or cancelled at random points"""
    out = []
    for _ in range(n_cases):
        versions = rng.choice([VERS_A, VERS_B])
        n = rng.randrange(1, nmax + 1)
        apis = [rng.choice(APIS) for _ in range(n)]
        corr0 = rng.choice([None, None, WRAP - 1, WRAP - 2, WRAP - 3, WRAP - n, 12345, 0])
        fine = rng.random() < 0.6
        steps, sent, framed, undeliv = [], 0, 0, 0
        dead = set()
        while sent < n or framed < n or undeliv > 0:
            opts = []
            if sent < n:
                opts += ["send"] * 3
            if framed < sent:
                opts += ["frame"] * 3
            if undeliv > 0:
                opts += ["chunk"] * 4
            if sent > 0 and rng.random() < 0.15:
                opts += ["kill"]
            op = rng.choice(opts)
            if op == "send":
                steps.append(["send", apis[sent], int(rng.random() < 0.4), None])
                sent += 1
            elif op == "frame":
                framed += 1
                quirk0 = versions["fc"] == 0 and apis[framed - 1] == "fc" and rng.random() < 0.5
                steps.append(G(framed, corr=0) if quirk0 else G(framed))
                undeliv += frame_bytes(apis[framed - 1], versions)
            elif op == "chunk":
                c = min(undeliv, rng.choice([1, 1, 2, 3, 4, 5, 7]) if fine else rng.randrange(1, 60))
                steps.append(["chunk", c])
                undeliv -= c
            else:
                i = rng.randrange(1, sent + 1)
                if i in dead:
                    continue
                dead.add(i)
                if rng.random() < 0.5:
                    steps.append(["cancel", i])
                else:
                    k = [j for j, x in enumerate(steps) if x[0] == "send"][i - 1]
                    if steps[k][2] == 1 and rng.random() < 0.7:
                        continue        # a client.send timeout closes the connection: keep most runs going
                    steps.append(["nop"])
                    steps[k] = steps[k][:3] + [len(steps) - 1]
            if len(steps) > 400:
                break
        if rng.random() < 0.3:
            steps.append(["probe"])
        out.append(sc("fine", versions, steps, corr0=corr0))
    return out


def _deliver(rng, mode, total):
    if mode == "whole":
        return [["chunk", total]]
    if mode == "bytes":
        return [["chunk", 1] for _ in range(total)]
    return [["chunk", c] for c in _chunks_random(rng, total, True)]


BAD_KINDS = [("wrong-prev", None), ("wrong-next", None), ("wrong-rand", None), ("wrong-zero", None),
             ("badbody", None), ("nohdr", 0), ("nohdr", 1), ("nohdr", 2), ("nohdr", 3), ("nohdr", 4),
             ("neg", 0), ("neg", 7), ("huge", None)]


def gen_badframe(rng, apis, versions, modes, vias=(0, 1), done_variants=(None,)):
    """one bad frame of every kind at every position; earlier waiters possibly already timed out / cancelled"""
    n = len(apis)
    out = []
    for p in range(1, n + 1):
        for kind, cut in BAD_KINDS:
            for mode in modes:
                for via in vias:
                    for dv in done_variants:
                        f = {"for": p, "corr": "own", "kind": "good"}
                        if kind == "wrong-prev":
                            f["corr"] = ["of", p - 1] if p > 1 else 99
                        elif kind == "wrong-next":
                            f["corr"] = ["of", p + 1] if p < n else 98
                        elif kind == "wrong-rand":
                            f["corr"] = rng.randrange(1000, WRAP)
                        elif kind == "wrong-zero":
                            f["corr"] = 0
                        else:
                            f["kind"] = kind
                            if cut is not None:
                                f["cut"] = cut
                        steps = [["send", a, via if i % 2 == 0 else 0, None] for i, a in enumerate(apis)]
                        if dv is not None:
                            who, how = dv
                            if who <= n:
                                if how == "cancel":
                                    steps.append(["cancel", who])
                                elif steps[who - 1][2] == 0:
                                    steps.append(["nop"])
                                    steps[who - 1][3] = len(steps) - 1
                        frames = [G(i) if i != p else ["frame", f] for i in range(1, n + 1)]
                        total = sum(frame_bytes(apis[i - 1], versions, fr[1]) for i, fr in enumerate(frames, 1))
                        steps += frames + _deliver(rng, mode, total) + [["probe"], ["send", "lg", 0, None]]
                        out.append(sc("badframe:" + kind, versions, steps, corr0=rng.choice([None, WRAP - 2, 5000])))
    return out


def gen_unsolicited(rng, versions):
    """a frame nobody asked for: duplicate of the last answer / fresh id, after everything was answered
    or on an idle connection; and a premature reply (arrives before its request is written)"""
    out = []
    for apis in (["lg"], ["apr", "fc"], []):
        for dup in (True, False):
            for mode in ("whole", "bytes"):
                n = len(apis)
                steps = [["send", a, 0, None] for a in apis] + [G(i + 1) for i in range(n)]
                total = sum(frame_bytes(a, versions) for a in apis)
                extra = {"for": n if n and dup else 0, "corr": "own" if n and dup else 4242, "kind": "good", "api": "lg"}
                extra_len = frame_bytes(apis[-1] if n and dup else "lg", versions)
                steps += _deliver(rng, mode, total) + [["frame", extra]] + _deliver(rng, mode, extra_len)
                steps += [["probe"], ["send", "lg", 1, None]]
                out.append(sc("unsolicited", versions, steps))
    for api in ("lg", "apr"):
        for part in (0, 3, 6, 11):
            ln = frame_bytes(api, versions)
            steps = [["frame", {"for": 0, "api": api, "corr": 501, "kind": "good"}]]
            steps += ([["chunk", part]] if part else []) + [["send", api, 0, None], ["chunk", ln], ["probe"]]
            out.append(sc("unsolicited", versions, steps, corr0=500))
    return out


def gen_eofreset(rng, apis, versions, every=1):
    """EOF / reset after every byte offset of the response stream"""
    n = len(apis)
    total = sum(frame_bytes(a, versions) for a in apis)
    out = []
    for b in range(0, total + 1, every):
        for what in ("eof", "reset"):
            for via in (0, 1):
                steps = [["send", a, via, None] for a in apis] + [G(i + 1) for i in range(n)]
                if b:
                    cut = rng.randrange(0, b + 1)
                    steps += [["chunk", c] for c in (cut, b - cut) if c]
                steps += [[what], ["probe"], ["send", "lg", via, None]]
                out.append(sc("transport:" + what, versions, steps))
    return out


def gen_timing(rng, versions):
    """a waiter times out / is cancelled before, in the middle of, or after the arrival of its bytes"""
    apis = ["apr", "fc", "dr"]
    lens = [frame_bytes(a, versions) for a in apis]
    out = []
    for i in (1, 2, 3):
        for how in ("timeout", "cancel"):
            for via in (0, 1):
                for when in ("before", "size", "header", "body", "after"):
                    steps = [["send", a, via if j + 1 == i else 0, None] for j, a in enumerate(apis)]
                    steps += [G(j + 1) for j in range(3)]
                    before = sum(lens[:i - 1])
                    part = {"before": 0, "size": 2, "header": 6, "body": lens[i - 1] - 2, "after": lens[i - 1]}[when]
                    first = before + part if when != "before" else rng.choice([0, before])
                    if first:
                        steps.append(["chunk", first])
                    if how == "cancel":
                        steps.append(["cancel", i])
                    else:
                        steps.append(["nop"])
                        steps[i - 1][3] = len(steps) - 1
                    steps.append(["probe"])
                    steps += _deliver(rng, "rand", sum(lens) - first)
                    steps += [["send", "lpr", 0, None], G(4), ["chunk", 1000], ["probe"]]
                    out.append(sc(f"timing:{how}:{'client' if via else 'conn'}", versions, steps))
    return out


def gen_samedeadline(rng, versions):
    """several pipelined requests share one deadline (sent in the same instant with the same
    timeout): all their timers fire in one loop iteration; then late replies arrive"""
    out = []
    for apis in (["lg", "apr"], ["fc", "dr", "lpr"], ["apr", "apr", "lg", "fc"]):
        for vias in ("conn", "client", "mixed"):
            for pre in (0, 7, "one"):
                n = len(apis)
                lens = [frame_bytes(a, versions) for a in apis]
                steps = [["send", a, {"conn": 0, "client": 1, "mixed": j % 2}[vias], None] for j, a in enumerate(apis)]
                steps += [G(j + 1) for j in range(n)]
                first = lens[0] if pre == "one" else pre
                if first:
                    steps.append(["chunk", first])
                steps.append(["nop"])
                for j in range(n):
                    steps[j][3] = len(steps) - 1
                steps += [["probe"], ["chunk", sum(lens) - first], ["probe"], ["send", "lg", 0, None], G(n + 1), ["chunk", 999]]
                out.append(sc("samedeadline", versions, steps))
    return out


def gen_wrap(rng):
    out = []
    for c0 in (WRAP - 1, WRAP - 2, WRAP - 3, WRAP - 4):
        for apis in (["fc", "fc", "fc", "fc"], ["lg", "fc", "apr", "fc", "dr"], ["apr", "lpr", "dr", "lg"]):
            for quirk in (False, True):
                n = len(apis)
                steps = [["send", a, 0, None] for a in apis]
                steps += [G(i + 1, corr=0) if quirk and apis[i] == "fc" else G(i + 1) for i in range(n)]
                total = sum(frame_bytes(a, VERS_A) for a in apis)
                steps += _deliver(rng, rng.choice(["whole", "rand", "bytes"]), total) + [["probe"]]
                out.append(sc("wrap", VERS_A, steps, corr0=c0))
    # a non-quirk request answered with id 0, and a quirk request whose own id is 0 answered with a wrong id
    out.append(sc("wrap", VERS_A, [["send", "lg", 0, None], ["send", "fc", 0, None], G(1), G(2, corr=7), ["chunk", 999]], corr0=WRAP - 2))
    out.append(sc("wrap", VERS_A, [["send", "lg", 0, None], G(1, corr=0), ["chunk", 999]], corr0=17))
    return out


def gen_corr0(rng):
    """a frame whose header carries correlation id 0 at every position of a pipeline of mixed requests, for brokers
    that negotiate FindCoordinator v0 (the 0.8.2 quirk applies to that version ONLY) and v1 (it is a mismatch)"""
    out = []
    for versions in (VERS_A, VERS_B):
        for apis in (["lg", "fc", "dr"], ["fc", "fc", "apr"], ["apr", "lpr", "fc"], ["fc"], ["lg", "dr", "fc", "fc"]):
            n = len(apis)
            for pos in range(n):
                steps = [["send", a, j % 2, None] for j, a in enumerate(apis)]
                steps += [G(i + 1, corr=0) if i == pos else G(i + 1) for i in range(n)]
                total = sum(frame_bytes(a, versions) for a in apis)
                steps += _deliver(rng, rng.choice(["whole", "rand"]), total) + [["probe"]]
                out.append(sc("corr0", versions, steps, corr0=rng.choice([5, 17, 1000])))
    return out


def behaviours_to_scripts(behs, rng):
    """TLC behaviours of Sim_Connection -> scripts.  Model correlation ids are mapped so that
    the real counter wraps at the same request as the model's (CorrMax = 3)."""
    out = []
    for b in behs:
        c0 = b[0]["corr0"]

        def real(m, c0=c0):
            return m if m <= c0 else WRAP - 1 - (3 - m)
        versions = {"fc": 0, "lg": 0, "dr": 1, "apr": 0, "lpr": 0}
        # the API of every send of the behaviour (frame k meets request k, also when it is emitted early)
        plan = [("fc" if a["quirk"] else rng.choice(["apr", "lpr"]) if a["flex"] else rng.choice(["lg", "dr"]))
                for a in b[1:] if a["op"] == "send"]
        flexes = [a["flex"] for a in b[1:] if a["op"] == "send"]
        steps, apis, frames = [], [], []     # frames: (model bytes, real bytes, hdrlen)
        dm = dr = 0                          # delivered offsets: model / real
        for a in b[1:]:
            op = a["op"]
            if op == "send":
                api = plan[len(apis)]
                apis.append(api)
                steps.append(["send", api, int(a["via"]), None])
            elif op == "frame":
                f = a["f"]
                r = f["mark"]
                kind = "good"
                if f["sz"] != "ok":
                    kind = f["sz"]
                elif not f["hdr"]:
                    kind = "nohdr"
                elif not f["body"]:
                    kind = "badbody"
                if r <= len(apis):
                    api = apis[r - 1]
                    corr = "own" if f["corr"] == a["own"] else real(f["corr"])
                    d = {"for": r, "corr": corr, "kind": kind, "cut": f["len"]}
                else:
                    # unsolicited / premature: if a later request will meet it with the same header
                    # form, its body is a response of that request's type
                    api = plan[r - 1] if r <= len(plan) and flexes[r - 1] == f["flex"] else ("apr" if f["flex"] else "lg")
                    d = {"for": 0, "api": api, "corr": real(f["corr"]), "kind": kind}
                steps.append(["frame", d])
                frames.append((4 + f["len"], frame_bytes(api, versions, d), 5 if f["flex"] else 4))
            elif op == "chunk":
                dm += a["n"]
                # map the model stream offset to the corresponding real offset
                off_m, off_r, pos = 0, 0, None
                for fm, fr, h in frames:
                    if dm >= off_m + fm:
                        off_m, off_r = off_m + fm, off_r + fr
                        continue
                    o = dm - off_m
                    pos = off_r + (o if o <= 4 + h or fm == fr else min(fr - 1, 4 + h + (o - 4 - h) * 3 + 1))
                    break
                if pos is None:
                    pos = off_r
                if pos > dr:
                    steps.append(["chunk", pos - dr])
                    dr = pos
            elif op == "timeout":
                k = [j for j, s in enumerate(steps) if s[0] == "send"][a["i"] - 1]
                steps.append(["nop"])
                steps[k][3] = len(steps) - 1
            elif op == "cancel":
                steps.append(["cancel", a["i"]])
            elif op in ("eof", "reset", "close"):
                steps.append([op])
        steps.append(["probe"])
        out.append(sc("sim", versions, steps, corr0=WRAP - 1 - (3 - c0)))
    return out


# ---------------------------------------------------------------------------

def _run_one(s):
    from harness import c12_drv
    ev, info = c12_drv.run_script(s)
    return ev


def run_scripts(scs, jobs=10):
    if len(scs) < 16:
        return [_run_one(s) for s in scs]
    with mp.get_context("fork").Pool(jobs) as pool:
        return pool.map(_run_one, scs, chunksize=max(1, len(scs) // (jobs * 8)))


def classify(s, tr, v):
    """-> signature or None"""
    if v["accepted"] and not v["bad_l"]:
        return None
    fam = s["family"].split(":")[0]
    if v["bad_l"] and (v["accepted"] or v["bad_l"] <= v["reached"]):
        detail = ""
        if v["bad_name"] == "FailureFailsAll":
            detail = ":pending-after-close"
        return f"C12:inv:{v['bad_name']}{detail}:{fam}"
    ev = tr[v["reached"] - 1] if v["reached"] - 1 < len(tr) else {"e": "end"}
    e = ev["e"]
    d = ""
    if e == "Outcome":
        d = ":" + ev["k"]
        if ev["k"] == "ok":
            d += ":cross-delivery"          # a response was handed to a waiter the spec does not give it to
        elif ev["k"] == "timeout":
            d += ":left-pending"
        elif ev["k"] in ("other", "wrongtype"):
            d += ":" + str(ev.get("exc", ev.get("type", "")))[:40]
    elif e == "Frame":
        # the code did `out` with a frame where the spec prescribes something else
        d = ":" + {"ok": "delivered-unexpectedly", "skip": "skipped-unexpectedly", "mismatch": "mismatch-unexpectedly",
                   "raise": "raised-unexpectedly"}.get(ev["out"], ev["out"])
    elif e in ("End", "Probe"):
        d = ":pending-waiter" if ev.get("pending") else ":state"
        if ev.get("hang"):
            d = ":hang"
    elif e == "Close":
        d = ":" + ev["reason"]
    elif e == "Crash":
        d = ":" + ev["err"][:50]
    return f"C12:reject:{e}{d}:{fam}"


def conformance(rep: Report, ctx, scs, label):
    traces = run_scripts(scs)
    ver, st = tlc.validate("Trace_Connection", "Trace_Connection.cfg", traces,
                           shard=max(50, min(400, len(traces) // 10 + 1)), jobs=10)
    rep.traces += len(traces)
    rep.states += st
    rep.transitions += st
    fam = rep.extra.setdefault("traces_by_family", {})
    cls = rep.extra.setdefault("verdict_classes", {})
    for s, tr, v in zip(scs, traces, ver):
        fam[s["family"].split(":")[0]] = fam.get(s["family"].split(":")[0], 0) + 1
        sig = classify(s, tr, v)
        if sig is None:
            continue
        cls[sig] = cls.get(sig, 0) + 1
        k = v["reached"] - 1
        rep.violations.append(Violation(sig, {"script": s, "verdict": {x: v[x] for x in ("reached", "need", "bad")},
                                              "event": tr[k] if 0 <= k < len(tr) else None, "trace": tr[:60]}))
    x = rep.extra
    x["trace_events"] = x.get("trace_events", 0) + sum(len(t) for t in traces)
    x["traces_with_connection_failure"] = x.get("traces_with_connection_failure", 0) + sum(
        1 for t in traces if any(e["e"] == "Close" or (e["e"] == "Frame" and e["out"] in ("mismatch", "raise")) for e in t))
    x["traces_with_late_reply_swallowed"] = x.get("traces_with_late_reply_swallowed", 0) + sum(
        1 for t in traces if any(e["e"] == "Frame" and e["out"] == "skip" for e in t))
    x["responses_delivered"] = x.get("responses_delivered", 0) + sum(
        1 for t in traces for e in t if e["e"] == "Outcome" and e["k"] == "ok")
    x["distinct_scripts"] = x.get("distinct_scripts", 0) + len({json.dumps([s["steps"], s.get("corr0"), s["versions"]]) for s in scs})
    return traces, ver


def binding_selftest(scs, traces, ver):
    """corrupted observations must be rejected by TLC"""
    pick = None
    for s, t, v in zip(scs, traces, ver):
        oks = [e for e in t if e["e"] == "Outcome" and e["k"] == "ok"]
        if v["accepted"] and not v["bad_l"] and len(oks) >= 2 and any(e["e"] == "Frame" for e in t):
            pick = t
            break
    if pick is None:
        raise MachineryError("C12 binding self-test: no accepted trace with two delivered responses")
    muts = []
    t1 = [dict(e) for e in pick]                         # two waiters got each other's response
    ia, ib = [i for i, e in enumerate(t1) if e["e"] == "Outcome" and e["k"] == "ok"][:2]
    t1[ia]["mark"], t1[ib]["mark"] = t1[ib]["mark"], t1[ia]["mark"]
    muts.append(t1)
    t2 = [dict(e) for e in pick]                         # a frame was handled that nobody saw
    del t2[next(i for i, e in enumerate(t2) if e["e"] == "Frame")]
    muts.append(t2)
    t3 = [dict(e) for e in pick]                         # correlation id on the wire off by one
    i = next(i for i, e in enumerate(t3) if e["e"] == "Send")
    t3[i]["corr"] = (t3[i]["corr"] + 1) % WRAP
    muts.append(t3)
    t4 = [dict(e) for e in pick]                         # a waiter left pending at the end
    i = next(i for i, e in enumerate(t4) if e["e"] == "Outcome")
    who = t4[i]["i"]
    del t4[i]
    t4[-1] = dict(t4[-1], pending=[who])
    muts.append(t4)
    v, _ = tlc.validate("Trace_Connection", "Trace_Connection.cfg", muts, shard=10, jobs=1)
    for k, x in enumerate(v):
        if x["accepted"] and not x["bad_l"]:
            raise MachineryError(f"C12 binding self-test: corrupted trace #{k} was accepted by the trace spec")


def simulate_behaviours(rep, ctx, num):
    work = Path(tempfile.mkdtemp(prefix="c12-", dir=tlc.SCRATCH))
    try:
        bf = work / "behaviours.json"
        res = tlc.mc("Sim_Connection", "Sim_Connection.cfg", workers=1, timeout=900, simulate=f"num={num}", depth=45,
                     seed=ctx.seed + 11, env={"BEHAVIOUR_FILE": str(bf)}, heap="3g")
        if res.get("violated") or not bf.exists():
            raise MachineryError("C12: Sim_Connection failed: " + str(res.get("violated")) + res["output"][-1500:])
        rep.add_mc(f"Sim_Connection -simulate num={num} (behaviours replayed into the code)", res)
        return json.loads(bf.read_text())
    finally:
        shutil.rmtree(work, ignore_errors=True)


def run(ctx) -> Report:
    import aiokafka  # noqa: F401  (the scratch snapshot)
    rng = random.Random(ctx.seed * 104729 + 12)
    rep = Report()
    q = ctx.quick

    if ctx.replay:
        d = json.load(open(ctx.replay))
        conformance(rep, ctx, [d["detail"]["script"]], "replay")
        return rep

    with ThreadPoolExecutor(max_workers=1) as bg:
        mc_job = bg.submit(run_mc, ctx)

        # spec -> code
        behs = simulate_behaviours(rep, ctx, 150 if q else 3000)
        scs = behaviours_to_scripts(behs, rng)
        rep.extra["spec_behaviours_replayed"] = len(scs)

        # code -> spec
        if q:
            for apis, vers in ((["fc"], VERS_A), (["apr", "lg"], VERS_A)):
                scs += gen_split3(apis, vers, via=0)
            scs += gen_fine(rng, 300)
            scs += gen_badframe(rng, ["apr", "fc", "lg"], VERS_A, ["whole", "rand"])
            scs += gen_eofreset(rng, ["dr", "fc"], VERS_A)
        else:
            for apis, vers, via, c0 in ((["fc"], VERS_A, 0, None), (["apr"], VERS_A, 1, None), (["lpr"], VERS_A, 0, WRAP - 1),
                                        (["lg", "dr"], VERS_B, 0, None), (["dr", "fc"], VERS_A, 1, WRAP - 2),
                                        (["fc", "lpr", "lg"], VERS_B, 0, None)):
                scs += gen_split3(apis, vers, via=via, corr0=c0)
            scs += gen_fine(rng, 10000)
            scs += gen_badframe(rng, ["apr", "fc", "lg"], VERS_A, ["whole", "rand", "bytes"],
                                done_variants=(None, (1, "timeout"), (2, "cancel"), (3, "timeout")))
            scs += gen_badframe(rng, ["lg", "dr", "fc", "lpr"], VERS_B, ["whole", "rand"],
                                done_variants=(None, (2, "timeout"), (4, "cancel")))
            scs += gen_eofreset(rng, ["dr", "fc"], VERS_A)
            scs += gen_eofreset(rng, ["lg", "apr", "fc"], VERS_B)
        scs += gen_unsolicited(rng, VERS_A)
        scs += gen_timing(rng, VERS_A) + (gen_timing(rng, VERS_B) if not q else [])
        scs += gen_wrap(rng) + gen_samedeadline(rng, VERS_A) + gen_corr0(rng)

        traces, ver = conformance(rep, ctx, scs, "all")
        binding_selftest(scs, traces, ver)
        account_mc(rep, mc_job.result())

    ok = [(s, t) for s, t, v in zip(scs, traces, ver) if v["accepted"] and not v["bad_l"]]
    for fam in ("badframe", "timing", "sim"):
        m = next(((s, t) for s, t in ok if s["family"].startswith(fam)), None)
        if m:
            rep.samples.append({"family": m[0]["family"], "script": m[0]["steps"][:14], "trace": m[1][:22]})
    rep.extra.update(
        rule="a trace is accepted iff TLC finds a behaviour of Connection.tla matching every logged event "
             "(silent steps: reader consumed size field / reader died / no-op close) and all four invariants hold in every state",
        evaluations=rep.traces,
        distinct_nontrivial=rep.extra.get("distinct_scripts", 0),
        exhaustive=False, exhaustive_parts={"model": "MC_Connection configs above (complete state graphs)",
                    "implementation": "every split into <= 3 chunks of the response stream of 1-2 (quick) / 1-3 (thorough) "
                                      "pipelined requests; every bad-frame kind at every position of 3 (4) requests; "
                                      "EOF and reset after every byte offset; timeout/cancel x conn/client x 5 arrival phases x 3 positions"},
        bounds={"requests": "1..8 (random family), 1..4 (enumerated families)", "corr0": "default, 2^31-1..2^31-4, others"},
    )
    rep.assumptions = [
        "the scripted peer / in-memory transport (harness/c12_drv.py) delivers bytes, EOF and reset the way an asyncio "
        "socket transport does (data_received / eof_received / connection_lost); transport.write never raises",
        "aiokafka's Response.encode is used to build response bodies (codec correctness is C11)",
        "observation hooks wrap _handle_frame / close / send on the connection INSTANCE; class code is unmodified",
        "a size field larger than the bytes that will ever arrive is indistinguishable from a slow large frame: the "
        "reader waits and waiters end by their request timeout (modelled, not a violation)",
        "header form always matches the request the frame meets (pairing is C11); SASL raw frames are not exercised",
    ]
    return rep
