"""C17 — keyed records choose the Java client's partition.

Spec: spec/Partitioner.tla (murmur2 in byte-limb arithmetic, anchored on the
Java-computed values; partition choice).  The real functions are run over an
enumerated + sampled table of cases and TLC evaluates every case against the
spec (one state per case)."""
from __future__ import annotations

import asyncio
import itertools
import random

from harness import tlc
from harness.runner import Report, Violation


def _limbs(h):
    return [h & 0xFF, (h >> 8) & 0xFF, (h >> 16) & 0xFF, (h >> 24) & 0xFF]


def gen_keys(ctx, rng):
    keys = [b""] + [bytes([a]) for a in range(256)]
    two = [bytes([a, b]) for a in range(256) for b in range(256)]
    keys += two if not ctx.quick else rng.sample(two, 4000)
    # all tail lengths 0..3 after one full block, every high-bit pattern
    pat = [0x00, 0x01, 0x7F, 0x80, 0xFF]
    for n in range(3, 8):
        combos = list(itertools.product(pat, repeat=n))
        if ctx.quick and len(combos) > 600:
            combos = rng.sample(combos, 600)
        keys += [bytes(c) for c in combos]
    nrand = 300 if ctx.quick else 3000
    for j in range(nrand):
        ln = rng.randrange(0, 4097) if j % (10 if ctx.quick else 4) == 0 else rng.randrange(0, 64)
        keys.append(bytes(rng.randrange(256) for _ in range(ln)))
    return keys


def run(ctx) -> Report:
    from aiokafka.partitioner import DefaultPartitioner, murmur2
    from aiokafka.producer import AIOKafkaProducer
    from aiokafka.structs import TopicPartition  # noqa: F401

    rng = random.Random(ctx.seed)
    rep = Report()
    part = DefaultPartitioner()
    cases, meta = [], []
    keys = gen_keys(ctx, rng)
    counts = list(range(1, 41)) + [97, 100, 127, 128, 255, 256, 257, 500, 999, 1000]
    for idx, k in enumerate(keys):
        kl = list(k)
        h = murmur2(k)
        cases.append({"kind": "hash", "key": kl, "got": _limbs(h)})
        meta.append(f"hash:len%4={len(k) % 4}")
        # keyed partition for a couple of partition counts and availability sets
        for n in (rng.choice(counts), rng.randrange(1, 1001)):
            allp = list(range(n))
            if rng.random() < 0.3:   # non-contiguous ids, still sorted
                allp = sorted(rng.sample(range(0, 3 * n + 1), n))
            avail = rng.sample(allp, rng.randrange(0, min(n, 4) + 1))
            got = part(k, allp, avail)
            c = {"kind": "keyed", "key": kl, "avail": avail, "got": got}
            if allp == list(range(n)):
                c["n"] = n
            else:
                c["all"] = allp
            cases.append(c)
            meta.append("keyed:avail=" + ("none" if not avail else "some" if len(avail) < n else "all"))
    # every availability subset of <= 4 partitions, keyed and unkeyed
    for n in range(1, 5):
        allp = list(range(n))
        for r in range(0, n + 1):
            for sub in itertools.combinations(allp, r):
                for order in ([list(sub)] if len(sub) < 2 else [list(sub), list(reversed(sub))]):
                    for k in (b"", b"k", b"key-1", b"\xff\x80"):
                        cases.append({"kind": "keyed", "key": list(k), "all": allp, "avail": order,
                                      "got": part(k, allp, order)})
                        meta.append("keyed:subset")
                    for s in range(12 if ctx.quick else 60):
                        random.seed(ctx.seed * 1000 + s)
                        cases.append({"kind": "unkeyed", "all": allp, "avail": order,
                                      "got": part(None, allp, order)})
                        meta.append("unkeyed:avail=" + ("none" if not order else "some"))

    # the producer's own routing (AIOKafkaProducer._partition) on a fake metadata view
    async def via_producer():
        out = []
        prod = AIOKafkaProducer(bootstrap_servers="127.0.0.1:1")
        prod._closed = True   # never started; silence the unclosed warning

        class MD:
            def __init__(self, allp, avail):
                self.a, self.v = allp, avail

            def partitions_for_topic(self, t):
                return set(self.a)

            def available_partitions_for_topic(self, t):
                return set(self.v)

        for _ in range(200 if ctx.quick else 2000):
            n = rng.randrange(1, 60)
            allp = list(range(n))
            avail = rng.sample(allp, rng.randrange(0, n + 1))
            k = bytes(rng.randrange(256) for _ in range(rng.randrange(0, 24)))
            prod._metadata = MD(allp, avail)
            got = prod._partition("t", None, k, b"v", k, b"v")
            # set iteration order is what the producer hands to the partitioner
            out.append({"kind": "keyed", "key": list(k), "all": list(set(allp)), "avail": list(set(avail)), "got": got})
            meta.append("producer:keyed")
            random.seed(rng.randrange(1 << 30))
            got = prod._partition("t", None, None, b"v", None, b"v")
            out.append({"kind": "unkeyed", "all": list(set(allp)), "avail": list(set(avail)), "got": got})
            meta.append("producer:unkeyed:avail=" + ("none" if not avail else "some"))
        # ... and on the REAL ClusterMetadata fed by MetadataResponses that list the partitions in arbitrary order
        # (brokers do not promise ascending ids), refreshed between sends with changing leaders
        from aiokafka.cluster import ClusterMetadata
        from aiokafka.protocol.metadata import MetadataResponse_v1
        for _ in range(120 if ctx.quick else 1200):
            n = rng.randrange(1, 40)
            md = ClusterMetadata(metadata_max_age_ms=10**9)
            prod._metadata = md
            for _round in range(3):
                ids = list(range(n))
                rng.shuffle(ids)
                avail = set(rng.sample(range(n), rng.randrange(0, n + 1)))
                # leaders are spread over broker ids 0..2 (id 0 is a perfectly good leader), or all on one broker
                one = rng.choice([None, None, 0, 1])
                parts = [(0 if p in avail else 5, p, ((rng.randrange(3) if one is None else one) if p in avail else -1), [1], [1])
                         for p in ids]
                md.update_metadata(MetadataResponse_v1(brokers=[(0, "h0", 9092, None), (1, "h1", 9092, None), (2, "h2", 9092, None)],
                                                       controller_id=1, topics=[(0, "t", False, parts)]))
                k = bytes(rng.randrange(256) for _ in range(rng.randrange(0, 24)))
                got = prod._partition("t", None, k, b"v", k, b"v")
                out.append({"kind": "keyed", "key": list(k), "all": list(range(n)), "avail": sorted(avail), "got": got})
                meta.append("producer:real-metadata:keyed")
                random.seed(rng.randrange(1 << 30))
                got = prod._partition("t", None, None, b"v", None, b"v")
                out.append({"kind": "unkeyed", "all": list(range(n)), "avail": sorted(avail), "got": got})
                meta.append("producer:real-metadata:unkeyed:avail=" + ("none" if not avail else "some"))
        return out

    cases += asyncio.run(via_producer())

    bad, st, gen = tlc.run_table("Partitioner", "Partitioner.cfg", cases,
                                 shard=3000 if ctx.quick else 6000, jobs=14)
    rep.states, rep.transitions = st, gen
    rep.traces = len(cases)
    rep.mc_runs.append({"name": "Partitioner table", "cases": len(cases), "distinct": st, "generated": gen})
    rep.samples = [cases[0], cases[1], next(c for c in cases if c["kind"] == "unkeyed"),
                   {k: (v if k != "key" else v[:16]) for k, v in cases[-2].items()}]
    rep.extra.update(
        evaluations=len(cases),
        distinct_nontrivial=len({(c["kind"], bytes(c.get("key", [])), c.get("n", len(c.get("all", []))), tuple(c.get("avail", ())))
                                 for c in cases}),
        rule="one case per (function, key, partition list, availability); keys: all of length 0..1, "
             + ("all" if not ctx.quick else "4000 sampled") + " of length 2, tail lengths 0..3 x high-bit patterns, "
             "random up to 4 KiB; distinct = distinct (kind,key,|all|,avail)",
        exhaustive=False,
        classes=sorted(set(meta)),
    )
    rep.assumptions = ["spec anchored on the six Java-computed values in tests/test_partitioner.py",
                       "TLC evaluates Murmur2 independently of the Python implementation"]
    for i in bad:
        c = cases[i]
        rep.violations.append(Violation(f"C17:{meta[i]}", {"case": c}))
    return rep
