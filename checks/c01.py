"""C01 — per-partition produce order; no loss, no duplication under retries.

Spec: spec/ProducerCore.tla (+ MC_ProducerCore: exhaustive interleavings with a
fault budget; Trace_ProducerCore: the real producer's executions on the
simulated cluster are validated as behaviours of the spec, every invariant
evaluated at every step)."""
from harness.runner import Report

from . import _producer as P


def run(ctx) -> Report:
    rep = Report()
    if not ctx.replay:
        P.run_mc(rep, ctx, "C01")
    n = 1 if ctx.quick else 12
    classes = {"idem": 260 * n, "plain": 200 * n, "idem-start": 60 * n, "idem-long": 40 * n, "idem-wrap": 12, "acks0": 40 * n, "idem-noleader": 20 * n,
               "versions": 40 * n}
    P.conformance(rep, ctx, "C01", classes)
    rep.extra.update(
        bounds="MC: 2 tasks x <=3-4 records x 2 partitions x 2 nodes, batch capacity 2, sequence space 4 starting at 3 "
               "(wraps inside the run), fault budget 1-3 over {error reply, connection lost before/after apply, "
               "leader move, leader unknown}; traces: 1-4 tasks, 1-3 partitions, 1-3 nodes, 3-40 records, "
               "faults 0-6 (drop before/after apply, reply lost, retriable error codes), leader moves, stale metadata",
        rule="one trace per generated scenario (seeded); non-trivial = trace contains a fault, retry or rejection")
    rep.assumptions = ["simulated cluster implements Kafka's produce/idempotence rules (validated by the same trace spec)",
                       "aiokafka's request/response codecs are the trusted base for decoding requests at the simulated broker",
                       "record batches on the wire are read by an independent reader (harness/kbatch.py)"]
    return rep
