"""C13 — consumption starts at the committed offset, else per auto_offset_reset.

Spec: spec/ConsumerFetch.tla, reset sub-machine (UseCommitted / NoCommitted / AwaitReset /
ApplyReset / FetchOutOfRange / Seek) + Trace_ConsumerFetch on the real consumer."""
from harness.runner import Report

from . import _consumer as P


def run(ctx) -> Report:
    rep = Report()
    if not ctx.replay:
        P.run_mc(rep, ctx, "C13")
    n = 1 if ctx.quick else 12
    P.conformance(rep, ctx, "C13", {"reset": 800 * n, "oor-race": 120 * n, "late-lookup": 100 * n, "reset-race": 100 * n})
    rep.extra.update(
        bounds="committed offset absent / inside / below log start / beyond log end; policies earliest/latest/none; both isolation "
               "levels; group (OffsetFetch) and group-less; ListOffsets v0..v3 brokers; lookups failing with retriable errors, "
               "dropped or timing out; a seek() at 9 delays between 0 and 100 ms after assignment; out-of-range positions",
        rule="one trace per generated scenario")
    rep.assumptions = ["as C03", "a seek_to_beginning/end() racing an in-flight reset lookup of the other strategy may receive that lookup's "
                       "result (named deviation ApplyReset in the spec; C13 only speaks about an explicit seek())"]
    return rep
