"""C03 — consumer yields each visible record once, in offset order, from its position.

Spec: spec/ConsumerFetch.tla (MC_ConsumerFetch: all interleavings of fetch replies cut at
every batch boundary, getone/getmany, seek, seek_to_*, pause/resume over a family of log
shapes, both isolation levels; liveness ReachesEnd) + Trace_ConsumerFetch: the real
AIOKafkaConsumer's executions on the simulated cluster are validated by TLC."""
from harness.runner import Report

from . import _consumer as P


def run(ctx) -> Report:
    rep = Report()
    if not ctx.replay:
        P.run_mc(rep, ctx, "C03")
    n = 1 if ctx.quick else 12
    P.conformance(rep, ctx, "C03", {"plain": 500 * n, "legacy": 250 * n, "txn": 150 * n, "oor-race": 80 * n, "reset": 100 * n, "reset-race": 100 * n})
    rep.extra.update(
        bounds="MC: 1 partition, 4 log shapes (compaction holes, empty batch, interleaved committed/aborted/open "
               "transactions of 2 producers, solitary abort marker, log start > 0), hw at/below end, every response cut, "
               "<=2-3 seeks (any offset / to beginning / to end), <=1-2 pauses, 3 policies, committed in {none,0,3,12}; "
               "traces: 1-3 partitions on 1-3 nodes, v0/v1 (plain and compressed wrappers entered in the middle) and v2 logs, "
               "1-3 concurrent tasks issuing getone/getmany(max_records, partitions)/seek/seek_to_*/pause/resume/position, "
               "fetch errors (NOT_LEADER, UNKNOWN_TOPIC, LEADER_NOT_AVAILABLE, REQUEST_TIMED_OUT), drops, lost replies, "
               "leader moves, unstable tail above the high watermark",
        rule="one trace per generated scenario; non-trivial = contains a seek/reset/pause or a failed fetch",
        not_covered="logs mixing message formats inside one fetch response (see known finding C09-splitter-mixed-magic)")
    rep.assumptions = ["simulated leaders follow Kafka's fetch rules (validated by the same trace spec)",
                       "logs are written by an independent batch writer (harness/kbatch.py)",
                       "asyncio FIFO scheduling on the virtual-time loop; futures/tasks hashed by creation order"]
    return rep
