"""Shared machinery of C07 / C16: model checking of TxnProducer, program generation for the
transactional producer, execution on the simulated cluster, TLC trace validation."""
from __future__ import annotations

import os
import itertools
import json
import logging
import multiprocessing as mp
import random

from harness import tlc
from harness.runner import Report, Violation
from harness.tlc import MachineryError

TXN_CODES = {"InitProducerId": [14, 15, 16, 51], "AddPartitionsToTxn": [14, 15, 16, 51, 3],
             "AddOffsetsToTxn": [14, 15, 16, 51], "TxnOffsetCommit": [14, 15, 16, 3], "EndTxn": [14, 15, 16, 51],
             "FindCoordinator": [15], "Produce": [6, 5, 3, 7, 19]}
FATAL_CODES = {"AddPartitionsToTxn": [47, 53], "AddOffsetsToTxn": [47, 53], "EndTxn": [47], "TxnOffsetCommit": [47, 53],
               "Produce": [47, 45]}


def run_mc(rep: Report, ctx, which: str):
    cfgs = [("safety", f"""SPECIFICATION Spec
CONSTANTS
  Parts = {{p1, p2}}
  MaxTxn = 2
  MaxSend = {2 if ctx.quick else 3}
  Faults = {1 if ctx.quick else 2}
INVARIANT ProtocolOrder
INVARIANT NoEndWhileUnacked
INVARIANT Atomicity
INVARIANT OffsetsAtomic
INVARIANT FatalIsFinal
CHECK_DEADLOCK FALSE
"""), ("live", """SPECIFICATION LiveSpec
CONSTANTS
  Parts = {p1, p2}
  MaxTxn = 2
  MaxSend = 2
  Faults = 1
PROPERTY EndsAsRequested
PROPERTY AbortRecovers
CHECK_DEADLOCK FALSE
""")]
    for name, txt in cfgs:
        p = tlc.SPEC / f"_gen_txn_{name}_{os.getpid()}.cfg"
        p.write_text(txt)
        r = tlc.mc("MC_TxnProducer", p.name, workers=12, timeout=2400, coverage=(name == "safety"), heap="8g")
        p.unlink()
        if r.get("violated") or r.get("timed_out"):
            raise MachineryError(f"MC_TxnProducer/{name}: {r.get('violated')} timed_out={r.get('timed_out')}\n"
                                 + tlc.counterexample(r["output"], 3000))
        rep.add_mc(f"MC_TxnProducer/{name}", r, need_actions=["K", "F"] if name == "safety" else None)


# ---------------------------------------------------------------------------
# programs

def gen_txn_body(rng, nparts, *, offsets=True):
    body = []
    for _ in range(rng.randrange(0, 4)):
        r = rng.random()
        if r < 0.6:
            body.append(["send", rng.randrange(nparts), rng.randrange(1, 4)])
        elif r < 0.8:
            body.append(["send_bg", rng.randrange(nparts), rng.randrange(1, 3)])
        elif offsets:
            body.append(["send_offsets", {f"t-{rng.randrange(nparts)}": rng.randrange(1, 50)}])
        if rng.random() < 0.15:
            body.append(["sleep", rng.choice([0.001, 0.01, 0.06])])
    return body


def gen_scenario(rng: random.Random, seed: int, cls: str) -> dict:
    nparts = rng.choice([1, 2, 3])
    sc = dict(cls=cls, seed=seed, nparts=nparts, nnodes=rng.choice([1, 2, 3]), tid="tx",
              linger_ms=rng.choice([0, 0, 5, 20]), marker_delay=rng.choice([0.002, 0.01, 0.05]), faults=dict(budget=0))
    prog = []
    ntx = rng.randrange(1, 5)
    for _ in range(ntx):
        end = rng.choice(["commit", "commit", "abort"])
        if rng.random() < 0.25:
            prog.append(["ctx", gen_txn_body(rng, nparts), end == "abort"])
        else:
            prog += [["begin"]] + gen_txn_body(rng, nparts) + [[end]]
        if rng.random() < 0.2:
            prog.append(["sleep", rng.choice([0, 0.003, 0.02])])
    if cls == "faults":
        sc["faults"] = dict(budget=rng.choice([1, 2, 3, 5]), p=rng.choice([0.15, 0.3]),
                            apis=["InitProducerId", "AddPartitionsToTxn", "AddOffsetsToTxn", "TxnOffsetCommit", "EndTxn",
                                  "FindCoordinator", "Produce"],
                            codes_by_api=TXN_CODES, kinds=["error", "error", "drop_before", "drop_after", "lose_reply"],
                            slow=rng.choice([0, 0.004, 0.02]))
        if sc["nnodes"] > 1 and rng.random() < 0.4:
            sc["coord_move"] = [round(rng.random() * 0.3, 3), rng.randrange(sc["nnodes"])]
    if cls == "nodedown":
        # the transaction coordinator's node dies for good at a random instant (its roles move to a survivor)
        sc["nnodes"] = max(2, sc["nnodes"])
        sc["node_down"] = round(rng.random() ** 2 * 0.4, 4)
        sc["faults"] = dict(budget=0, slow=rng.choice([0.002, 0.01, 0.03]))
        # more offset batches: the group-coordinator / transaction-coordinator distinction matters there
        prog = [st for st in prog] + [["begin"], ["send_offsets", {"t-0": 9}], ["send", 0, 1], ["commit"]]
    if cls == "crash":
        k = rng.randrange(1, max(2, len(prog)))
        prog.insert(k, ["kill"])
        if rng.random() < 0.3:
            sc["faults"] = dict(budget=1, p=0.2, apis=["InitProducerId", "EndTxn"], codes_by_api=TXN_CODES,
                                kinds=["error", "lose_reply"], slow=0.004)
    if cls == "crashany":
        sc["kill_at"] = round(rng.random() ** 2 * 0.6, 4)
        sc["after_kill"] = [["begin"], ["send", rng.randrange(nparts), 1], ["send_offsets", {"t-0": 3}], [rng.choice(["commit", "abort"])]]
        if rng.random() < 0.4:
            sc["faults"] = dict(budget=2, p=0.2, apis=["InitProducerId", "EndTxn", "AddPartitionsToTxn", "Produce"],
                                codes_by_api=TXN_CODES, kinds=["error", "lose_reply", "drop_after"], slow=rng.choice([0.004, 0.02]))
        else:
            sc["faults"] = dict(budget=0, slow=rng.choice([0, 0.004, 0.03]))
    if cls == "refused":
        # a leader refuses one batch for good (size limit / sequence violation): commit must not succeed
        sc["faults"] = dict(budget=1, p=rng.choice([0.3, 0.6]), apis=["Produce"], codes_by_api={"Produce": [10, 45]}, kinds=["error"])
    if cls == "abortable":
        # one transaction touches the unauthorized topic "u" (TOPIC_AUTHORIZATION_FAILED at AddPartitionsToTxn):
        # commit must raise, abort must clean up at the coordinator, the next transaction must succeed
        sc["auth"] = ["u"]
        sc["linger_ms"] = rng.choice([0, 5, 20])
        pre = rng.choice([[], [["send", 0, 1], ["sleep", 0.2]], [["send", rng.randrange(nparts), 1]],
                          [["send_offsets", {"t-0": 5}], ["sleep", 0.1]]])
        burst = [["send_bg", rng.randrange(nparts), 1] for _ in range(rng.randrange(0, 3))] + [["send_bg", 0, 1, "u"]]
        rng.shuffle(burst)
        prog = [["begin"]] + pre + burst + [["sleep", rng.choice([0.05, 0.3])], ["commit"], ["abort"], ["begin"],
                                            ["send", rng.randrange(nparts), 1], ["commit"]]
    sc["program"] = prog
    sc["strict"] = cls in ("plain", "faults", "crash", "crashany", "nodedown")      # only retriable faults are injected in these
    return sc


CALLS = {"begin": ["begin"], "send0": ["send", 0, 1], "send1": ["send", 1, 1], "offsets": ["send_offsets", {"t-0": 7}],
         "commit": ["commit"], "abort": ["abort"], "exit_ok": ["exit_ok"], "exit_exc": ["exit_exc"],
         "sendU": ["send", 0, 1, "u"]}
API = ["begin", "send0", "send1", "offsets", "commit", "abort", "exit_ok", "exit_exc"]
TXN_APIS = ["AddPartitionsToTxn", "AddOffsetsToTxn", "TxnOffsetCommit", "EndTxn", "Produce", "FindCoordinator:group"]
RETRIABLE = {"AddPartitionsToTxn": [15, 16, 14, 51], "AddOffsetsToTxn": [15, 16, 14, 51], "TxnOffsetCommit": [15, 16, 14],
             "EndTxn": [15, 16, 14, 51], "Produce": [6, 7]}
FATAL = {"AddPartitionsToTxn": [47, 53], "AddOffsetsToTxn": [47, 53], "TxnOffsetCommit": [47, 53], "EndTxn": [47, 53],
         "Produce": [47, 45]}
ABORTABLE = {"AddOffsetsToTxn": [30], "TxnOffsetCommit": [30], "Produce": [10], "FindCoordinator:group": [30]}   # topic authorization: the "sendU" call


def api_sequences(maxlen, alphabet=API):
    """C16: every sequence of up to maxlen calls over the API alphabet"""
    for n in range(1, maxlen + 1):
        for seq in itertools.product(alphabet, repeat=n):
            yield seq


def seq_scenario(seq, seed, fault=None, tail=()):
    """`tail`: calls appended after the sequence under test (e.g. abort + a fresh transaction, to
    check that the producer recovered / stayed dead)"""
    prog = []
    for c in list(seq) + list(tail):
        st = CALLS[c]
        prog.append([st[0], dict(st[1])] if isinstance(st[-1], dict) else list(st))
    sc = dict(cls="api", seed=seed, nparts=2, nnodes=2, tid="tx", linger_ms=0, marker_delay=0.002,
              faults=dict(budget=0), program=prog, call_timeout=12, seq=list(seq))
    if "sendU" in seq or "sendU" in tail:
        sc["auth"] = ["u"]
        sc["cls"] = "api-abortable"
    sc["strict"] = fault is None and "auth" not in sc
    if fault:
        api, nth, code = fault
        sc["strict"] = code not in (47, 53, 45, 29, 30, 10)
        sc["faults"] = dict(budget=0, script=[[api, nth, "error", code]])
        sc["cls"] = "api-" + ("fatal" if code in (47, 53, 45) else "abortable" if code in (29, 30, 10) else "retriable")
    return sc


def fault_choices():
    out = []
    for api in TXN_APIS:
        for nth in (1, 2):
            for kind in (RETRIABLE, FATAL, ABORTABLE):
                for code in kind.get(api, []):
                    out.append((api, nth, code))
    return out


def c16_scenarios(rng, *, exhaustive_len, sampled, faulted):
    """all call sequences up to exhaustive_len; `sampled` random ones of length exhaustive_len+1..6;
    `faulted` sequences (biased to protocol-ordered prefixes so that the fault is reached) each with
    one injected error, followed by a recovery tail"""
    scs = []
    for q in api_sequences(exhaustive_len):
        scs.append(seq_scenario(q, len(scs)))
    for _ in range(sampled):
        n = rng.randrange(exhaustive_len + 1, 7)
        scs.append(seq_scenario([rng.choice(API) for _ in range(n)], len(scs)))
    # the abortable-error state x every pair of following calls (incl. stray begin / sends / exits) x commit | abort
    for x in API:
        for y in API:
            for end in ("commit", "abort"):
                scs.append(seq_scenario(["begin", "send0", "sendU", x, y, end], len(scs), None, ["abort", "begin", "send1", "commit"]))
    faults = fault_choices()
    legal_bodies = ["send0", "send1", "offsets"]
    for k in range(faulted):
        body = [rng.choice(legal_bodies) for _ in range(rng.randrange(1, 4))]
        end = rng.choice(["commit", "abort", "exit_ok", "exit_exc"])
        seq = ["begin"] + body + [end]
        if rng.random() < 0.3:                       # perturb: an out-of-order call somewhere
            seq.insert(rng.randrange(len(seq) + 1), rng.choice(API))
        seq = seq[:6]
        tail = rng.choice([["abort", "begin", "send0", "commit"], ["begin", "send1", "commit"], ["commit", "abort", "begin", "send0", "commit"]])
        if k % 4 == 3:                               # abortable error by topic authorization
            seq = list(seq)
            seq.insert(rng.randrange(1, len(seq)), "sendU")
            scs.append(seq_scenario(seq[:6], len(scs), None, tail))
        else:
            scs.append(seq_scenario(seq, len(scs), faults[(k * 7 + rng.randrange(3)) % len(faults)], tail))
    return scs


def _run_one(sc):
    logging.disable(logging.CRITICAL)
    import warnings
    warnings.simplefilter("ignore")
    from harness import drv_txn
    ev, info = drv_txn.run_scenario(sc)
    return ev, {"hang": info["hang"], "exc": info["exc"]}


def run_scenarios(scs, jobs=12):
    if len(scs) < 8:
        return [_run_one(s) for s in scs]
    with mp.get_context("fork").Pool(jobs) as pool:
        return pool.map(_run_one, scs, chunksize=max(1, len(scs) // (jobs * 6)))


def classify(sc, trace, v):
    """signature of a rejected / violating trace: the failing clause (or event) and the scenario class.
    The open finding C07-unregistered-write is recognised by its HISTORY, not by the class: the record was
    written to a partition whose AddPartitionsToTxn was refused together with an unauthorized topic."""
    if v["accepted"] and not v["bad_l"]:
        return None
    tag = sc["cls"].split("-")[0]
    if v["bad_l"]:
        k = v["bad_l"] - 2
        ev = trace[k] if 0 <= k < len(trace) else {}
        if v["bad_name"] == "ProduceOnlyAfterAdded" and ev.get("e") == "BrokerApply":
            # open finding C07-unregistered-write, recognised by its history: inside the current transaction an abortable
            # error was raised (error_transaction() emptied the pending set, un-muting the partition) and the coordinator
            # never acknowledged this partition
            begins = [i for i, e in enumerate(trace[:k]) if e["e"] == "TState" and e.get("to") == "IN_TRANSACTION" and e.get("ok")]
            since = begins[-1] if begins else 0
            aborted = any(e["e"] == "TState" and e.get("to") == "ABORTABLE_ERROR" and e.get("ok") for e in trace[since:k])
            acked = any(e["e"] == "AddPartitionsReply" and e.get("code") == 0 and ev["tp"] in e.get("tps", []) for e in trace[since:k])
            if aborted and not acked:
                return "inv:ProduceOnlyAfterAdded:unmuted-by-abortable-error"
        if v["bad_name"] == "CommitAfterFailedSend":
            errs = sorted({e.get("err", "?") for e in trace[:k + 1] if e["e"] == "Resolved" and e.get("k") == "err"})
            return "inv:CommitAfterFailedSend:" + "+".join(errs)
        return f"inv:{v['bad_name']}:{tag}"
    ev = trace[v["reached"] - 1] if v["reached"] - 1 < len(trace) else {"e": "end"}
    e = ev["e"]
    extra = ""
    if e == "Return":
        extra = f":{ev.get('op')}:{'ok' if ev.get('ok') else ev.get('err')}"
    if e in ("Hang", "Crash"):
        extra = ":" + str(ev.get("why", ev.get("err", "")))[:40]
    return f"reject:{e}{extra}:{tag}"


def conformance(rep: Report, ctx, pid: str, scs: list):
    if ctx.replay:
        scs = [json.load(open(ctx.replay))["detail"]["scenario"]]
    results = run_scenarios(scs)
    traces = [r[0] for r in results]
    for sc_, (tr_, inf_) in zip(scs, results):
        if not tr_ or tr_[0].get("e") != "Config":
            rep.violations.append(Violation(f"{pid}:reject:NoStart", {"scenario": sc_, "info": inf_}))
    keep_ = [i for i, t in enumerate(traces) if t and t[0].get("e") == "Config"]
    scs = [scs[i] for i in keep_]
    traces = [traces[i] for i in keep_]
    ver, st = tlc.validate("Trace_Txn", "Trace_Txn.cfg", traces, shard=max(10, min(200, len(traces) // 12 + 1)), jobs=12)
    rep.traces += len(traces)
    rep.states += st
    rep.transitions += st
    counts, nontrivial = {}, 0
    for sc, tr, v in zip(scs, traces, ver):
        if any(e["e"] in ("Fault", "Killed") or (e["e"] == "Return" and not e.get("ok")) for e in tr):
            nontrivial += 1
        sig = classify(sc, tr, v)
        if sig is None:
            continue
        counts[sig] = counts.get(sig, 0) + 1
        k = v["reached"] - 1
        rep.violations.append(Violation(f"{pid}:{sig}", {"scenario": sc, "verdict": {x: v[x] for x in ("reached", "need", "bad")},
                                                         "event": tr[k] if 0 <= k < len(tr) else None}))
    rep.extra.setdefault("verdict_classes", {}).update(counts)
    rep.extra["traces_with_fault_kill_or_raised_call"] = nontrivial
    rep.extra["trace_events"] = sum(len(t) for t in traces)
    # how often each event (= action of the trace spec) was exercised by the real code: an action with count 0 was never bound
    _cnt = {}
    for _t in traces:
        for _e in _t:
            _cnt[_e["e"]] = _cnt.get(_e["e"], 0) + 1
    for _k, _v in _cnt.items():
        rep.extra.setdefault("trace_action_counts", {})[_k] = rep.extra.get("trace_action_counts", {}).get(_k, 0) + _v
    rep.extra["evaluations"] = len(traces)
    rep.extra["distinct_nontrivial"] = nontrivial
    ok = [(s, t) for s, t, v in zip(scs, traces, ver) if v["accepted"]]
    if ok and not rep.samples:
        s, t = max(ok[:80], key=lambda x: len(x[1]))
        rep.samples.append({"scenario": s, "trace_prefix": t[1:28], "trace_len": len(t)})
    _binding_selftest(traces, ver)
    return scs, traces, ver


def _binding_selftest(traces, ver):
    base = next((t for t, v in zip(traces, ver) if v["accepted"] and any(e["e"] == "BrokerApply" for e in t)
                 and any(e["e"] == "Return" and e.get("op") == "commit" and e.get("ok") for e in t)
                 and any(e["e"] == "WriteMarker" and e["commit"] for e in t)
                 and any(e["e"] == "AddPartitionsReply" and e["code"] == 0 for e in t)
                 and not any(e["e"] in ("Fault", "Killed") for e in t)), None)
    if base is None:
        return
    mut = []
    t1 = [dict(e) for e in base]
    i = next(i for i, e in enumerate(t1) if e["e"] == "AddPartitionsReply" and e["code"] == 0)
    del t1[i]                                   # partition never acknowledged by the coordinator
    mut.append(t1)
    t2 = [dict(e) for e in base]
    i = next(i for i, e in enumerate(t2) if e["e"] == "WriteMarker" and e["commit"])
    t2[i] = dict(t2[i], commit=False)           # committed transaction's marker says abort
    mut.append(t2)
    t3 = [dict(e) for e in base]
    i = next(i for i, e in enumerate(t3) if e["e"] == "Return" and e.get("op") == "commit")
    t3.insert(i + 1, {"e": "Call", "i": t3[i]["i"], "op": "commit", "cid": 9999})
    t3.insert(i + 2, dict(t3[i], ok=True, cid=9999))   # a second commit in READY state "succeeds"
    mut.append(t3)
    v, _ = tlc.validate("Trace_Txn", "Trace_Txn.cfg", mut, shard=10, jobs=1)
    for k, x in enumerate(v):
        if x["accepted"] and not x["bad_l"]:
            raise MachineryError(f"binding self-test: corrupted transaction trace #{k} was accepted")
