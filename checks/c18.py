"""C18 — SCRAM login proves the password and authenticates the server.

Spec: spec/ScramHandshake.tla (client state machine over symbolic terms, honest /
impostor / single-field-tampering servers), MC_ScramHandshake.tla (exhaustive
instances), Trace_ScramHandshake.tla (conformance of recorded runs).

1. TLC checks the invariants over every server behaviour of the instance and
   writes every terminal behaviour to a file (spec -> code).
2. Each behaviour is concretised (terms interpreted with hashlib/hmac, both SHA
   variants) and replayed into the real `ScramAuthenticator` generator; more
   cases are sampled (salts 1..64 bytes, iteration counts 1..20000, user names
   with ',' '=' and non-ASCII, natural uuid nonces, bit flips at many positions).
3. What the client sent is abstracted back to texts over terms, an independent
   byte-level RFC 5802 server says whether it accepts the proof, and TLC judges
   every recorded run against the spec (code -> spec).
"""
from __future__ import annotations

import asyncio
import copy
import json
import random
import tempfile
import uuid
from pathlib import Path
from unittest import mock

from harness import scram as S
from harness import tlc
from harness.runner import Report, Violation
from harness.tlc import MachineryError

KINDS = ["honest", "impostor", "nonce_prefix", "nonce_other", "nonce_short", "nonce_suffix",
         "salt", "iter", "sig_flip", "sig_trunc", "sig_wrongpw", "sig_error"]
FIELD = {"nonce_prefix": "nonce", "nonce_other": "nonce", "nonce_short": "nonce", "nonce_suffix": "nonce",
         "salt": "salt", "iter": "iterations", "sig_flip": "signature", "sig_trunc": "signature",
         "sig_wrongpw": "signature", "sig_error": "signature"}
CLIENT_ACTIONS = ["ClientFirst", "ProcessServerFirst", "FinalMessage", "ProcessServerFinal",
                  "ServerFirstStep", "ServerFinalStep"]

NONCE_CHARS = "".join(chr(c) for c in range(0x21, 0x7F) if chr(c) != ",")
HEX = "0123456789abcdef"

USERS = ["alice", "a", ",", "=", ",=", "=,", "=2C", "=3D", "a=2Cb", "user,name=x", "===", ",,,",
         "=,=,", "n=a,r=b", "x" * 64, "u s e r", "дмитрий", "用户,名=", "ü=ö,ä", "Ωmega", "名前",
         "é", "ñandú,=", "k=v,k2=v2"]
PASSWORDS = ["secret", "p", "pass,word=1", " lead and trail ", "пароль", "密码123", "pässwörd",
             "x" * 100, "=2C=3D", "\"quoted\"\\"]
UCHARS = "abcXYZ019-_. ,,,===" + "äöüéñßøç" + "дежзийк" + "αβγδ" + "用户名密码" + "あいう"


def kindtag(kind):
    return kind if kind in ("honest", "impostor") else "tamper=" + FIELD[kind]


# ---------------------------------------------------------------------------
# one run of the real generator against the harness' server

def drive(Auth, case):
    """case: mech, user, password, other_password, kind, salts {atom: bytes},
    own_s, own_i, suffix, deliver(own, cnonce) -> delivered record,
    reply: (tag, arg), force_nonce | None.  Returns (trace, info)."""
    hn = S.HASHES[case["mech"]]
    interp = S.Interp(hn, {"pw": case["password"].encode("utf-8"),
                           "otherpw": case["other_password"].encode("utf-8")}, case["salts"])
    loop = case.get("loop")
    auth = Auth(loop=loop, sasl_plain_password=case["password"], sasl_plain_username=case["user"],
                sasl_mechanism=case["mech"])
    if case.get("force_nonce") is not None:
        auth._nonce = case["force_nonce"]
    cnonce = auth._nonce
    if loop is not None:
        def step(p):
            return loop.run_until_complete(auth.step(p))
    else:
        step = auth._step
    trace, info = [], {"cnonce": cnonce}

    def is_msg(r):
        return isinstance(r, tuple) and len(r) == 2 and isinstance(r[0], bytes) and r[1] is True

    r = step(None)
    if not is_msg(r):
        trace.append({"ev": "Garbage", "user": S.codes(case["user"]), "cnonce": S.codes(cnonce), "got": repr(r)})
        return trace, info
    client_first = r[0]
    info["client_first"] = client_first.decode("utf-8", "replace")
    first_tokens = S.tokens_of_plain(client_first)
    trace.append({"ev": "ClientFirst", "user": S.codes(case["user"]), "cnonce": S.codes(cnonce),
                  "msg": first_tokens})

    srv_pw_atom = "otherpw" if case["kind"] == "impostor" else "pw"
    server = S.RfcServer(hn, {case["user"]: S.RfcServer.make_entry(
        hn, interp.pws[srv_pw_atom], case["salts"][case["own_s"]], case["own_i"])}, case["suffix"])
    try:
        own_text = server.server_first(client_first)
    except (S.Reject, UnicodeDecodeError) as e:
        info["server_rejected_first"] = str(e)
        trace.append({"ev": "ServerRejectedFirst", "why": str(e)})
        return trace, info
    own = {"r": S.codes(server.nonce), "s": case["own_s"], "i": case["own_i"]}
    if interp.text(S.render_sf(own)) != own_text:
        raise MachineryError("C18: term rendering of server-first differs from the RFC server's text")
    delivered = case["deliver"](own, cnonce)
    trace.append({"ev": "ServerFirst", "kind": case["kind"], "own": own, "delivered": delivered})
    delivered_text = interp.text(S.render_sf(delivered))
    info["server_first"], info["delivered_first"] = own_text, delivered_text

    try:
        r = step(delivered_text.encode("utf-8"))
    except Exception as e:  # noqa: BLE001 - any exception is the client's abort
        info["abort"] = f"server-first:{type(e).__name__}"
        trace.append({"ev": "Abort", "at": "server-first"})
        return trace, info
    if not is_msg(r):
        trace.append({"ev": "Garbage", "got": repr(r)})
        return trace, info
    client_final = r[0]
    info["client_final"] = client_final.decode("utf-8", "replace")

    # abstraction of the proof: candidates built from the *observed* texts
    bare_obs = first_tokens[3:]
    fin_plain = S.tokens_of_client_final(client_final, {})[0]
    fnp_obs = fin_plain[:-4] if fin_plain and "b64" in fin_plain[-1] else fin_plain
    table = {}
    for p in ("pw", "otherpw"):
        for sf in ([delivered] if delivered == own else [delivered, own]):
            sp = S.Hi(p, sf["s"], sf["i"])
            for sft in ([delivered] if delivered == own else [delivered, own]):
                am = S.auth_message(bare_obs, S.render_sf(sft), fnp_obs)
                table.setdefault(interp.ev(S.client_proof(sp, am)), S.client_proof(sp, am))
    final_tokens, _ = S.tokens_of_client_final(client_final, table)
    trace.append({"ev": "ClientFinal", "msg": final_tokens})

    accepts, rfc_sig = server.server_final(client_final)
    info["server_accepts_proof"] = accepts
    srv_am = S.auth_message(bare_obs, S.render_sf(own), fnp_obs)
    srv_sig = S.server_signature(S.Hi(srv_pw_atom, own["s"], own["i"]), srv_am)
    if rfc_sig is not None and interp.ev(srv_sig) != rfc_sig:
        raise MachineryError("C18: interpreted ServerSignature term differs from the RFC server's bytes")
    tag, arg = case["reply"]
    if tag == "error":
        reply, reply_text = {"e": "other-error"}, "e=other-error"
    else:
        term = {"sig": lambda: srv_sig,
                "wrongpw": lambda: S.server_signature(S.Hi("otherpw", own["s"], own["i"]), srv_am),
                "flip": lambda: S.Flip(srv_sig, arg),
                "trunc": lambda: S.Trunc(srv_sig, arg)}[tag]()
        reply = {"v": term}
        reply_text = "v=" + S.base64.b64encode(interp.ev(term)).decode("ascii")
    trace.append({"ev": "ServerFinal", "reply": reply, "accepts": accepts})
    info["server_final"] = reply_text

    try:
        r = step(reply_text.encode("utf-8"))
    except Exception as e:  # noqa: BLE001
        info["abort"] = f"server-final:{type(e).__name__}"
        trace.append({"ev": "Abort", "at": "server-final"})
        return trace, info
    trace.append({"ev": "Done"} if r is None else {"ev": "Garbage", "got": repr(r)})
    return trace, info


# ---------------------------------------------------------------------------
# case generation

def rand_salt(rng, n):
    return bytes(rng.randrange(256) for _ in range(n))


def rand_user(rng):
    for _ in range(100):
        u = "".join(rng.choice(UCHARS) for _ in range(rng.randrange(1, 13)))
        if S.saslprep_stable(u):
            return u
    return "fallback,=user"


def rand_iters(rng, j):
    m = j % 20
    if m == 0:
        return rng.choice([1, 20000])
    if m == 1:
        return rng.randrange(8000, 20001)
    if m in (2, 3):
        return rng.choice([4096, 1000, 2, 255, 256])
    return rng.randrange(1, 64)


def deliver_fn(kind, variant, rng, salts_alt="s2", alt_i=None):
    def f(own, cnonce):
        d = dict(own)
        r = "".join(map(chr, own["r"]))
        sfx = r[len(cnonce):]
        if kind == "nonce_prefix":
            pos = {0: 0, 1: len(cnonce) - 1}.get(variant % 3, rng.randrange(len(cnonce)))
            c = rng.choice([x for x in HEX + "ghXYZ" if x != cnonce[pos]])
            d["r"] = S.codes(cnonce[:pos] + c + cnonce[pos + 1:] + sfx)
        elif kind == "nonce_other":
            n = rng.randrange(1, 49)
            first = rng.choice([x for x in NONCE_CHARS if x != cnonce[0]])
            d["r"] = S.codes(first + "".join(rng.choice(NONCE_CHARS) for _ in range(n - 1)))
        elif kind == "nonce_short":
            k = [0, 1, len(cnonce) // 2, len(cnonce) - 1][variant % 4]
            d["r"] = S.codes(cnonce[:k])
        elif kind == "nonce_suffix":
            v = variant % 3
            if v == 0 and len(sfx) > 1:
                new = sfx[:-1]
            elif v == 1:
                new = sfx + rng.choice(NONCE_CHARS)
            else:
                new = sfx
                while new == sfx:
                    new = "".join(rng.choice(NONCE_CHARS) for _ in range(rng.randrange(1, 24)))
            d["r"] = S.codes(cnonce + new)
        elif kind == "salt":
            d["s"] = salts_alt
        elif kind == "iter":
            d["i"] = alt_i
        return d
    return f


def sampled_cases(ctx, rng):
    per_kind = 40 if ctx.quick else 400
    cases = []
    j = 0
    for kind in KINDS:
        n = per_kind * (4 if kind == "honest" else 1)
        for v in range(n):
            j += 1
            mech = ("SCRAM-SHA-256", "SCRAM-SHA-512")[j % 2]
            hlen = 32 if mech.endswith("256") else 64
            user = USERS[v % len(USERS)] if v % 3 != 2 else rand_user(rng)
            pw = PASSWORDS[(v // 2) % len(PASSWORDS)]
            if kind == "honest":
                slen = (v // 2) % 64 + 1          # every salt length with both hashes
            else:
                slen = rng.randrange(1, 65)
            salt = rand_salt(rng, slen)
            mode = v % 4
            if kind == "salt" and mode == 0:      # one bit of the salt
                b = rng.randrange(8 * slen)
                alt = bytearray(salt)
                alt[b // 8] ^= 1 << (b % 8)
                alt = bytes(alt)
            elif kind == "salt" and mode == 1 and slen > 1:
                alt = salt[:-1]
            elif kind == "salt" and mode == 2:
                alt = salt + b"\0"
            else:
                alt = salt
                while alt == salt:
                    alt = rand_salt(rng, rng.randrange(1, 65))
            own_i = rand_iters(rng, j)
            alt_i = own_i
            while alt_i == own_i:
                alt_i = max(1, own_i + rng.choice([-1, 1])) if v % 2 else rand_iters(rng, rng.randrange(20))
            if kind == "sig_flip":
                arg = [0, 7, 8, hlen * 4, hlen * 8 - 1, hlen * 8 - 8][v % 8] if v % 8 < 6 else rng.randrange(hlen * 8)
                reply = ("flip", arg)
            elif kind == "sig_trunc":
                reply = ("trunc", [0, 1, hlen - 1, hlen // 2][v % 4] if v % 5 else rng.randrange(hlen))
            elif kind == "sig_wrongpw":
                reply = ("wrongpw", 0)
            elif kind == "sig_error":
                reply = ("error", 0)
            else:
                reply = ("sig", 0)
            other = pw + "x" if v % 2 else (pw[:-1] or "q")
            suffix = "".join(rng.choice(NONCE_CHARS if v % 2 else HEX) for _ in range(rng.randrange(1, 41)))
            cases.append({
                "src": "sampled", "mech": mech, "user": user, "password": pw, "other_password": other,
                "kind": kind, "variant": v, "salts": {"s1": salt, "s2": alt}, "own_s": "s1",
                "own_i": own_i, "alt_i": alt_i, "suffix": suffix, "reply": reply,
                "deliver": deliver_fn(kind, v, random.Random(rng.randrange(1 << 30)), "s2", alt_i),
                "force_nonce": None, "via_async_step": v % 4 == 3,
            })
            if kind == "honest" and v % 5 == 0:
                # a second (and third) login in the same process with the SAME user, password, salt and iteration count
                # but the other hash variant, then the first variant again: logins must not share derived state
                for k in (1, 2):
                    twin = dict(cases[-1])
                    twin["mech"] = ("SCRAM-SHA-256", "SCRAM-SHA-512")[(j + k) % 2]
                    twin["src"] = "sampled"
                    twin["variant"] = v
                    twin["deliver"] = deliver_fn(kind, v, random.Random(rng.randrange(1 << 30)), "s2", alt_i)
                    twin["suffix"] = "".join(rng.choice(NONCE_CHARS) for _ in range(rng.randrange(1, 41)))
                    cases.append(twin)
    return cases


def replay_cases(ctx, rng, behaviours):
    """spec -> code: one case (two in thorough: both hashes) per terminal behaviour of the MC instance"""
    cases = []
    for n, b in enumerate(behaviours):
        mechs = ("SCRAM-SHA-256", "SCRAM-SHA-512")
        for mech in ([mechs[n % 2]] if ctx.quick else mechs):
            cn = "".join(map(chr, b["cnonce"]))
            own_r = "".join(map(chr, b["own"]["r"]))
            assert own_r.startswith(cn)
            delivered = b["delivered"]
            cases.append({
                "src": "spec-behaviour", "mech": mech, "user": "".join(map(chr, b["user"])),
                "password": rng.choice(PASSWORDS), "other_password": "not-" + rng.choice(PASSWORDS),
                "kind": b["kind"], "variant": n,
                "salts": {"s1": rand_salt(rng, rng.randrange(1, 65)), "s2": rand_salt(rng, rng.randrange(1, 65))},
                "own_s": b["own"]["s"], "own_i": b["own"]["i"], "suffix": own_r[len(cn):],
                "reply": tuple(b["reply"]) if b["reply"][0] != "none" else ("sig", 0),
                "deliver": (lambda d: (lambda own, cnonce: copy.deepcopy(d)))(delivered),
                "force_nonce": cn, "via_async_step": False,
                "expect": {"outcome": b["outcome"], "abortAt": b["abortAt"]},
            })
    return cases


def case_public(c):
    d = {k: v for k, v in c.items() if k not in ("deliver", "loop", "salts")}
    d["salts"] = {k: v.hex() for k, v in c["salts"].items()}
    return d


# ---------------------------------------------------------------------------

def signature_for(case, trace, ver, info):
    tag = kindtag(case["kind"])
    if ver["accepted"]:
        return f"C18:{tag}:{ver['bad_name']}"
    k = ver["reached"]
    ev = trace[k - 1] if 1 <= k <= len(trace) else {"ev": "?"}
    name = ev["ev"]
    if name in ("ClientFirst",) or (name == "ServerRejectedFirst"):
        if any(c in case["user"] for c in ",="):
            return "C18:first-message:bad-escaping"
        return "C18:first-message:malformed"
    if name == "ClientFinal":
        if case["kind"] in ("nonce_prefix", "nonce_other", "nonce_short"):
            return f"C18:{tag}:client-final-sent"
        if (case["kind"] in ("honest", "sig_flip", "sig_trunc", "sig_wrongpw", "sig_error")
                and info.get("server_accepts_proof") is False):
            return f"C18:{tag}:proof-rejected"     # a server that knows the password rejects the proof
        return f"C18:{tag}:final-message:malformed"
    if name == "ServerFinal":
        return f"C18:{tag}:proof-rejected" if not ev.get("accepts") else f"C18:{tag}:proof-accepted"
    if name == "Done":
        return f"C18:{tag}:client-completed"
    if name == "Abort":
        return f"C18:{tag}:aborted-at-{ev['at']}"
    return f"C18:{tag}:{name.lower()}"


def run(ctx) -> Report:
    from aiokafka.conn import ScramAuthenticator

    rng = random.Random(ctx.seed)
    rep = Report()

    # 1. the spec: invariants over all server behaviours; terminal behaviours dumped
    work = Path(tempfile.mkdtemp(prefix="c18-", dir=tlc.SCRATCH))
    try:
        bf = work / "behaviours.json"
        res = tlc.mc("MC_ScramHandshake", "MC_ScramHandshake.cfg", workers=1, timeout=600,
                     env={"BEHAVIOUR_FILE": str(bf)})
        rep.add_mc("MC_ScramHandshake (all server behaviours, quick instance)", res, CLIENT_ACTIONS)
        if not res["ok"]:
            raise MachineryError("C18: ScramHandshake violates its own properties: "
                                 + str(res["violated"]) + tlc.counterexample(res["output"]))
        raw = json.loads(bf.read_text())
    finally:
        import shutil
        shutil.rmtree(work, ignore_errors=True)
    seen, behaviours = set(), []
    for b in raw:
        key = json.dumps(b, sort_keys=True)
        if key not in seen:
            seen.add(key)
            behaviours.append(b)
    nterminal = res["coverage"].get("Finished", [0, 0])[1]
    if len(behaviours) != nterminal or {b["kind"] for b in behaviours} != set(KINDS):
        raise MachineryError(f"C18: {len(behaviours)} dumped behaviours vs {nterminal} terminal states / kinds "
                             f"{sorted({b['kind'] for b in behaviours})}")
    live = tlc.mc("MC_ScramHandshake", "Live_ScramHandshake.cfg", timeout=600)
    rep.add_mc("Live_ScramHandshake (bad nonce leads to abort, termination)", live, CLIENT_ACTIONS)
    if not live["ok"]:
        raise MachineryError("C18: liveness of ScramHandshake fails: " + str(live["violated"]))
    if not ctx.quick:
        big = tlc.mc("MC_ScramHandshake", "MCL_ScramHandshake.cfg", timeout=1500)
        rep.add_mc("MCL_ScramHandshake (thorough instance)", big, CLIENT_ACTIONS)
        if not big["ok"]:
            raise MachineryError("C18: ScramHandshake (thorough instance) fails: " + str(big["violated"]))

    # 2. run the real generator
    cases = replay_cases(ctx, rng, behaviours) + sampled_cases(ctx, rng)
    loop = asyncio.new_event_loop()
    traces, infos = [], []
    # the client nonce is uuid4().hex in the code under test: seeded here so that a run is reproducible
    nrng = random.Random(ctx.seed + 18)
    patch_uuid = mock.patch("uuid.uuid4", lambda: uuid.UUID(int=nrng.getrandbits(128), version=4))
    patch_uuid.start()
    try:
        for c in cases:
            for cred in (c["user"], c["password"]):
                if not S.saslprep_stable(cred):
                    raise MachineryError(f"C18: generator produced a credential SASLprep would change: {cred!r}")
            c["loop"] = loop if c["via_async_step"] else None
            t, info = drive(ScramAuthenticator, c)
            traces.append(t)
            infos.append(info)
    finally:
        patch_uuid.stop()
        loop.close()

    # 3. TLC judges every run
    # binding self-test: corrupted copies of an accepted honest run must be rejected
    hi = next(i for i, c in enumerate(cases) if c["kind"] == "honest" and c["src"] == "sampled")
    base = traces[hi]
    corrupt = []
    try:
        if [e["ev"] for e in base] != ["ClientFirst", "ServerFirst", "ClientFinal", "ServerFinal", "Done"]:
            raise KeyError("shape")
        t = copy.deepcopy(base); t[2]["msg"][3]["ch"] ^= 1; corrupt.append(t)            # a character of client-final
        t = copy.deepcopy(base); t[2]["msg"][-1]["b64"]["a"]["k"]["p"] = "otherpw"; corrupt.append(t)  # other password
        t = copy.deepcopy(base); t[4] = {"ev": "Abort", "at": "server-final"}; corrupt.append(t)       # outcome
        t = copy.deepcopy(base); t[3]["accepts"] = False; corrupt.append(t)              # server's verdict
        t = copy.deepcopy(base); del t[3]; corrupt.append(t)                             # an event removed
        t = copy.deepcopy(base); t[0]["msg"].insert(5, {"ch": 61}); corrupt.append(t)    # first message
    except (KeyError, IndexError, TypeError):
        corrupt = []     # the honest run itself is not as specified: it is reported below
    ver, states = tlc.validate("Trace_ScramHandshake", "Trace_ScramHandshake.cfg", traces + corrupt,
                               shard=120, jobs=14)
    cver = ver[len(traces):]
    ver = ver[:len(traces)]
    if not ver[hi]["accepted"] or ver[hi]["bad_name"]:
        pass  # reported below as a violation of the honest case
    elif not corrupt:
        raise MachineryError("C18: binding self-test could not be built from an accepted honest run")
    elif any(v["accepted"] and not v["bad_name"] for v in cver):
        raise MachineryError("C18: binding self-test: a corrupted trace was accepted: "
                             + str([i for i, v in enumerate(cver) if v["accepted"]]))
    rep.states += states
    rep.transitions += states
    rep.traces = len(traces)
    rep.mc_runs.append({"name": "Trace_ScramHandshake", "traces": len(traces), "distinct": states,
                        "self_test_corruptions_rejected": len(corrupt)})

    # RFC 5802: the client nonce is fresh for every authentication exchange (what makes a recorded server-first /
    # server-final pair worthless to an impostor).  All logins of this run happened in ONE process.
    seen_nonce = {}
    for c, info in zip(cases, infos):
        if c.get("force_nonce") is None and info.get("cnonce"):
            if info["cnonce"] in seen_nonce:
                rep.violations.append(Violation("C18:client-nonce-reused", {
                    "case": case_public(c), "first_use": seen_nonce[info["cnonce"]], "cnonce": info["cnonce"]}))
                break
            seen_nonce[info["cnonce"]] = case_public(c).get("variant")
    nviol = 0
    for c, t, info, v in zip(cases, traces, infos, ver):
        if v["accepted"] and not v["bad_name"]:
            if "expect" in c:       # the replayed behaviour must end as the spec's behaviour did
                last = t[-1]
                got = ("Done", "") if last["ev"] == "Done" else ("Aborted", last.get("at", "?"))
                if got != (c["expect"]["outcome"], c["expect"]["abortAt"]):
                    raise MachineryError(f"C18: accepted replay ends {got}, behaviour says {c['expect']}")
            continue
        nviol += 1
        rep.violations.append(Violation(signature_for(c, t, v, info), {
            "case": case_public(c), "observed": info,
            "verdict": {k: v[k] for k in ("reached", "need", "bad", "view")},
            "failing_event": t[v["reached"] - 1] if 1 <= v["reached"] <= len(t) else None,
        }))

    done = sum(1 for t in traces if t[-1]["ev"] == "Done")
    ab1 = sum(1 for t in traces if t[-1] == {"ev": "Abort", "at": "server-first"})
    ab2 = sum(1 for t in traces if t[-1] == {"ev": "Abort", "at": "server-final"})
    rep.samples = []
    for kind in ("honest", "nonce_short", "sig_flip"):
        i = next(i for i, c in enumerate(cases) if c["kind"] == kind and c["src"] == "sampled")
        rep.samples.append({"case": {k: cases[i][k] for k in ("mech", "user", "kind", "own_i", "reply")},
                            "salt_len": len(cases[i]["salts"]["s1"]),
                            "observed": infos[i], "events": [e["ev"] for e in traces[i]]})
    distinct = {(c["kind"], c["mech"], c["user"], len(c["salts"]["s1"]), c["own_i"], str(c["reply"]),
                 json.dumps(t[1].get("delivered")) if len(t) > 1 else "") for c, t in zip(cases, traces)}
    rep.extra.update(
        evaluations=len(traces),
        distinct_nontrivial=len(distinct),
        rule="one run of the real authenticator per (spec behaviour x hash) and per sampled "
             "(kind, variant, hash, user, password, salt, iterations); distinct = distinct "
             "(kind, hash, user, salt length, iterations, reply, delivered server-first)",
        exhaustive=False, exhaustive_parts="server behaviours of the MC instance: all replayed; parameters: sampled",
        spec_behaviours_replayed=len(behaviours),
        sampled_cases=sum(1 for c in cases if c["src"] == "sampled"),
        outcomes={"done": done, "abort_at_server_first": ab1, "abort_at_server_final": ab2,
                  "other": len(traces) - done - ab1 - ab2},
        honest_runs=sum(1 for c in cases if c["kind"] == "honest"),
        salt_lengths=sorted({len(c["salts"]["s1"]) for c in cases if c["kind"] == "honest"})[:: 9],
        salt_lengths_covered=len({len(c["salts"]["s1"]) for c in cases if c["kind"] == "honest"}),
        iteration_range=[min(c["own_i"] for c in cases), max(c["own_i"] for c in cases)],
        via_async_step=sum(1 for c in cases if c["via_async_step"]),
        kinds=KINDS,
        rejected=nviol,
    )
    rep.assumptions = [
        "hashlib/hmac/base64 are the trusted interpretation of the symbolic terms (Hi = PBKDF2-HMAC)",
        "distinct terms have distinct values (no hash collisions among the handful of candidate terms of a run)",
        "credentials are SASLprep-stable (NFKC-normal, no mapped/prohibited code points): the client sends "
        "UTF-8 without SASLprep, which the property does not talk about",
        "a tampered signature is a changed signature *value* (bit flips, truncation, other password); "
        "non-canonical base64 spellings of the same value are out of scope",
    ]
    return rep
