"""C11 — API messages encode to the Kafka wire format and negotiate versions safely.

Specs: spec/WireTypes.tla (primitive codecs, type-directed Enc/Dec, headers),
spec/WireMC.tla (exhaustive self-check of WireTypes), spec/WireTable.tla (TLC
judges recorded encode/decode results), spec/ApiNegotiation.tla (prepare/build/
header/reply state machine + judge of the recorded negotiation table).

Parts (all decided by TLC):
 1. model checking of WireMC and of ApiNegotiation (the latter with the client's
    real version lists as constants);
 2. Request.prepare() of every builder on every (lo,hi) in 0..12, "API unknown",
    and every parameter combination of the spec's input space (same cardinality);
 3. primitive codecs on boundary values (+ the literal bytes of tests/test_protocol.py);
 4. encode -> decode of every RequestStruct / Response class on values generated
    from its SCHEMA: bytes must equal Enc(shape, value), decode must give the value back;
 5. real decoders on inputs written by the harness.
"""
from __future__ import annotations

import importlib
import inspect
import io
import json
import os
import random
import tempfile
import time
from collections import Counter
from concurrent.futures import ThreadPoolExecutor

from harness import c11_wire as W
from harness import tlc
from harness.runner import Report, Violation

MODULES = ["produce", "fetch", "offset", "metadata", "commit", "group", "coordination",
           "transaction", "admin"]
MAXV = 12

# Known triggers (DESIGN section 7).  Cases that hit them are generated on purpose, in
# small number and labelled, so that the finding stays visible; everything else steers
# around them (struct values carry empty tagged fields, DeleteRecords is negotiated with
# tags None / {}), so the rest of the space stays checked.
TRIGGERS = {
    "varint32_negative": "C11:types:VarInt32:negative",
    "varint64_negative": "C11:types:VarInt64:negative",
    "varint64_multibyte": "C11:types:VarInt64.encode:multi-byte",
    "tagged_nonempty": "C11:types:TaggedFields.encode:missing-size",
    "tagged_tag0": "C11:types:TaggedFields.encode:tag-0",
}


# ---------------------------------------------------------------------------
# discovery of the real classes

def discover():
    from aiokafka.protocol import api

    builders, reqs, resps = [], [], []
    for m in MODULES:
        mod = importlib.import_module("aiokafka.protocol." + m)
        for _n, o in vars(mod).items():
            if not (inspect.isclass(o) and o.__module__ == mod.__name__):
                continue
            if issubclass(o, api.Request) and o not in builders:
                builders.append(o)
            elif issubclass(o, api.RequestStruct) and o not in reqs:
                reqs.append(o)
            elif issubclass(o, api.Response) and o not in resps:
                resps.append(o)
    return builders, reqs, resps


# ---------------------------------------------------------------------------
# TLC judging with per-clause diagnosis

def judge(module, cfg, cases, clauses, env=None, shard=400, jobs=12):
    """-> ({bad index: [failing clauses]}, distinct, generated).  Rejected cases are judged a
    second time, once per clause (field `clause`), to name the failing conjuncts."""
    bad, st, gen = tlc.run_table(module, cfg, cases, shard=shard, jobs=jobs, env=env)
    why = {i: [] for i in bad}
    if bad:
        sub = [dict(cases[i], clause=cl) for i in bad for cl in clauses]
        b2, s2, g2 = tlc.run_table(module, cfg, sub, shard=max(shard, 2000), jobs=jobs, env=env)
        st += s2
        gen += g2
        for j in b2:
            why[bad[j // len(clauses)]].append(clauses[j % len(clauses)])
        for i in bad:
            if not why[i]:
                raise tlc.MachineryError(f"{module}: case {i} rejected but no clause fails: {cases[i]}")
    return why, st, gen


# ---------------------------------------------------------------------------
# part 3 / 5: primitive codecs

def _vclass(k, v):
    if k in ("vi32", "vi64"):
        if v < 0:
            return "negative"
        return "multi-byte" if v >= 64 else "single-byte"
    if k == "tags":
        if not v:
            return "empty"
        return "tag-0" if 0 in v else "non-empty"
    if v is None:
        return "null"
    if isinstance(v, (str, bytes, list, tuple)) and len(v) == 0:
        return "empty"
    if isinstance(v, str) and not v.isascii():
        return "non-ascii"
    if isinstance(v, int) and not isinstance(v, bool):
        return "negative" if v < 0 else "non-negative"
    return "value"


def _trigger(k, v):
    if k == "vi32" and v < 0:
        return "varint32_negative"
    if k == "vi64" and v < 0:
        return "varint64_negative"
    if k == "vi64" and v >= 64:
        return "varint64_multibyte"
    if k == "tags" and v:
        return "tagged_tag0" if 0 in v else "tagged_nonempty"
    return None


def primitive_values(ctx, rng):
    """[(name, type object, values)]"""
    from aiokafka.protocol import types as T

    def ints(lo, hi, extra=()):
        base = [lo, lo + 1, hi - 1, hi] + [x for x in W._EDGE if lo <= x <= hi] + list(extra)
        nrand = 40 if ctx.quick else 1500
        base += [rng.randint(lo, hi) for _ in range(nrand)]
        return sorted(set(base))

    var_b = []
    for kbits in range(6, 64, 7):           # every length boundary of a zig-zag varint
        var_b += [(1 << kbits) - 1, 1 << kbits, -(1 << kbits), -(1 << kbits) - 1]
    uv_b = []
    for kbits in range(7, 33, 7):
        uv_b += [(1 << kbits) - 1, 1 << kbits]
    strs = [None, "", "a", "foobarbaz", "héllo wörld", "日本語", "\U0001F600", "\x00",
            "x" * 126, "x" * 127, "x" * 128, "é" * 64, "y" * 16382, "y" * 16383, "y" * 16384, "z" * 32767]
    byts = [None, b"", b"foo", bytes(range(256)), b"\x00" * 126, b"\xff" * 127, b"a" * 128,
            b"b" * 16383, b"c" * 16384, b"d" * 70000]
    out = [
        ("Int8", T.Int8, ints(-128, 127, range(-128, 128))),
        ("Int16", T.Int16, ints(-(1 << 15), (1 << 15) - 1)),
        ("Int32", T.Int32, ints(-(1 << 31), (1 << 31) - 1)),
        ("Int64", T.Int64, ints(-(1 << 63), (1 << 63) - 1)),
        ("UInt32", T.UInt32, ints(0, (1 << 32) - 1)),
        ("Boolean", T.Boolean, [False, True]),
        ("UnsignedVarInt32", T.UnsignedVarInt32, ints(0, (1 << 32) - 1, [x for x in uv_b if x < (1 << 32)]
                                                         # the literals of test_unsigned_varint_serde
                                                         + [x & 0xFFFFFFFF for x in (-1, -64, -8192, -8193)])),
        ("VarInt32", T.VarInt32, ints(-(1 << 31), (1 << 31) - 1, [x for x in var_b if -(1 << 31) <= x < (1 << 31)])),
        ("VarInt64", T.VarInt64, ints(-(1 << 63), (1 << 63) - 1, [x for x in var_b if -(1 << 63) <= x < (1 << 63)])),
        ("String", T.String("utf-8"), strs),
        ("CompactString", T.CompactString("utf-8"), strs),
        ("Bytes", T.Bytes, byts),
        ("CompactBytes", T.CompactBytes, byts),
    ]
    i32s = [0, -1, 1 << 20, -(1 << 31), (1 << 31) - 1]
    arr_specs = [
        ("Int32", T.Int32, [None, [], [7], i32s, list(range(126)), list(range(127)), list(range(128))]),
        ("String", T.String("utf-8"), [None, [], [None], ["", "é", None, "foo"], ["q"] * 127]),
        ("CompactString", T.CompactString("utf-8"), [None, [], ["foo", "bar", "baz", "quux"], [None, ""]]),
        ("Array[Int16]", T.Array(T.Int16), [None, [], [None], [[]], [[1, -1], None, [], [32767]]]),
        ("Schema", T.Schema(("a", T.Int8), ("b", T.String("utf-8")), ("c", T.Array(T.Int64))),
         [None, [], [(-128, None, None)], [(1, "x", [1 << 40]), (2, "", [])]]),
    ]
    for nm, el, vals in arr_specs:
        out.append((f"Array[{nm}]", T.Array(el), vals))
        out.append((f"CompactArray[{nm}]", T.CompactArray(el), vals))
    out.append(("CompactArray[CompactArray[Int32]+TaggedFields]",
                T.CompactArray(("r", T.CompactArray(T.Int32)), ("tags", T.TaggedFields)),
                [None, [], [([1, 2], {})], [(None, {}), ([], {})]]))
    out.append(("TaggedFields", T.TaggedFields,
                [{}, {1: b"x"}, {1: b""}, {5: b"abc", 9: b"\x00" * 127, 200: b"\x01" * 128},
                 {127: b"a", 128: b"b", 16384: b"c"}, {0: b"zero"}, {0: b"", 3: b"q"}]))
    return out


def run_real(t, v):
    """real encode of v, then real decode of the produced bytes"""
    rec = {"ok": True, "got": [], "rt": False, "dec": None, "err": ""}
    try:
        b = t.encode(v)
        rec["got"] = list(b)
    except Exception as e:  # noqa: BLE001 - an in-range value must encode
        rec.update(ok=False, err=f"encode: {type(e).__name__}: {e}"[:200])
        return rec, None
    try:
        bio = io.BytesIO(b)
        d = t.decode(bio)
        rec["rt"] = bio.tell() == len(b)
        if not rec["rt"]:
            rec["err"] = f"decode consumed {bio.tell()} of {len(b)} bytes"
        return rec, d
    except Exception as e:  # noqa: BLE001
        rec["err"] = f"decode: {type(e).__name__}: {e}"[:200]
        return rec, None


def enc_case(sh, t, v):
    rec, d = run_real(t, v)
    tv = W.to_tv(sh, v)
    case = {"kind": "enc", "t": sh, "v": tv, "ok": rec["ok"], "got": rec["got"], "rt": rec["rt"], "dec": tv}
    if rec["rt"]:
        try:
            case["dec"] = W.to_tv(sh, d)
        except TypeError as e:
            case["rt"] = False
            rec["err"] = f"decoded value has the wrong form: {e}"[:200]
    return case, rec["err"]


def dec_case(sh, t, v):
    inp = W.ref_enc(sh, v) + b"\xaa\x55"
    tv = W.to_tv(sh, v)
    case = {"kind": "dec", "t": sh, "inp": list(inp), "ok": True, "dec": tv, "used": 0}
    err = ""
    try:
        bio = io.BytesIO(inp)
        d = t.decode(bio)
        case["used"] = bio.tell()
        case["dec"] = W.to_tv(sh, d)
    except Exception as e:  # noqa: BLE001
        case["ok"] = False
        err = f"decode: {type(e).__name__}: {e}"[:200]
    return case, err


# ---------------------------------------------------------------------------
# part 2: negotiation

TS = {"latest": -1, "earliest": -2, "t0": 0, "tbig": 1234567890123}
TS_INV = {v: k for k, v in TS.items()}
B = {"false": False, "true": True}

# parameter domains; must describe the same space as `Kafka` in ApiNegotiation.tla (TLC
# checks membership of every case and the cardinality)
PARAMS = {
    0: [("transactional_id", ["null", "tx"])],
    1: [("isolation_level", ["0", "1"])],
    2: [("isolation_level", ["0", "1"]), ("timestamp", ["latest", "earliest", "t0", "tbig"])],
    9: [("partitions", ["some", "null"])],
    10: [("coordinator_type", ["0", "1"])],
    15: [("include_authorized_operations", ["false", "true"])],
    19: [("validate_only", ["false", "true"])],
    21: [("tags", ["none", "empty"])],
    32: [("include_synonyms", ["false", "true"])],
}


def make_request(name, P):
    from aiokafka.protocol import admin, commit, coordination, fetch, group, metadata, offset, produce, transaction

    f = {
        "ProduceRequest": lambda: produce.ProduceRequest(
            None if P["transactional_id"] == "null" else P["transactional_id"], 1, 1000, [("t", [(0, b"rec")])]),
        "FetchRequest": lambda: fetch.FetchRequest(500, 1, 1 << 20, int(P["isolation_level"]), [("t", [(0, 5, 1000)])]),
        "OffsetRequest": lambda: offset.OffsetRequest(-1, int(P["isolation_level"]), [("t", [(0, TS[P["timestamp"]])])]),
        "MetadataRequest": lambda: metadata.MetadataRequest(["t"]),
        "OffsetCommitRequest": lambda: commit.OffsetCommitRequest("g", 1, "m", -1, [("t", [(0, 5, "meta")])]),
        "OffsetFetchRequest": lambda: commit.OffsetFetchRequest("g", None if P["partitions"] == "null" else [("t", [0])]),
        "JoinGroupRequest": lambda: group.JoinGroupRequest("g", 1000, 2000, "", None, "consumer", [("range", b"md")]),
        "SyncGroupRequest": lambda: group.SyncGroupRequest("g", 1, "m", None, [("m", b"a")]),
        "HeartbeatRequest": lambda: group.HeartbeatRequest("g", 1, "m"),
        "LeaveGroupRequest": lambda: group.LeaveGroupRequest("g", "m"),
        "FindCoordinatorRequest": lambda: coordination.FindCoordinatorRequest("key", int(P["coordinator_type"])),
        "InitProducerIdRequest": lambda: transaction.InitProducerIdRequest("tx", 1000),
        "AddPartitionsToTxnRequest": lambda: transaction.AddPartitionsToTxnRequest("tx", 1, 0, [("t", [0])]),
        "AddOffsetsToTxnRequest": lambda: transaction.AddOffsetsToTxnRequest("tx", 1, 0, "g"),
        "EndTxnRequest": lambda: transaction.EndTxnRequest("tx", 1, 0, True),
        "TxnOffsetCommitRequest": lambda: transaction.TxnOffsetCommitRequest("tx", "g", 1, 0, [("t", [(0, 5, "m")])]),
        "ApiVersionRequest": lambda: admin.ApiVersionRequest(),
        "CreateTopicsRequest": lambda: admin.CreateTopicsRequest(
            [("t", 1, 1, [(0, [1])], [("k", "v")])], 1000, B[P["validate_only"]]),
        "DeleteTopicsRequest": lambda: admin.DeleteTopicsRequest(["t"], 1000),
        "ListGroupsRequest": lambda: admin.ListGroupsRequest(),
        "DescribeGroupsRequest": lambda: admin.DescribeGroupsRequest(["g"], B[P["include_authorized_operations"]]),
        "SaslHandShakeRequest": lambda: admin.SaslHandShakeRequest("PLAIN"),
        "DescribeAclsRequest": lambda: admin.DescribeAclsRequest(2, "t", 3, "User:a", "*", 2, 3),
        "CreateAclsRequest": lambda: admin.CreateAclsRequest(2, "t", 3, "User:a", "*", 2, 3),
        "DeleteAclsRequest": lambda: admin.DeleteAclsRequest(2, "t", 3, "User:a", "*", 2, 3),
        "AlterConfigsRequest": lambda: admin.AlterConfigsRequest([(2, "t", [("k", "v")])], False),
        "DescribeConfigsRequest": lambda: admin.DescribeConfigsRequest([(2, "t", ["k"])], B[P["include_synonyms"]]),
        "SaslAuthenticateRequest": lambda: admin.SaslAuthenticateRequest(b"\x00u\x00p"),
        "CreatePartitionsRequest": lambda: admin.CreatePartitionsRequest([("t", (3, [[1]]))], 1000, False),
        "DeleteGroupsRequest": lambda: admin.DeleteGroupsRequest(["g"]),
        "DescribeClientQuotasRequest": lambda: admin.DescribeClientQuotasRequest([("user", 0, "u")], True),
        "AlterPartitionReassignmentsRequest": lambda: admin.AlterPartitionReassignmentsRequest(
            1000, [("t", [(0, [1, 2], {})], {})], {}),
        "ListPartitionReassignmentsRequest": lambda: admin.ListPartitionReassignmentsRequest(1000, [("t", [0], {})], {}),
        "DeleteRecordsRequest": lambda: admin.DeleteRecordsRequest(
            [("t", [(0, 5)])], 1000, {"none": None, "empty": {}}[P["tags"]]),
    }.get(name)
    if f is None:
        raise tlc.MachineryError(f"C11: no factory for builder {name}; add it to checks/c11.py and to ApiNegotiation.tla")
    return f()


def carried_of(d, P):
    """parameters as they can be read back from the decoded request struct"""
    names = d.SCHEMA.names
    out = []
    for p, val in sorted(P.items()):
        if p == "timestamp":
            out.append([p, TS_INV.get(d.topics[0][1][0][1], "other")])
        elif p == "partitions":
            out.append([p, "null" if d.topics is None else "some"])
        elif p == "tags":
            if "tags" in names:
                out.append([p, val if d.tags == {} else "other"])
        elif p in names:
            x = getattr(d, p)
            out.append([p, "null" if x is None else ("true" if x else "false") if isinstance(x, bool) else str(x)])
    return out


def negotiation_cases(builders, canon):
    from aiokafka.errors import IncompatibleBrokerVersion
    from aiokafka.protocol.api import ResponseHeader_v0, ResponseHeader_v1

    import itertools
    cases, meta = [], []
    corr, cid = 0x01020304, "cli-é"
    rh_in = list((corr).to_bytes(4, "big") + b"\x01\x03\x02\xaa\xbb" + b"\x7f")
    for b in builders:
        plist = PARAMS.get(b.API_KEY, [])
        combos = [dict(zip([p for p, _ in plist], vals)) for vals in itertools.product(*[d for _, d in plist])]
        ranges = [(True, lo, hi) for lo in range(MAXV + 1) for hi in range(lo, MAXV + 1)] + [(False, 0, 0)]
        for P in combos:
            for known, lo, hi in ranges:
                versions = {b.API_KEY: (lo, hi)} if known else {}
                c = {"kind": "neg", "key": b.API_KEY, "known": known, "lo": lo, "hi": hi,
                     "params": [[p, P[p]] for p in sorted(P)],
                     "outcome": "use", "exc": "", "v": 0, "flexible": False, "cls": "", "resp_key": 0,
                     "resp_ver": 0, "resp_same_schema": False, "carried": [], "corr": W.ival(corr),
                     "cid": [list(cid.encode())], "hdr": [], "rh_in": rh_in, "rh_val": [W.ival(0)], "rh_used": 0}
                try:
                    req = make_request(b.__name__, P).prepare(versions)
                except IncompatibleBrokerVersion:
                    c.update(outcome="incompatible", exc="IncompatibleBrokerVersion")
                except NotImplementedError:
                    c.update(outcome="unsupported", exc="NotImplementedError")
                else:
                    rt = req.RESPONSE_TYPE
                    can = canon.get((req.API_KEY, req.API_VERSION))
                    c.update(v=req.API_VERSION, flexible=bool(req.FLEXIBLE_VERSION), cls=type(req).__name__,
                             resp_key=rt.API_KEY, resp_ver=rt.API_VERSION,
                             resp_same_schema=bool(can is not None and
                                                   W.sig(W.shape(rt.SCHEMA)) == W.sig(W.shape(can.SCHEMA))))
                    if req.API_KEY != b.API_KEY:
                        c["resp_key"] = -1 - req.API_KEY      # never equal to the key asked for
                    c["hdr"] = list(req.build_request_header(correlation_id=corr, client_id=cid).encode())
                    bio = io.BytesIO(bytes(rh_in))
                    h = req.parse_response_header(bio)
                    c["rh_used"] = bio.tell()
                    if isinstance(h, ResponseHeader_v1):
                        c["rh_val"] = [W.ival(h.correlation_id), W.to_tv({"k": "tags"}, h.tags)]
                    elif isinstance(h, ResponseHeader_v0):
                        c["rh_val"] = [W.ival(h.correlation_id)]
                    if P:
                        try:
                            c["carried"] = carried_of(type(req).decode(req.encode()), P)
                        except Exception as e:  # noqa: BLE001
                            c["carried"] = [["<error>", f"{type(e).__name__}"]]
                cases.append(c)
                meta.append(b)
    return cases, meta


# ---------------------------------------------------------------------------

def run(ctx) -> Report:
    from aiokafka.protocol import API_KEYS
    from aiokafka.protocol import api as papi

    rng = random.Random(ctx.seed)
    rep = Report()
    builders, reqs, resps = discover()
    canon, ambiguous = {}, []
    for r in resps:
        k = (r.API_KEY, r.API_VERSION)
        if k in canon and W.sig(W.shape(canon[k].SCHEMA)) != W.sig(W.shape(r.SCHEMA)):
            ambiguous.append(k)
        canon.setdefault(k, r)
    for k in ambiguous:
        canon.pop(k, None)
    reachable = [c for b in builders for c in b._CLASSES]
    apiname = lambda key: API_KEYS.get(key, f"key{key}")  # noqa: E731

    work = tempfile.mkdtemp(prefix="c11-", dir=tlc.SCRATCH)
    api_file = os.path.join(work, "apis.json")
    with open(api_file, "w") as fh:
        json.dump([{"key": b.API_KEY, "builder": b.__name__, "versions": [c.API_VERSION for c in b._CLASSES],
                    "bootstrap": bool(b.ALLOW_UNKNOWN_API_VERSION)} for b in builders], fh)
    env = {"C11_API_FILE": api_file}

    # ---- 1. model checking (started now, collected after the tables have been judged)
    mc_pool = ThreadPoolExecutor(max_workers=2)
    f1 = mc_pool.submit(tlc.mc, "WireMC", "MC_WireTypes.cfg" if ctx.quick else "MCL_WireTypes.cfg",
                        workers=8, timeout=1500)
    f2 = mc_pool.submit(tlc.mc, "ApiNegotiation", "MC_ApiNegotiation.cfg", workers=6, timeout=900, env=env)

    # ---- 2. negotiation table + class table
    t_rec = time.time()
    ncases, nmeta = negotiation_cases(builders, canon)
    ccases = []
    for c in reachable:
        rt = c.RESPONSE_TYPE
        can = canon.get((c.API_KEY, c.API_VERSION))
        ccases.append({"kind": "class", "cls": c.__name__, "key": c.API_KEY, "v": c.API_VERSION,
                       "flexible": bool(c.FLEXIBLE_VERSION), "resp_key": rt.API_KEY, "resp_ver": rt.API_VERSION,
                       "resp_sig": W.sig(W.shape(rt.SCHEMA)),
                       "canon_sig": W.sig(W.shape(can.SCHEMA)) if can is not None else ""})
    # binding self-test: corrupted copies of accepted cases must be rejected
    def _corrupt_neg():
        src = next(c for c in ncases if c["outcome"] == "use" and c["known"] and c["lo"] < c["v"])
        a = dict(src, v=src["v"] - 1)                      # a lower version than the best common one
        b = dict(src, hdr=src["hdr"][:3] + [(src["hdr"][3] + 1) % 256] + src["hdr"][4:])
        src2 = next(c for c in ncases if c["outcome"] == "incompatible")
        d = dict(src2, outcome="use", v=src2["hi"])        # parameter silently dropped
        return [a, b, d]
    selftest_n = _corrupt_neg()
    table = ncases + ccases
    ntable = len(table)
    table += selftest_n
    neg_clauses = ["space", "outcome", "version", "flexible", "header", "reply-header", "reply-key",
                   "reply-schema", "carried"]
    # the recorded inputs against the spec's input space (set equality + cardinality), one JVM
    count_table = [{"kind": "neg", "clause": "space", **{k: c[k] for k in ("key", "known", "lo", "hi", "params")}}
                   for c in ncases] + [{"kind": "count", "n": len(ncases)}]
    t0 = time.time()
    with ThreadPoolExecutor(max_workers=2) as ex:
        fc = ex.submit(tlc.run_table, "ApiNegotiation", "Table_ApiNegotiation.cfg", count_table,
                       shard=1000000, jobs=1, env=env)
        why, st, gen = judge("ApiNegotiation", "Table_ApiNegotiation.cfg", table, neg_clauses, env=env,
                             shard=1200, jobs=4)
        cbad, cst, cgen = fc.result()
    rep.states += st + cst
    rep.transitions += gen + cgen
    rep.mc_runs.append({"name": "negotiation table", "cases": ntable, "distinct": st + cst, "generated": gen + cgen,
                        "record_s": round(t0 - t_rec, 2), "wall_s": round(time.time() - t0, 2)})
    missed = [j for j in range(ntable, len(table)) if j not in why]
    if missed:
        raise tlc.MachineryError(f"C11 binding self-test: corrupted negotiation cases accepted: {missed}")
    if cbad:
        raise tlc.MachineryError("C11: the recorded negotiation cases are not the spec's input space "
                                 f"(rejected: {cbad[:5]}; {len(ncases)} cases recorded)")
    pairing = {"flexible", "reply-key", "reply-schema"}
    for idx in sorted(j for j in why if j < ntable):
        c = table[idx]
        name = apiname(c["key"])
        for cl in why[idx]:
            if cl in pairing:
                s = f"C11:pairing:{name}:v{c['v']}:{cl}"
            elif c["kind"] == "class":
                s = f"C11:class:{c['cls']}:{cl}"
            else:
                ps = ",".join(f"{p}={v}" for p, v in c["params"])
                s = f"C11:negotiation:{name}:{cl}:{ps}" + (f":got-{c['outcome']}" if cl == "outcome" else "")
            rep.violations.append(Violation(s, {"case": c, "failing_clauses": why[idx]}))

    # ---- 3 + 5. primitive codecs
    from aiokafka.protocol.api import RequestHeader_v1, RequestHeader_v2, ResponseHeader_v0, ResponseHeader_v1
    from aiokafka.protocol.coordination import FindCoordinatorRequest_v0

    t_rec2 = time.time()
    wcases, wmeta = [], []
    for name, t, vals in primitive_values(ctx, rng):
        sh = W.shape(t)
        for v in vals:
            trig = _trigger(sh["k"], v)
            c, err = enc_case(sh, t, v)
            wcases.append(c)
            wmeta.append({"what": f"types:{name}", "vclass": _vclass(sh["k"], v), "trigger": trig, "err": err,
                          "repro": f"{name}.encode({v!r:.80})"})
            c, err = dec_case(sh, t, v)
            wcases.append(c)
            wmeta.append({"what": f"types:{name}", "vclass": _vclass(sh["k"], v), "trigger": None, "err": err,
                          "repro": f"{name}.decode(<Kafka encoding of {v!r:.60}>)"})
    # headers (test_encode_message_header is the first one)
    hv1, hv2 = W.shape(RequestHeader_v1.SCHEMA), W.shape(RequestHeader_v2.SCHEMA)
    freq = FindCoordinatorRequest_v0("foo")
    for corr, cid in [(4, "client3"), (0, None), ((1 << 31) - 1, ""), (-1, "клиент")]:
        for hcls, hsh in ((RequestHeader_v1, hv1), (RequestHeader_v2, hv2)):
            h = hcls(freq, correlation_id=corr, client_id=cid)
            vals = [getattr(h, n) for n in h.SCHEMA.names]
            c, err = enc_case(hsh, hcls.SCHEMA, vals)
            wcases.append(c)
            wmeta.append({"what": f"header:{hcls.__name__}", "vclass": "value", "trigger": None, "err": err,
                          "repro": f"{hcls.__name__}(FindCoordinatorRequest_v0, {corr}, {cid!r}).encode()"})
    for hcls, vals in ((ResponseHeader_v0, [(7,), (-1,)]), (ResponseHeader_v1, [(7, {}), (1 << 30, {})])):
        hsh = W.shape(hcls.SCHEMA)
        for v in vals:
            for c, err in (enc_case(hsh, hcls.SCHEMA, v), dec_case(hsh, hcls.SCHEMA, v)):
                wcases.append(c)
                wmeta.append({"what": f"header:{hcls.__name__}", "vclass": "value", "trigger": None, "err": err,
                              "repro": f"{hcls.__name__}{v!r}"})
    # response header v1 carrying tagged fields, decode direction only
    c, err = dec_case(W.shape(ResponseHeader_v1.SCHEMA), ResponseHeader_v1.SCHEMA, (9, {0: b"x", 4: b"\x00" * 130}))
    wcases.append(c)
    wmeta.append({"what": "header:ResponseHeader_v1", "vclass": "tagged", "trigger": None, "err": err,
                  "repro": "ResponseHeader_v1.decode(corr=9, tags={0:..,4:..})"})
    n_prim = len(wcases)

    # ---- 4. every RequestStruct / Response class
    per = 6 if ctx.quick else 100
    structs = [("request", c) for c in reqs] + [("response", c) for c in resps]
    for role, cls in structs:
        sh = W.shape(cls.SCHEMA)
        has_tags = "tags" in W.kinds_in(sh)
        for j in range(per + (2 if has_tags else 0)):
            trig = "tagged_nonempty" if (has_tags and j >= per) else None
            vals = W.gen(sh, rng, tags_nonempty=bool(trig))
            if trig and not any(_has_nonempty_tags(x) for x in vals):
                trig = None

            class _T:                       # encode / decode through the Struct class itself
                @staticmethod
                def encode(v, cls=cls):
                    return cls(*v).encode()

                @staticmethod
                def decode(bio, cls=cls):
                    d = cls.decode(bio)
                    return [getattr(d, n) for n in cls.SCHEMA.names]
            c, err = enc_case(sh, _T, list(vals))
            wcases.append(c)
            wmeta.append({"what": f"struct:{cls.__name__}", "vclass": role, "trigger": trig, "err": err,
                          "repro": f"{cls.__name__}(*{vals!r:.300})"})

    # binding self-test for the wire table
    ok_enc = next(j for j, c in enumerate(wcases) if c["kind"] == "enc" and c["ok"] and c["rt"]
                  and len(c["got"]) >= 4 and wmeta[j]["trigger"] is None and wmeta[j]["what"].startswith("struct:"))
    bad1 = dict(wcases[ok_enc], got=wcases[ok_enc]["got"][:-1] + [(wcases[ok_enc]["got"][-1] + 1) % 256])
    bad2 = dict(wcases[ok_enc], got=wcases[ok_enc]["got"] + [0])
    ok_dec = next(j for j, c in enumerate(wcases) if c["kind"] == "dec" and c["ok"])
    bad3 = dict(wcases[ok_dec], used=wcases[ok_dec]["used"] + 1)
    nreal = len(wcases)
    allw = wcases + [bad1, bad2, bad3]
    t0 = time.time()
    why, st, gen = judge("WireTable", "WireTable.cfg", allw, ["enc", "rt", "dec"],
                         shard=400, jobs=14)
    rep.states += st
    rep.transitions += gen
    rep.mc_runs.append({"name": "codec table", "cases": nreal, "primitive_cases": n_prim,
                        "struct_cases": nreal - n_prim, "distinct": st, "generated": gen,
                        "record_s": round(t0 - t_rec2, 2), "wall_s": round(time.time() - t0, 2)})
    missed = [j for j in range(nreal, len(allw)) if j not in why]
    if missed:
        raise tlc.MachineryError(f"C11 binding self-test: corrupted codec cases accepted: {missed}")
    reproduced = Counter()
    for idx in sorted(j for j in why if j < nreal):
        c, m = wcases[idx], wmeta[idx]
        if m["trigger"]:
            s = TRIGGERS[m["trigger"]]
            reproduced[m["trigger"]] += 1
        else:
            cl = why[idx][0]
            op = {"enc": ".encode", "rt": ":roundtrip", "dec": ".decode"}[cl]
            s = f"C11:{m['what']}{op}:{m['vclass']}"
        small = {k: (v if k not in ("t", "v", "dec", "got", "inp") or len(json.dumps(v)) < 600 else "<large>")
                 for k, v in c.items()}
        rep.violations.append(Violation(s, {"repro": m["repro"], "error": m["err"], "failing_clauses": why[idx],
                                            "case": small}))

    # ---- 1. (collect) model checking
    r1, r2 = f1.result(), f2.result()
    mc_pool.shutdown()
    if not r1["ok"]:
        raise tlc.MachineryError(f"WireMC: {r1.get('violated')}\n{tlc.counterexample(r1['output'])}")
    rep.add_mc("WireMC", r1, need_actions=["StepInt", "StepVarint", "StepString", "StepArray", "StepTags", "StepHeader"])
    if r2.get("violated"):
        # the state machine runs on the client's real version lists: an invariant broken here
        # is a property of the real tables (e.g. classes not in ascending order)
        rep.violations.append(Violation(f"C11:negotiation:mc:{r2['violated']}",
                                        {"counterexample": tlc.counterexample(r2["output"])}))
    elif not r2["ok"]:
        raise tlc.MachineryError(f"ApiNegotiation MC did not finish:\n{r2['output'][-2000:]}")
    rep.add_mc("ApiNegotiation", r2, need_actions=None if r2.get("violated") else [
        "PrepareUnknownBootstrap", "PrepareUnknownReject", "ScanSkip", "ScanHit", "ScanExhausted",
        "BuildReject", "BuildOk", "SendLegacy", "SendFlexible", "DecodeReply"])

    # ---- evidence
    unreach_flex = []
    for c in reqs:
        if c not in reachable:
            unreach_flex.append(c.__name__)
    rep.traces = ntable + nreal
    use = [c for c in ncases if c["outcome"] == "use"]
    rep.samples = [
        {k: ncases[0][k] for k in ("key", "known", "lo", "hi", "params", "outcome", "exc")},
        {k: use[len(use) // 2][k] for k in ("key", "lo", "hi", "params", "outcome", "cls", "v", "flexible", "resp_ver", "hdr")},
        {k: (v if k != "t" else W.sig(v)) for k, v in wcases[0].items()},
        {"struct": wmeta[n_prim]["what"], "bytes": len(wcases[n_prim]["got"]), "t": W.sig(wcases[n_prim]["t"])},
    ]
    outc = Counter(c["outcome"] for c in ncases)
    rep.extra.update(
        evaluations=ntable + nreal,
        distinct_nontrivial=len({json.dumps(c, sort_keys=True) for c in table[:ntable]})
        + len({json.dumps([c["t"], c.get("v", c.get("inp"))], sort_keys=True) for c in wcases}),
        rule="negotiation: every builder x every 0<=lo<=hi<=12 (+ API not advertised) x every parameter "
             "combination of ApiNegotiation!InputSpace (TLC checks the recorded cases are exactly that set); "
             "codecs: boundary values of every primitive + seeded random; structs: "
             f"{per} seeded values per class (+2 with non-empty tagged fields where the schema has them); "
             "distinct = distinct JSON cases",
        exhaustive=False, exhaustive_parts={"negotiation": True, "codecs": False},
        negotiation_inputs=len(ncases), negotiation_outcomes=dict(outc),
        builders=len(builders), request_classes=len(reqs), response_classes=len(resps),
        reachable_request_classes=len(reachable),
        request_classes_not_in_any_builder=unreach_flex,
        response_versions_with_conflicting_schemas=ambiguous,
        struct_values_per_class=per, primitive_cases=n_prim, struct_cases=nreal - n_prim,
        known_triggers_reproduced=dict(reproduced),
        spec_to_code="the spec's behaviours are determined by its input; all "
                     f"{len(ncases)} inputs of the spec were executed against Request.prepare()",
        anchors="tests/test_protocol.py literals: test_unsigned_varint_serde (11 values), test_compact_data_structs "
                "(null/empty/value forms of CompactString, CompactArray, CompactBytes), test_encode_message_header; "
                "each is an ASSUME of WireTypes.tla and a case of the codec table.  Message/MessageSet literals carry "
                "CRCs and belong to C09",
        binding_selftest="6 corrupted cases (lower version, header byte, dropped parameter, payload byte, "
                         "extra byte, consumed count) rejected by TLC",
        not_demanded="parameters outside the property's list that build() drops without error are not judged: "
                     "Fetch rack_id (<v11) and max_bytes (<v3), Metadata allow_auto_topic_creation=False (<v4), "
                     "JoinGroup/SyncGroup group_instance_id (<v5/<v3), ACL resource_pattern_type (<v1)",
    )
    rep.assumptions = [
        "Kafka facts written in the spec from the protocol guide: primitive layouts, first flexible version per "
        "API, first version carrying each semantic parameter; anchored on the literal bytes of "
        "tests/test_protocol.py and the Java client's varint test vectors (ASSUMEs in WireTypes.tla)",
        "field-by-field layout of the structs is NOT compared with Kafka's message definitions (DESIGN section 5): "
        "a struct is judged against the generic rule Enc(shape of its own SCHEMA, value) and round trip",
        "UTF-8 encoding of str and IEEE-754 packing of Float64 are done by the harness (trusted)",
        "reply schema pairing: RESPONSE_TYPE must have the request's version, or the same schema shape as the "
        "library's own Response class of that version",
    ]
    import shutil
    shutil.rmtree(work, ignore_errors=True)
    return rep


def _has_nonempty_tags(x):
    if isinstance(x, dict):
        return bool(x)
    if isinstance(x, (list, tuple)):
        return any(_has_nonempty_tags(y) for y in x)
    return False
