"""C08, model level + spec->code replay: IsolationFilter.tla is model-checked (the
step-by-step filter equals the declarative visibility on every log / start offset / cut),
then the same case family is enumerated here, each case is concretised as real v2 bytes
(transactional flags, control records) and pushed through the REAL PartitionRecords with
both record readers (compiled and pure Python); TLC judges every recorded outcome."""
from __future__ import annotations

import os
import itertools
import multiprocessing as mp
import random

from harness import tlc
from harness.runner import Report, Violation
from harness.tlc import MachineryError

SPAN = {1: 2, 2: 2, 3: 2, 4: 2, 5: 1, 6: 1, 7: 1, 8: 1}


def build(shape):
    """-> list of batch dicts (same construction as MkBatch in the spec)"""
    out, o = [], 0
    for t in shape:
        if t == 1:
            b = dict(base=o, last=o + 1, offs=[o, o + 1], kind="data", pid=-1, txnl=False)
        elif t == 2:
            b = dict(base=o, last=o + 1, offs=[o], kind="data", pid=-1, txnl=False)
        elif t == 3:
            b = dict(base=o, last=o + 1, offs=[o, o + 1], kind="data", pid=7, txnl=True)
        elif t == 4:
            b = dict(base=o, last=o + 1, offs=[o + 1], kind="data", pid=8, txnl=True)
        else:
            b = dict(base=o, last=o, offs=[], kind="commit" if t in (5, 6) else "abort", pid=7 if t in (5, 7) else 8, txnl=True)
        out.append(b)
        o += SPAN[t]
    return out


def broker_view(lg):
    """LSO and the aborted-transaction index, as a broker maintains them"""
    open_t, aborted = {}, []
    for b in lg:
        if b["kind"] == "data":
            if b["txnl"]:
                open_t.setdefault(b["pid"], b["base"])
        else:
            first = open_t.pop(b["pid"], None)
            if b["kind"] == "abort" and first is not None:
                aborted.append((b["pid"], first, b["base"]))
    leo = lg[-1]["last"] + 1
    lso = min(open_t.values()) if open_t else leo
    return leo, lso, aborted


def cases_of(shape):
    lg = build(shape)
    leo, lso, aborted = broker_view(lg)
    out = []
    for iso in (0, 1):
        bound = lso if iso else leo
        for f in range(leo):
            i = next(k for k, b in enumerate(lg) if b["last"] >= f)
            j = i
            while j < len(lg) and lg[j]["last"] < bound:
                # in abort-marker order, as a broker reads it from its transaction index
                idx = [(pid, first) for (pid, first, m) in sorted(aborted, key=lambda a: a[2])
                       if m >= f and first <= lg[j]["last"]] if iso else []
                out.append(dict(shape=list(shape), f=f, i=i + 1, j=j + 1, iso=iso, aborted=[list(a) for a in idx]))
                j += 1
    return out


_IMPL = {}


def _bytes_of(lg, i, j):
    from harness import kbatch
    data = b""
    for b in lg[i - 1:j]:
        if b["kind"] == "data":
            recs = [(o - b["base"], 1000 + o, None, b"v%d" % o, []) for o in b["offs"]]
            data += kbatch.write_v2(b["base"], recs, pid=b["pid"], epoch=0 if b["pid"] >= 0 else -1,
                                    seq=0 if b["pid"] >= 0 else -1, txnl=b["txnl"], first_ts=1000 + b["base"],
                                    last_offset_delta=b["last"] - b["base"])
        else:
            k, v = kbatch.control_record(b["kind"] == "commit")
            data += kbatch.write_v2(b["base"], [(0, 2000 + b["base"], k, v, [])], pid=b["pid"], epoch=0, seq=-1,
                                    txnl=True, control=True)
    return data


def _replay(case):
    """run the real PartitionRecords (both record readers) on one case"""
    from aiokafka.consumer.fetcher import PartitionRecords
    from aiokafka.structs import TopicPartition
    if not _IMPL:
        from harness import recfmt
        _IMPL.update(recfmt.load_impls())
    lg = build(case["shape"])
    data = _bytes_of(lg, case["i"], case["j"])
    res = {}
    for name, impl in _IMPL.items():
        try:
            pr = PartitionRecords(TopicPartition("t", 0), impl.MemoryRecords(data),
                                  [tuple(a) for a in case["aborted"]], case["f"], None, None, True, case["iso"])
            offs = [r.offset for r in pr]
            ok = all(r is not None for r in offs)
            res[name] = (offs, pr.next_fetch_offset, ok)
        except Exception as e:  # noqa: BLE001
            res[name] = ([-999], -999, repr(e)[:80])
    return res


def _replay_chunk(cases):
    return [_replay(c) for c in cases]


def run(rep: Report, ctx):
    L = 3 if ctx.quick else 4
    cfg = tlc.SPEC / f"_gen_iso_{os.getpid()}.cfg"
    cfg.write_text(f"""SPECIFICATION Spec
CONSTANTS
  MaxLen = {L + 1 if ctx.quick else L}
INVARIANT FilterCorrect
INVARIANT NeverYieldsInvisible
INVARIANT Progress
CHECK_DEADLOCK FALSE
""")
    r = tlc.mc("IsolationFilter", cfg.name, workers=14, timeout=1500, heap="8g")
    cfg.unlink()
    if r.get("violated") or r.get("timed_out"):
        raise MachineryError(f"IsolationFilter: {r.get('violated')}\n" + tlc.counterexample(r["output"], 3000))
    rep.add_mc("IsolationFilter", r, need_actions=["ConsumeAborted", "ConsumeDone", "AbortMarkerEnds", "SkipAborted",
                                                   "SkipControl", "YieldBatch"])
    # the exhaustive family (same as the spec's Init when MaxLen = L) ...
    cases = []
    for n in range(1, L + 1):
        for shape in itertools.product(range(1, 9), repeat=n):
            cases += cases_of(shape)
    n_exh = len(cases)
    if not ctx.quick:
        init_states = r["coverage"].get("Init", [0, 0])[1]
        if init_states != n_exh:
            raise MachineryError(f"enumeration incomplete: harness {n_exh} cases, spec Init {init_states}")
    # ... plus sampled longer logs
    rng = random.Random(ctx.seed + 8)
    for _ in range(1500 if ctx.quick else 12000):
        n = rng.randrange(L + 1, 7)
        cs = cases_of([rng.randrange(1, 9) for _ in range(n)])
        if cs:
            cases += rng.sample(cs, min(len(cs), 3))
    chunks = [cases[k:k + 400] for k in range(0, len(cases), 400)]
    with mp.get_context("fork").Pool(12) as pool:
        results = [x for part in pool.map(_replay_chunk, chunks) for x in part]
    table, meta = [], []
    for c, res in zip(cases, results):
        for name, (offs, nfo, ok) in res.items():
            table.append(dict(c, out=offs, nfo=nfo))
            meta.append((name, ok))
    bad, st, gen = tlc.run_table("IsolationFilter", "Table_IsolationFilter.cfg", table, shard=6000, jobs=12)
    rep.states += st
    rep.transitions += gen
    rep.traces += len(table)
    rep.extra["isolation_cases"] = {"exhaustive_up_to_len": L, "exhaustive_cases": n_exh, "total_cases": len(cases),
                                    "evaluations_both_readers": len(table)}
    rep.samples.append({"isolation_case": table[len(table) // 2]})
    # binding self-test: a corrupted record of the table must be rejected
    probe = next(t for t in table if t["out"])
    v, _, _ = tlc.run_table("IsolationFilter", "Table_IsolationFilter.cfg",
                            [dict(probe, out=probe["out"][1:]), dict(probe, nfo=probe["nfo"] + 1)], shard=10, jobs=1)
    if v != [0, 1]:
        raise MachineryError("binding self-test: corrupted isolation case accepted")
    for k in bad:
        c = table[k]
        name, ok = meta[k]
        kind = "crash" if c["nfo"] == -999 else "records-or-position"
        rep.violations.append(Violation(f"C08:filter:{name}:iso{c['iso']}:{kind}", {"case": c, "note": str(ok)}))
