"""C09 — record batches round-trip and both codec implementations agree.

Spec: spec/RecordBatchFormat.tla (builder / reader / splitter machines over one
set of format operators).  TLC
  1. model-checks the machines for a small alphabet of record classes
     (MC_RecordBatchFormat.cfg quick, MCL_RecordBatchFormat.cfg thorough) and
     exports that configuration;
  2. judges every row recorded from the real code (Table_RecordBatchFormat.cfg):
     * every behaviour of the model-checked builder configuration, replayed on
       both implementations (spec -> code),
     * enumerated / seeded record sequences over the boundary classes of the
       property (null / empty / 1 / 63 / 64 / 8191 / 8192 / ~70000 byte keys and
       values, 0..3 headers, timestamp patterns, producer-field extremes,
       batch_size = size-1 / size / size+1, broker rewrites),
     * concatenations of <= 4 batches through both splitters.
   Each build row holds both encoders and all four (encoder, decoder) pairs.

CRC values and compressed bytes are not decided by the spec (DESIGN section 5):
they are cross-checked (every decoder accepts every encoder's checksum and
rejects a flipped bit; compressed payloads decompress to the uncompressed
record section)."""
from __future__ import annotations

import copy
import itertools
import json
import multiprocessing as mp
import os
import random
import tempfile
import threading
from pathlib import Path

from harness import recfmt, tlc
from harness.runner import Report, Violation
from harness.tlc import MachineryError

MODULE = "RecordBatchFormat"
TABLE_CFG = "Table_RecordBatchFormat.cfg"

# Steering around known triggers (brief, requirement 3).  With a flag on, the
# general generators avoid the trigger and only a small dedicated class hits it.
AVOID = {
    # compiled splitter reads the magic byte at absolute offset 16
    "splitter_mixed_magic": False,   # fixed in /repo (cca0b8a): no longer steered around
    # compiled v2 builder rejects a record that makes the batch exactly batch_size
    "v2_at_limit": False,            # fixed in /repo (32763a0)
}

KV = [-1, 0, 1, 63, 64, 8191, 8192, 70001]
HK = [1, 2, 5, 63, 64]
HV = [-1, 0, 1, 63, 64, 8192]
T0 = recfmt.T0
TS_DELTAS = [0, 0, 1, 1000, -5, -1, 63, 64, -64, -65, 8191, 8192, 2**31 - 1, 2**31, 2**32 + 7, -(2**32),
             2**34 - 1, 2**34, -(2**34), -(2**34) - 1, -(2**35) - 3, 2**41 - 1, 2**41, 2**48, 2**55 - 1, 2**55]
PIDS = [-1, 0, 1, 2**40 + 5, 2**63 - 1]
EPOCHS = [-1, 0, 1, 32767]
SEQS = [-1, 0, 1, 2**31 - 1]
UNLIMITED = 1_000_000_000

ENC_CLAUSES = ["decisions", "metadata", "size", "size_in_bytes", "build_len", "header"]
DEC_CLAUSES = ["roundtrip", "crc", "crc_flip"]
ALL_CLAUSES = ENC_CLAUSES + ["bytes_identical"] + DEC_CLAUSES + ["splitter"]


def _codecs_for(magic, avail):
    if magic == 2:
        return avail
    return [c for c in avail if c in (0, 1, 2) or (c == 3 and magic == 1)]


# ---------------------------------------------------------------------------
# worker side (forked; aiokafka already imported from the snapshot)


def _materialize(sc, rng):
    legacy = sc["magic"] != 2
    ops = []
    for op in sc["ops"]:
        if op[0] == "append":
            ops.append(("append", recfmt.make_record(op[1], rng, legacy=legacy,
                                                     compressible=sc.get("compressible"))))
        else:
            ops.append(tuple(op))
    out = dict(sc)
    out["ops"] = ops
    return out


def _at_limit(sc):
    """label only (steering / signature class): a non-first record arrives when
    size + record size == batch_size"""
    I = recfmt.load_impls()["py"]
    if sc["magic"] == 2:
        b = I.V2Builder(2, 0, 0, -1, -1, 0, sc["limit"])
    else:
        b = I.LegacyBuilder(sc["magic"], 0, sc["limit"])
    n, hit = 0, False
    for op in sc["ops"]:
        if op[0] != "append":
            break
        r = op[1]
        args = (n, r["ts"], r["key"], r["value"]) + ((r["headers"],) if sc["magic"] == 2 else ())
        if n > 0 and b.size() + b.size_in_bytes(*args) == sc["limit"]:
            hit = True
        if b.append(*args) is not None:
            n += 1
    return hit


def _prefix_sizes(sc):
    """size() after each accepted append with no limit (observation used to pick
    batch_size values around the real sizes)"""
    I = recfmt.load_impls()["py"]
    probe = dict(sc, limit=UNLIMITED, wrap=0, ops=[op for op in sc["ops"] if op[0] == "append"])
    obs, _, _ = recfmt.run_encoder(I, probe, codec=0)
    return [o["sz"] for o in obs]


def _finish(sc, rng, tag):
    row = recfmt.run_build_case(sc, rng)
    meta = {"kind": "build", "tag": tag, "magic": sc["magic"], "codec": sc["codec"],
            "at_limit": _at_limit(sc), "wrap": sc.get("wrap", 0), "nops": len(sc["ops"]),
            "post": int(bool(sc["post"]["rebase"])) + 2 * sc["post"]["logappend"] + 4 * sc["post"]["control"]}
    return row, meta


def do_job(job):
    kind, seed, sc = job
    rng = random.Random(seed)
    out = []
    if kind == "split":
        msc = dict(sc)
        msc["builds"] = [dict(p, recs=[recfmt.make_record(c, rng, legacy=p["magic"] != 2) for c in p["recs"]])
                         for p in sc["builds"]]
        if sc.get("cut"):
            mode, k = sc["cut"]
            msc["cut"] = (lambda n, _r, mode=mode, k=k: max(1, min(n - 1, k if mode == "abs" else n - k)))
        row = recfmt.run_split_case(msc, rng)
        magics = {p["magic"] for p in sc["builds"]}
        out.append((row, {"kind": "split", "tag": sc["tag"], "mixed": len(magics) > 1, "dec": sc["dec"],
                          "magics": [p["magic"] for p in sc["builds"]], "cut": bool(sc.get("cut"))}))
        return out
    msc = _materialize(sc, rng)
    if kind == "build":
        out.append(_finish(msc, rng, sc["tag"]))
    elif kind == "limits":
        # the same records with batch_size one below / at / one above the size after
        # the k-th record (k >= 2), as observed without a limit
        sizes = _prefix_sizes(msc)
        ks = sc["ks"] if sc.get("ks") else range(2, len(sizes) + 1)
        for k in ks:
            if k > len(sizes):
                continue
            for delta in sc["deltas"]:
                out.append(_finish(dict(msc, limit=sizes[k - 1] + delta), rng, sc["tag"]))
    elif kind == "mc":
        # one behaviour family of the model-checked configuration: this op
        # sequence under every exported batch_size within 1 of a prefix size,
        # the smallest and the largest one
        sizes = _prefix_sizes(msc)
        lims = sorted(sc["limits"])
        near = {L for L in lims for s in sizes if abs(L - s) <= 1}
        for L in sorted(near | {lims[0], lims[-1]}):
            out.append(_finish(dict(msc, limit=L), rng, sc["tag"]))
    else:
        raise ValueError(kind)
    return out


def _init_worker():
    recfmt.load_impls()


# ---------------------------------------------------------------------------
# generators (parent side; record *classes* only, workers materialise them)


def _cls(k, v, h=(), ts=T0):
    return {"k": k, "v": v, "h": [{"k": a, "v": b} for a, b in h], "ts": ts}


def _base(magic, codec=0, txnl=0, wrap=0, limit=UNLIMITED, pid=-1, epoch=-1, seq=-1, post=None, tag=""):
    return {"magic": magic, "codec": codec, "txnl": txnl if magic == 2 else 0, "wrap": wrap if magic == 2 else 0,
            "limit": limit, "pid": pid, "epoch": epoch, "seq": seq,
            "post": post or dict(recfmt.NO_POST), "tag": tag}


def _rand_post(rng, magic, codec):
    p = dict(recfmt.NO_POST)
    if rng.random() < 0.5:
        return p
    if not (magic == 0 and codec != 0) and rng.random() < 0.7:
        p["rebase"] = 1
        p["base"] = recfmt.b8(rng.choice([0, 1, 1000, 2**31 - 1, 2**31, 2**40 + 12345, 2**62]))
    if magic != 0 and rng.random() < 0.4:
        p["logappend"] = 1
        p["appendts"] = recfmt.b8(rng.choice([T0 + 777, 1, 2**62 + 9]))
    if magic == 2 and rng.random() < 0.25:
        p["control"] = 1
    return p


def _rand_headers(rng):
    n = rng.choice([0, 0, 1, 2, 3])
    return [(rng.choice(HK), rng.choice(HV)) for _ in range(n)]


def _rand_ts(rng, first):
    if first is None:
        return rng.choice([T0, T0, T0, 0, 2**40, 2**62])
    d = rng.choice(TS_DELTAS)
    t = first + d
    if rng.random() < 0.03:
        t = rng.choice([0, 2**63 - 1])
    return t if 0 <= t < 2**63 else first


def gen_mc_jobs(export, avail, rng, quick):
    """every append sequence of the model-checked configuration (spec -> code)"""
    alpha = export["alphabet"]
    jobs = []
    for magic in sorted(export["magics"]):
        codecs = _codecs_for(magic, avail)
        for n in range(1, export["maxAppends"] + 1):
            for seq in itertools.product(range(len(alpha)), repeat=n):
                classes = [{"k": alpha[x]["k"], "v": alpha[x]["v"],
                            "h": [{"k": h["k"], "v": h["v"]} for h in alpha[x]["h"]] if magic == 2 else [],
                            "ts": alpha[x]["ts"]} for x in seq]
                ops = [("append", c) for c in classes] + [("build",)]
                sc = _base(magic, codec=rng.choice(codecs) if rng.random() < 0.25 else 0,
                           txnl=rng.randrange(2), tag="mc")
                sc.update(ops=ops, limits=export["limits"], compressible=True)
                jobs.append(("mc", rng.randrange(1 << 30), sc))
                if magic == 2:
                    # producer.BatchBuilder life cycle: close / build in between,
                    # appends after a rejection, after close and after build
                    for variant in range(1 if quick else 2):
                        w = [("append", c) for c in classes]
                        cutp = rng.randrange(1, len(w) + 1)     # first append is always accepted: n >= 1
                        mid = ("close",) if (variant + len(seq)) % 2 == 0 else ("build",)
                        wops = w[:cutp] + [mid] + w[cutp:]
                        if mid[0] != "build":
                            wops.append(("build",))
                        ws = _base(2, txnl=rng.randrange(2), wrap=1, tag="mc-wrap")
                        ws.update(ops=wops, limits=export["limits"], compressible=True)
                        jobs.append(("mc", rng.randrange(1 << 30), ws))
    return jobs


def gen_pair_jobs(avail, rng, quick):
    """every (key class, value class) as a one-record batch in every format, and as
    the second record of a two-record batch (varint boundaries of the lengths)"""
    jobs = []
    for magic in (0, 1, 2):
        for k, v in itertools.product(KV, KV):
            big = k > 9000 and v > 9000
            h = _rand_headers(rng) if magic == 2 else []
            sc = _base(magic, codec=0, txnl=rng.randrange(2), pid=rng.choice(PIDS), epoch=rng.choice(EPOCHS),
                       seq=rng.choice(SEQS), post=_rand_post(rng, magic, 0), tag="pairs")
            first = _rand_ts(rng, None)
            ops = [("append", _cls(k, v, h, first))]
            if not big:
                ops.append(("append", _cls(v, k, _rand_headers(rng) if magic == 2 else [], _rand_ts(rng, first))))
            sc["ops"] = ops + [("build",)]
            jobs.append(("build", rng.randrange(1 << 30), sc))
    return jobs


def gen_codec_jobs(avail, rng, quick):
    """every codec x format x (compressible / incompressible) x transactional"""
    jobs = []
    reps = 2 if quick else 8
    for magic in (0, 1, 2):
        for codec in _codecs_for(magic, avail):
            if codec == 0:
                continue
            for compressible, txnl, _ in itertools.product((True, False), (0, 1), range(reps)):
                if magic != 2 and txnl:
                    continue
                n = rng.randrange(1, 5)
                first = _rand_ts(rng, None)
                ops = []
                for j in range(n):
                    k = rng.choice(KV[:7]) if compressible else rng.choice(KV[:5])
                    v = rng.choice(KV[:7] + [70001]) if compressible else rng.choice(KV[:5])
                    ops.append(("append", _cls(k, v, _rand_headers(rng) if magic == 2 else [],
                                               first if j == 0 else _rand_ts(rng, first))))
                sc = _base(magic, codec=codec, txnl=txnl, pid=rng.choice(PIDS), epoch=rng.choice(EPOCHS),
                           seq=rng.choice(SEQS), post=_rand_post(rng, magic, codec), tag="codecs")
                sc.update(ops=ops + [("build",)], compressible=compressible)
                jobs.append(("build", rng.randrange(1 << 30), sc))
    return jobs


def gen_random_jobs(avail, rng, count):
    """seeded random sequences over the boundary classes, with batch_size set
    around the observed sizes"""
    jobs = []
    for _ in range(count):
        magic = rng.choice((0, 1, 2, 2))
        codec = rng.choice(_codecs_for(magic, avail)) if rng.random() < 0.35 else 0
        n = rng.randrange(1, 5)
        first = _rand_ts(rng, None)
        ops = []
        for j in range(n):
            k = rng.choice(KV if rng.random() < 0.1 else KV[:7])
            v = rng.choice(KV if rng.random() < 0.1 else KV[:7])
            ops.append(("append", _cls(k, v, _rand_headers(rng) if magic == 2 else [],
                                       first if j == 0 else _rand_ts(rng, first))))
        sc = _base(magic, codec=codec, txnl=rng.randrange(2), pid=rng.choice(PIDS), epoch=rng.choice(EPOCHS),
                   seq=rng.choice(SEQS), post=_rand_post(rng, magic, codec), tag="random")
        sc.update(ops=ops + [("build",)], compressible=rng.random() < 0.5)
        if n >= 2 and rng.random() < 0.6:
            deltas = [-1, 0, 1]
            if magic == 2 and AVOID["v2_at_limit"]:
                deltas = [-1, 1]
            sc.update(ks=[rng.randrange(2, n + 1)], deltas=deltas, tag="random-limit")
            jobs.append(("limits", rng.randrange(1 << 30), sc))
        else:
            jobs.append(("build", rng.randrange(1 << 30), sc))
    return jobs


def gen_at_limit_jobs(rng):
    """dedicated small class: v2 batch_size exactly the size reached by the k-th record"""
    jobs = []
    for wrap in (0, 1):
        for recs in ([_cls(1, 1), _cls(1, 1)], [_cls(-1, 63), _cls(64, -1, [(5, -1)], T0 + 5), _cls(0, 0, [], T0 - 1)]):
            sc = _base(2, wrap=wrap, tag="at-limit")
            sc.update(ops=[("append", c) for c in recs] + [("build",)], ks=None, deltas=[0])
            jobs.append(("limits", rng.randrange(1 << 30), sc))
    return jobs


def _small_cls(rng, magic, first):
    return _cls(rng.choice([-1, 0, 1, 5, 63, 64]), rng.choice([-1, 0, 1, 9, 63, 64, 200]),
                _rand_headers(rng)[:2] if magic == 2 else [], first if first is not None else T0)


def _split_build(rng, magic, avail, nrec=None, codec=None):
    n = nrec or rng.randrange(1, 4)
    if codec is None:
        codec = rng.choice(_codecs_for(magic, avail)) if rng.random() < 0.3 else 0
    recs = []
    for j in range(n):
        recs.append(_small_cls(rng, magic, None if j == 0 else T0 + rng.choice(TS_DELTAS[:12])))
    return {"magic": magic, "codec": codec, "enc": rng.choice(("cy", "py")), "recs": recs}


def gen_split_jobs(avail, rng, quick):
    jobs = []
    cuts = [None, ("abs", 1), ("abs", 11), ("abs", 12), ("abs", 17), ("end", 1), ("abs", 40)]

    def add(builds, cut, dec, tag, tail_magic):
        b = [dict(p) for p in builds]
        if cut is not None:
            # one more single-slice batch, of which only a prefix is kept
            b.append(_split_build(rng, tail_magic, avail, nrec=1 if tail_magic != 2 else None, codec=0))
        jobs.append(("split", rng.randrange(1 << 30), {"builds": b, "cut": cut, "dec": dec, "tag": tag}))

    # same-magic concatenations: 0..4 batches, every cut, both splitters
    for magic in (0, 1, 2):
        for n in range(0, 5):
            for cut in cuts:
                if n == 0 and cut is None:
                    continue
                for _ in range(1 if quick else 4):
                    builds = [_split_build(rng, magic, avail) for _ in range(n)]
                    for dec in ("cy", "py"):
                        add(builds, cut, dec, "same-magic", magic)
    # mixed-magic concatenations: a dedicated small class (every ordered pair, some
    # triples / quadruples); the compiled splitter is known to fail here
    mixed = [[a, b] for a, b in itertools.product((0, 1, 2), repeat=2) if a != b]
    for _ in range(6 if quick else 40):
        ms = [rng.choice((0, 1, 2)) for _ in range(rng.randrange(3, 5))]
        if len(set(ms)) > 1:
            mixed.append(ms)
    for ms in mixed:
        for cut in (None, ("abs", 17)):
            builds = [_split_build(rng, m, avail) for m in ms]
            for dec in ("cy", "py"):
                add(builds, cut, dec, "mixed-magic", rng.choice((0, 1, 2)))
    if not AVOID["splitter_mixed_magic"]:
        for _ in range(100 if quick else 1000):
            ms = [rng.choice((0, 1, 2)) for _ in range(rng.randrange(1, 5))]
            builds = [_split_build(rng, m, avail) for m in ms]
            add(builds, rng.choice(cuts), rng.choice(("cy", "py")), "any-magic", rng.choice((0, 1, 2)))
    return jobs


# ---------------------------------------------------------------------------
# signatures


def _who(meta, clause, who):
    long = recfmt.IMPL_LONG
    if clause in ENC_CLAUSES:
        return "enc=" + long[who]
    if clause in DEC_CLAUSES:
        e, d = who
        return f"{long[e]}>{long[d]}"
    return "both"


def signature(meta, clause, who):
    if meta["kind"] == "split":
        cls = "mixed-magic" if meta["mixed"] else "same-magic"
        return f"C09:splitter:{cls}:{recfmt.IMPL_LONG[meta['dec']]}"
    sig = f"C09:build:v{meta['magic']}:{clause}:{_who(meta, clause, who)}"
    if meta.get("wrap"):
        sig += ":batchbuilder"
    if meta["codec"]:
        sig += ":compressed"
    if meta["at_limit"]:
        sig += ":at-limit"
    return sig


def diagnose(rows, metas, bad, jobs=10):
    """which clause fails, and for which implementation / pair: the bad rows are
    re-evaluated clause by clause on single-implementation projections"""
    result = {}
    variants = {}   # clause -> list of (row index, who, projected row)
    for i in bad:
        row, meta = rows[i], metas[i]
        if meta["kind"] == "split":
            result[i] = ("splitter", None)
            continue
        for cl in ENC_CLAUSES:
            for e in row["enc"]:
                variants.setdefault(cl, []).append((i, e, dict(row, enc={e: row["enc"][e]})))
        variants.setdefault("bytes_identical", []).append((i, None, row))
        for cl in DEC_CLAUSES:
            for d in row["dec"]:
                variants.setdefault(cl, []).append((i, (d["e"], d["d"]), dict(row, dec=[d])))
    found = {}

    def one(cl):
        vs = variants.get(cl)
        if not vs:
            return cl, []
        b, _, _ = tlc.run_table(MODULE, TABLE_CFG, [v[2] for v in vs], shard=400, jobs=2,
                                env={"C09_CLAUSE": cl})
        return cl, [vs[x][:2] for x in b]

    from concurrent.futures import ThreadPoolExecutor
    with ThreadPoolExecutor(max_workers=jobs) as ex:
        for cl, hits in ex.map(one, ENC_CLAUSES + ["bytes_identical"] + DEC_CLAUSES):
            for i, who in hits:
                found.setdefault(i, []).append((cl, who))
    for i in bad:
        if i in result:
            continue
        if i not in found:
            raise MachineryError(f"C09: row {i} rejected as a whole but by no single clause")
        result[i] = found[i]
    return result


# ---------------------------------------------------------------------------


def _corruptions(row):
    """binding self-test: copies of an accepted build row with one recorded field
    corrupted; TLC must reject every one of them"""
    outs = []
    r = copy.deepcopy(row)
    r["dec"][1]["batches"][0]["recs"][0]["vd"] ^= 1
    outs.append(("decoded value digest", r))
    r = copy.deepcopy(row)
    bi = next(j for j, o in enumerate(r["ops"]) if o["op"] == "build")
    if r["magic"] == 2:
        r["enc"]["cy"]["obs"][bi]["hdr"][26] ^= 1          # lastOffsetDelta
        outs.append(("header lastOffsetDelta", r))
    else:
        r["enc"]["cy"]["obs"][bi]["msgs"][0]["fix"][11] ^= 1   # message length
        outs.append(("message length field", r))
    r = copy.deepcopy(row)
    r["enc"]["py"]["obs"][0]["size"] += 1
    outs.append(("metadata size", r))
    r = copy.deepcopy(row)
    r["enc"]["py"]["obs"][0]["acc"] = 0
    outs.append(("append decision", r))
    r = copy.deepcopy(row)
    r["dec"][2]["flip"] = True
    outs.append(("checksum accepted after bit flip", r))
    r = copy.deepcopy(row)
    r["dec"][0]["batches"][0]["recs"][-1]["off"][7] ^= 1
    outs.append(("decoded offset", r))
    return outs


def _sample(row):
    def slim(x):
        if isinstance(x, dict):
            return {k: slim(v) for k, v in x.items() if k not in ("hdr", "msgs")}
        if isinstance(x, list):
            return [slim(v) for v in (x[:6] if x and isinstance(x[0], dict) else x)]
        return x
    return slim(row)


def run(ctx) -> Report:
    impls = recfmt.load_impls()
    avail = recfmt.available_codecs()
    rng = random.Random(ctx.seed * 7919 + 9)
    rep = Report()
    quick = ctx.quick

    # ---- 1. model checking (in the background while the implementation runs)
    export_dir = Path(tempfile.mkdtemp(prefix="c09-", dir=os.environ.get("VERIF_SCRATCH", "/var/tmp")))
    mc_res = {}

    def mc(name, cfg, workers, export):
        try:
            mc_res[name] = tlc.mc(MODULE, cfg, workers=workers, timeout=1500,
                                  env={"C09_EXPORT": str(export)})
        except Exception as e:  # noqa: BLE001
            mc_res[name] = e

    try:
        # the configuration of the model-checked machines (alphabet, batch_size
        # values, depth) is exported by the spec itself; the full runs go on in the
        # background while the implementation is driven
        cfg_q = "MC_RecordBatchFormat.cfg"
        exp_quick = export_dir / "quick.json"
        r0 = tlc.mc(MODULE, cfg_q if quick else "MCL_RecordBatchFormat.cfg", workers=2, timeout=300, coverage=False,
                    env={"C09_EXPORT": str(exp_quick), "C09_EXPORT_ONLY": "1"})
        if not r0["ok"] or not exp_quick.exists():
            raise MachineryError("C09: export of the model-checked configuration failed\n" + r0["output"][-2000:])
        export = json.loads(exp_quick.read_text())
        need = ["AppendAccept", "AppendReject", "AppendClosed", "Close", "Build", "Header", "NextRecord",
                "EndOfBatch", "NextBatch", "PartialTail", "EndOfBuffer"]
        threads = [threading.Thread(target=mc, args=("quick", cfg_q, 12 if quick else 6, export_dir / "q2.json"))]
        if not quick:
            threads.append(threading.Thread(target=mc, args=("thorough", "MCL_RecordBatchFormat.cfg", 6,
                                                             export_dir / "thorough.json")))
        for t in threads:
            t.start()

        # ---- 2. the implementation
        jobs = []
        jobs += gen_mc_jobs(export, avail, rng, quick)
        n_mc_jobs = len(jobs)
        jobs += gen_pair_jobs(avail, rng, quick)
        jobs += gen_codec_jobs(avail, rng, quick)
        jobs += gen_random_jobs(avail, rng, 500 if quick else 9000)
        jobs += gen_at_limit_jobs(rng)
        jobs += gen_split_jobs(avail, rng, quick)
        # big payloads first inside each chunking window does not matter; keep order
        nproc = 10
        with mp.get_context("fork").Pool(nproc, initializer=_init_worker) as pool:
            results = pool.map(do_job, jobs, chunksize=8)
        rep.extra.setdefault("phases_s", {})["drive_impl"] = round(ctx.elapsed(), 1)
        threads[0].join()         # quick model checking done before the table JVMs start
        rep.extra["phases_s"]["mc_quick"] = round(ctx.elapsed(), 1)
        rows, metas = [], []
        for out in results:
            for row, meta in out:
                rows.append(row)
                metas.append(meta)
        n_real = len(rows)

        # binding self-test rows (must all be rejected)
        ok_candidates = [i for i, m in enumerate(metas)
                         if m["kind"] == "build" and not m["at_limit"] and m["nops"] >= 3 and m["post"] == 0
                         and rows[i]["dec"] and not m["wrap"]]
        selftest = []
        for magic in (2, 1):
            cand = next((i for i in ok_candidates if metas[i]["magic"] == magic and metas[i]["codec"] == 0
                         and rows[i]["enc"]["py"]["obs"][0].get("acc") == 1), None)
            if cand is None:
                raise MachineryError("C09: no row for the binding self-test")
            for what, r in _corruptions(rows[cand]):
                selftest.append((cand, what, r))
        table = rows + [r for _, _, r in selftest]

        bad, st, gen = tlc.run_table(MODULE, TABLE_CFG, table, shard=250 if quick else 500, jobs=14)
        rep.extra["phases_s"]["table"] = round(ctx.elapsed(), 1)
        bad = set(bad)
        for k, (cand, what, _) in enumerate(selftest):
            if cand in bad:
                continue           # the original is itself rejected: reported below
            if n_real + k not in bad:
                raise MachineryError(f"C09 binding self-test: corrupted '{what}' was accepted by TLC")
        real_bad = sorted(i for i in bad if i < n_real)

        rep.states += st
        rep.transitions += gen
        rep.traces = n_real
        rep.mc_runs.append({"name": "RecordBatchFormat table", "cases": len(table), "distinct": st,
                            "generated": gen, "rejected_selftest_rows": len(selftest)})

        # ---- 3. violations
        if real_bad:
            diag_set = real_bad
            # diagnose at most 6 rows per (kind, tag, magic, at_limit, mixed) class
            seen, pick = {}, []
            for i in diag_set:
                m = metas[i]
                key = (m["kind"], m["tag"], m.get("magic"), m.get("at_limit"), m.get("mixed"), m.get("dec"),
                       m.get("codec", 0) != 0, m.get("wrap"))
                seen[key] = seen.get(key, 0) + 1
                if seen[key] <= 6:
                    pick.append(i)
            diag = diagnose(rows, metas, pick)
            order = {c: n for n, c in enumerate(ALL_CLAUSES)}
            for i in pick:
                m = metas[i]
                if m["kind"] == "split":
                    sig = signature(m, "splitter", None)
                    detail = {"meta": m, "got": rows[i]["got"],
                              "builds": [{k: v for k, v in b.items() if k != "recs"} for b in rows[i]["builds"]],
                              "cut": rows[i]["cut"]}
                    rep.violations.append(Violation(sig, detail))
                    continue
                first = min(diag[i], key=lambda cw: (order[cw[0]], str(cw[1])))
                sig = signature(m, first[0], first[1])
                rep.violations.append(Violation(sig, {"meta": m, "failing": [list(map(str, x)) for x in diag[i]],
                                                      "row": _sample(rows[i])}))
            # rows not diagnosed individually still count: they belong to a diagnosed class
            rep.extra["rejected_rows"] = len(real_bad)
            rep.extra["rejected_by_class"] = {str(k): v for k, v in seen.items()}

        rep.extra["phases_s"]["diagnosis"] = round(ctx.elapsed(), 1)
        for t in threads:
            t.join()
        rep.extra["phases_s"]["mc_done"] = round(ctx.elapsed(), 1)
        for name, label in (("quick", "MC_RecordBatchFormat"), ("thorough", "MCL_RecordBatchFormat")):
            if name not in mc_res:
                continue
            res = mc_res[name]
            if isinstance(res, Exception):
                raise res
            if not res["ok"]:
                raise MachineryError(f"RecordBatchFormat does not satisfy its own properties ({name}): "
                                     + str(res.get("violated")) + "\n" + tlc.counterexample(res["output"]))
            rep.add_mc(label, res, need_actions=need)
    finally:
        import shutil
        shutil.rmtree(export_dir, ignore_errors=True)

    # ---- 4. evidence
    builds = [m for m in metas if m["kind"] == "build"]
    splits = [m for m in metas if m["kind"] == "split"]
    distinct = len({json.dumps([r.get("magic"), r.get("codec"), r.get("limit"), r.get("wrap"),
                                [(o["op"], o.get("r", {}).get("k"), o.get("r", {}).get("v"),
                                  len(o.get("r", {}).get("h", [])), tuple(o.get("r", {}).get("ts", [])))
                                 for o in r.get("ops", [])], r.get("post"),
                                [(b["magic"], b["codec"], len(b["recs"])) for b in r.get("builds", [])],
                                r.get("cut"), r.get("dec")], sort_keys=True, default=str)
                    for r in rows})
    rep.samples = [_sample(rows[0]), _sample(next(r for r in rows if r["kind"] == "split"))]
    rep.extra.update(
        evaluations=n_real,
        pair_evaluations=4 * len(builds) + len(splits),
        distinct_nontrivial=distinct,
        exhaustive=False,
        rule="one row per (format, codec, flags, batch_size, op sequence, broker rewrite) holding both encoders "
             "and the four (encoder, decoder) pairs, or per (concatenation, cut, splitter); distinct = distinct "
             "scenario descriptions (payload contents not counted)",
        mc_replay={"jobs": n_mc_jobs, "rows": sum(1 for m in builds if m["tag"].startswith("mc")),
                   "what": "every append sequence (length 1..MaxAppends) of the model-checked alphabet in every "
                           "format under every model-checked batch_size within 1 of a prefix size, the smallest "
                           "and the largest; BatchBuilder life-cycle variants for v2"},
        by_class={t: sum(1 for m in metas if m["tag"] == t) for t in sorted({m["tag"] for m in metas})},
        codecs=[recfmt.CODEC_NAMES[c] for c in avail],
        at_limit_rows=sum(1 for m in builds if m["at_limit"]),
        mixed_magic_rows=sum(1 for m in splits if m["mixed"]),
        avoid=AVOID,
        bounds={"records_per_batch": 4, "batches_per_concatenation": 4, "largest_payload": 70001,
                "headers_per_record": 3},
        not_decided_by_spec=["CRC-32 / CRC-32C values", "compressed payload bytes"],
    )
    rep.assumptions = [
        "offsets passed to append() are 0,1,2,... (what producer.BatchBuilder does); empty batches are not built",
        "compression libraries (cramjam via aiokafka.codec) are trusted to decompress what they compressed",
        "checksum values are cross-checked between implementations and by bit-flip rejection, not computed by the spec",
        "the 'broker' step (base offset, LogAppendTime, control bit, checksum refresh with the other "
        "implementation's CRC-32C / zlib CRC-32) is performed by the harness",
        "timestamps are non-negative (property statement)",
    ]
    return rep
