"""C04 — committed offsets never pass undelivered records; no loss across crash / rebalance.

Specs: spec/GroupMembership.tla (MC: CommitBehindDelivery, NoDeliveryBelowStart,
CommittedWasDelivered with a crash enabled in every state; liveness AtLeastOnce) and
spec/Trace_Group.tla binding the same clauses to real group members on the simulated cluster."""
from harness.runner import Report

from . import _group as G


def run(ctx) -> Report:
    rep = Report()
    if not ctx.replay:
        G.run_mc(rep, ctx, "C04")
    n = 1 if ctx.quick else 10
    G.conformance(rep, ctx, "C04", {"basic": 120 * n, "churn": 220 * n, "faults": 180 * n, "subs": 60 * n, "live": 80 * n, "latelookup": 60 * n, "txnlog": 80 * n})
    rep.extra.update(
        bounds="MC: 2-3 members x 2 partitions x logs of 1-2 records, <=2-3 generations, 1-2 crashes placed at ANY state, restarts, "
               "commits at any point (auto-commit tick, commit(), last commit before rejoin/close are all instances of Commit); "
               "traces: 1-4 real members, 1-2 topics x 1-4 partitions x 2-8 records, auto-commit 300-1500 ms and explicit commit() every "
               "1-3 records, getone/getmany(max_poll_records), members killed (no leave, no commit) or stopped at random times, late joiners, "
               "coordinator error codes / drops / lost replies at JoinGroup, SyncGroup, Heartbeat, OffsetCommit, OffsetFetch, FindCoordinator, "
               "coordinator fail-over with and without group state",
        rule="one trace per generated scenario; non-trivial = the group went through >= 3 generations")
    rep.assumptions = ["simulated group coordinator follows Kafka's GroupCoordinator state machine (harness/simgroup.py)",
                       "classes other than txnlog use plain logs (every offset visible); txnlog: logs of two transactional producers + a plain one, every transaction decided, read_committed members -- the offsets that may be stepped over (markers, aborted records) are computed by the driver from the log shape it wrote",
                       "kill = all tasks/timers of the member cancelled after its connections went dead (nothing reaches the cluster)"]
    return rep
