"""Shared machinery of C03 / C08 / C13: model checking of ConsumerFetch, scenario
generation (log shapes, operation scripts, faults), execution of the real
consumer, TLC trace validation, triage."""
from __future__ import annotations

import os
import json
import logging
import multiprocessing as mp
import random

from harness import tlc
from harness.runner import Report, Violation
from harness.tlc import MachineryError

C13_EVENTS = {"ResetTo", "AwaitReset", "ErrorSet", "Raised"}


def run_mc(rep: Report, ctx, which: str):
    cfg = tlc.SPEC / f"_gen_consumer_{os.getpid()}.cfg"
    seeks, pauses = (2, 1) if ctx.quick else (3, 2)
    cfg.write_text(f"""SPECIFICATION Spec
CONSTANTS
  Parts = {{p1}}
  MaxSeeks = {seeks}
  MaxPauses = {pauses}
INVARIANT ExactlyVisibleOnceInOrder
INVARIANT PositionBounds
INVARIANT StartIsLegal
INVARIANT NoErrorUnlessPolicyNone
CHECK_DEADLOCK FALSE
""")
    r = tlc.mc("MC_ConsumerFetch", cfg.name, workers=12, timeout=1500 if ctx.quick else 3000, heap="8g")
    if r.get("violated") or r.get("timed_out"):
        raise MachineryError(f"MC_ConsumerFetch: {r.get('violated')} timed_out={r.get('timed_out')}\n"
                             + tlc.counterexample(r["output"], 3000))
    rep.add_mc("MC_ConsumerFetch", r, need_actions=["AUseCommitted", "ANoCommitted", "AApplyReset", "ASeek", "ASeekTo",
                                                    "APause", "AResume", "AFetchOK", "AFetchOOR", "AProc", "ATake", "ADrop"])
    if which == "C03":
        live = tlc.SPEC / f"_gen_consumer_live_{os.getpid()}.cfg"
        live.write_text("""SPECIFICATION LiveSpec
CONSTANTS
  Parts = {p1}
  MaxSeeks = 1
  MaxPauses = 1
PROPERTY ReachesEnd
CHECK_DEADLOCK FALSE
""")
        r = tlc.mc("MC_ConsumerFetch", live.name, workers=8, timeout=1500, coverage=False, heap="6g")
        if r.get("violated") or r.get("timed_out"):
            raise MachineryError(f"MC_ConsumerFetch liveness: {r.get('violated')} timed_out={r.get('timed_out')}\n"
                                 + tlc.counterexample(r["output"], 3000))
        rep.add_mc("MC_ConsumerFetch/liveness", r)
        live.unlink()
    cfg.unlink()


# ---------------------------------------------------------------------------
# log shapes

def gen_log(rng: random.Random, kind: str):
    """-> (shape, leo).  kind: plain | txn | legacy"""
    shape, off = [], rng.choice([0, 0, 0, 3])
    if kind == "legacy":
        magic = rng.choice([0, 1])
        for _ in range(rng.randrange(1, 5)):
            n = rng.randrange(1, 4)
            offs = sorted(rng.sample(range(off, off + n + 2), n))
            wrap = rng.random() < 0.6
            if not wrap:
                offs = list(range(off, off + n))
            shape.append(dict(kind="data", offs=offs, last=offs[-1], magic=magic, wrap=wrap))
            off = offs[-1] + 1
        return shape, off
    pids = [7, 8, 9, 10]
    open_t = {}
    nb = rng.randrange(1, 8)
    for _ in range(nb):
        r = rng.random()
        if kind == "txn" and r < 0.30 and open_t:
            pid = rng.choice(sorted(open_t))
            shape.append(dict(kind=rng.choice(["commit", "abort"]), off=off, pid=pid))
            del open_t[pid]
            off += 1
            continue
        if kind == "txn" and r < 0.36:
            shape.append(dict(kind="abort", off=off, pid=rng.choice(pids)))     # solitary marker
            open_t.pop(shape[-1]["pid"], None)
            off += 1
            continue
        span = rng.randrange(1, 4)
        cand = list(range(off, off + span))
        keepn = rng.choice([span, span, max(0, span - 1), rng.randrange(0, span + 1)])
        offs = sorted(rng.sample(cand, keepn))
        last = off + span - 1
        b = dict(kind="data", offs=offs, last=last, base=off, gzip=rng.random() < 0.2)
        if kind == "txn" and rng.random() < 0.6:
            pid = rng.choice(pids)
            b.update(pid=pid, txnl=True)
            open_t.setdefault(pid, off)
        elif rng.random() < 0.2:
            b.update(pid=rng.choice([11, 12]), txnl=False)    # idempotent, non-transactional producer
        shape.append(b)
        off = last + 1
    if kind == "txn" and open_t and rng.random() < 0.7:
        for pid in sorted(open_t):
            shape.append(dict(kind=rng.choice(["commit", "abort"]), off=off, pid=pid))
            off += 1
    return shape, off


def gen_ops(rng, nparts, leo, *, n, seeks=True, pauses=True):
    ops = []
    for _ in range(n):
        r = rng.random()
        p = rng.randrange(nparts)
        if r < 0.30:
            ops.append(["getone"] if rng.random() < 0.8 else ["getone", [p]])
        elif r < 0.60:
            op = ["getmany", rng.choice([None, None, 1, 2, 3]), rng.choice([0, 50, 200])]
            if rng.random() < 0.2:
                op.append(sorted(rng.sample(range(nparts), rng.randrange(1, nparts + 1))))
            ops.append(op)
        elif r < 0.72 and seeks:
            ops.append(["seek", p, rng.randrange(0, leo[p] + 2)])
        elif r < 0.77 and seeks:
            ops.append([rng.choice(["seek_beg", "seek_end"]), p])
        elif r < 0.84 and pauses:
            ops.append(["pause", p])
        elif r < 0.90 and pauses:
            ops.append(["resume", p])
        elif r < 0.95:
            ops.append(["position", p])
        else:
            ops.append(["sleep", rng.choice([0, 0.001, 0.01, 0.12])])
    return ops


FETCH_CODES = [6, 3, 5, 7]
LOOKUP_CODES = {"ListOffsets": [6, 3, 5], "OffsetFetch": [14, 16]}


def shape_first(shape):
    if not shape:
        return 0
    b = shape[0]
    if b["kind"] == "data":
        return b["base"] if "base" in b else b["offs"][0]
    return b.get("off", 0)


def gen_scenario(rng: random.Random, seed: int, cls: str) -> dict:
    nparts = rng.choice([1, 2, 2, 3])
    nnodes = rng.choice([1, 2, 3])
    kinds = {"plain": ["plain"], "txn": ["txn"], "legacy": ["legacy"], "reset": ["plain", "txn"], "oor-race": ["plain", "txn"], "late-lookup": ["plain"], "reset-race": ["plain", "txn"],
             "filter": ["txn"]}[cls]
    logs, leo = [], []
    for _ in range(nparts):
        s, e = gen_log(rng, rng.choice(kinds))
        logs.append(s)
        leo.append(e)
    iso = rng.choice([0, 1]) if cls != "legacy" else rng.choice([0, 0, 1])
    sc = dict(cls=cls, seed=seed, iso=iso, policy=rng.choice(["earliest", "earliest", "latest"]),
              group=False, nnodes=nnodes, leaders=[rng.randrange(nnodes) for _ in range(nparts)],
              logs=logs, hw_lag=[0] * nparts, committed=[None] * nparts,
              cut=rng.choice(["all", "one", "random", "random"]),
              faults=dict(budget=rng.choice([0, 0, 1, 2, 4]), p=0.3, apis=["Fetch"], codes=FETCH_CODES,
                          kinds=rng.choice([["error"], ["drop_before", "drop_after", "lose_reply", "error"]]),
                          slow=rng.choice([0, 0.004, 0.02])),
              env=[], request_timeout_ms=rng.choice([500, 2000]))
    # unstable tail: the last batch is above the high watermark
    for p in range(nparts):
        if logs[p] and rng.random() < 0.25:
            last = logs[p][-1]
            sc["hw_lag"][p] = (last["last"] - last.get("base", last["offs"][0] if last.get("offs") else last["last"]) + 1) \
                if last["kind"] == "data" else 1
    if nnodes > 1 and rng.random() < 0.3:
        sc["env"].append([round(rng.random() * 0.2, 4), "move", rng.randrange(nparts), rng.randrange(nnodes)])
    ntasks = rng.choice([1, 1, 2, 3])
    if cls == "reset":
        # C13: committed offset absent / inside / below log start / beyond log end; the three
        # policies; group and group-less; a seek() landing between assignment and reset completion
        sc["group"] = rng.random() < 0.75
        sc["policy"] = rng.choice(["earliest", "latest", "none"])
        for p in range(nparts):
            first = logs[p][0].get("base", logs[p][0].get("off", 0)) if logs[p] else 0
            if logs[p] and logs[p][0]["kind"] == "data" and "base" not in logs[p][0]:
                first = logs[p][0]["offs"][0]
            sc["committed"][p] = rng.choice([None, None, rng.randrange(first, leo[p] + 1), max(0, first - 2), leo[p] + 3]) \
                if sc["group"] else None
        sc["offsets_max"] = rng.choice([0, 1, 2, 3, 3]) if iso == 0 else rng.choice([2, 3])
        sc["faults"] = dict(budget=rng.choice([0, 1, 2, 3]), p=0.5, apis=["ListOffsets", "OffsetFetch", "Fetch"],
                            codes_by_api=dict(LOOKUP_CODES, Fetch=FETCH_CODES),
                            kinds=["drop_before", "lose_reply", "error", "error"], slow=rng.choice([0.002, 0.01, 0.03]))
        tasks = [[["sleep", rng.choice([0, 0.0005, 0.002, 0.004, 0.008, 0.015, 0.03, 0.06, 0.1])],
                  ["seek", rng.randrange(nparts), rng.randrange(0, max(leo) + 1)]] if rng.random() < 0.6 else []]
        tasks.append(gen_ops(rng, nparts, leo, n=rng.randrange(2, 8), seeks=rng.random() < 0.5, pauses=False))
        sc["tasks"] = [t for t in tasks if t]
    else:
        sc["tasks"] = [gen_ops(rng, nparts, leo, n=rng.randrange(3, 14)) for _ in range(ntasks)]
    if cls == "late-lookup":
        # committed-offset lookups that do not start together: one partition has no leader when the others ask the
        # coordinator, and gets one while that (slow) OffsetFetch is still in flight
        sc["group"] = True
        sc["policy"] = rng.choice(["earliest", "latest", "none"])
        sc["faults"] = dict(budget=0, slow=0)
        sc["env"] = []
        while len(sc["logs"]) < 2:
            s_, e_ = gen_log(rng, "plain")
            sc["logs"].append(s_)
            leo.append(e_)
            sc["leaders"].append(rng.randrange(nnodes))
            sc["hw_lag"].append(0)
        nparts = len(sc["logs"])
        sc["committed"] = [rng.randrange(shape_first(sc["logs"][q]), leo[q] + 1) for q in range(nparts)]
        p = rng.randrange(nparts)
        sc["noleader"] = [[p, rng.choice([0.03, 0.08, 0.15])]]
        sc["slow_offset_fetch"] = rng.choice([0.1, 0.25, 0.4])
        sc["tasks"] = [gen_ops(rng, nparts, leo, n=rng.randrange(2, 6), seeks=False, pauses=False)]
    if cls == "reset-race":
        # a seek() that lands while the ListOffsets request of a position reset is in flight (fresh partition without a
        # committed offset, or after seek_to_end / seek_to_beginning): the late reset result must not override it
        sc["group"] = rng.random() < 0.5
        sc["policy"] = rng.choice(["earliest", "latest"])
        sc["faults"] = dict(budget=0, slow=rng.choice([0, 0.002]))
        sc["env"] = []
        sc["committed"] = [None] * nparts
        p = rng.randrange(nparts)
        sc["reset_race"] = dict(p=p, seek=rng.randrange(shape_first(logs[p]), leo[p] + 1), delay=rng.choice([0.01, 0.03, 0.08]),
                                at=rng.choice([0.1, 0.5, 0.9]))
        pre = [[rng.choice(["seek_end", "seek_beg"]), p]] if rng.random() < 0.4 else []
        sc["tasks"] = [pre + gen_ops(rng, nparts, leo, n=rng.randrange(2, 6), seeks=False, pauses=False)]
    if cls == "oor-race":
        # a position the broker reports out of range (stale committed offset) and a seek() that lands while that
        # report is in flight: the seek wins, the late report is for a position the consumer already left
        sc["group"] = True
        sc["policy"] = rng.choice(["earliest", "latest", "none"])
        sc["faults"] = dict(budget=0, slow=rng.choice([0, 0.002]))
        sc["env"] = []
        p = rng.randrange(nparts)
        first = shape_first(logs[p])
        sc["committed"] = [None] * nparts
        sc["committed"][p] = rng.choice([leo[p] + 3, leo[p] + 1, max(0, first - 2) if first >= 2 else leo[p] + 2])
        sc["oor_race"] = dict(p=p, seek=rng.randrange(first, leo[p] + 1), delay=rng.choice([0.01, 0.03, 0.08]),
                              at=rng.choice([0.1, 0.5, 0.9]))
        sc["tasks"] = [gen_ops(rng, nparts, leo, n=rng.randrange(2, 6), seeks=False, pauses=False)]
    if cls == "filter":
        # C08: every way of cutting the log into responses, start offsets inside transactions
        sc["cut"] = rng.choice(["one", "random", "all"])
        sc["faults"]["budget"] = 0
        sc["tasks"] = [[["seek", p, rng.randrange(0, leo[p] + 1)] for p in range(nparts) if rng.random() < 0.7]
                       + gen_ops(rng, nparts, leo, n=rng.randrange(2, 8), pauses=False)]
    return sc


def _run_one(sc):
    logging.disable(logging.CRITICAL)
    from harness import drv_consumer
    ev, info = drv_consumer.run_scenario(sc)
    return ev, {"hang": info["hang"], "exc": info["exc"]}


def run_scenarios(scs, jobs=12):
    if len(scs) < 8:
        return [_run_one(s) for s in scs]
    with mp.get_context("fork").Pool(jobs) as pool:
        return pool.map(_run_one, scs, chunksize=max(1, len(scs) // (jobs * 4)))


def classify(sc, trace, v):
    if v["accepted"] and not v["bad_l"]:
        return None
    own = {"txn": "C08", "filter": "C08", "reset": "C13", "oor-race": "C13", "late-lookup": "C13", "reset-race": "C13"}.get(sc["cls"], "C03")
    if v["bad_l"] and (v["accepted"] or v["bad_l"] <= v["reached"]):
        ev = trace[v["bad_l"] - 2] if 0 <= v["bad_l"] - 2 < len(trace) else {"e": "init"}
        prop = own if own != "C13" else "C03"
        return prop, f"{prop}:inv:{v['bad_name']}:{ev['e']}"
    ev = trace[v["reached"] - 1] if v["reached"] - 1 < len(trace) else {"e": "end"}
    e = ev["e"]
    prop = "C13" if e in C13_EVENTS else (own if own != "C13" else "C03")
    extra = ""
    if e in ("Raised", "ErrorSet", "Crash"):
        extra = ":" + str(ev.get("err", ""))
    if e == "Hang":
        extra = ":" + str(ev.get("why", ""))[:30]
    return prop, f"{prop}:reject:{e}{extra}:iso{sc['iso']}"


def conformance(rep: Report, ctx, pid: str, classes: dict[str, int]):
    rng = random.Random(ctx.seed * 104729 + int(pid[1:]))
    scs = []
    for cls, n in classes.items():
        for _ in range(n):
            scs.append(gen_scenario(rng, rng.randrange(1 << 30), cls))
    if ctx.replay:
        scs = [json.load(open(ctx.replay))["detail"]["scenario"]]
    results = run_scenarios(scs)
    traces = [r[0] for r in results]
    # a run that died before its Config event cannot be judged by the trace spec: it is
    # reported as what it is (the client could not even be started)
    for sc_, (tr_, inf_) in zip(scs, results):
        if not tr_ or tr_[0].get("e") != "Config":
            rep.violations.append(Violation(f"{pid}:reject:NoStart:{(tr_[-1].get('err') if tr_ else '')}",
                                            {"scenario": sc_, "info": inf_, "trace": tr_[-3:]}))
    keep_ = [i for i, t in enumerate(traces) if t and t[0].get("e") == "Config"]
    scs = [scs[i] for i in keep_]
    traces = [traces[i] for i in keep_]
    ver, st = tlc.validate("Trace_ConsumerFetch", "Trace_ConsumerFetch.cfg", traces,
                           shard=max(10, min(150, len(traces) // 12 + 1)), jobs=12)
    rep.traces += len(traces)
    rep.states += st
    rep.transitions += st
    counts, nontrivial = {}, 0
    for sc, tr, v in zip(scs, traces, ver):
        if any(e["e"] in ("Seek", "AwaitReset", "Pause") for e in tr[2:]) or \
                any(e["e"] == "FetchReply" and e.get("code") for e in tr):
            nontrivial += 1
        c = classify(sc, tr, v)
        if c is None:
            continue
        prop, sig = c
        counts[sig] = counts.get(sig, 0) + 1
        if prop != pid:
            # a seek overridden by a late out-of-range report violates C03 (seek takes effect) and C13 (seek wins) alike
            # (likewise any rejection that follows a seek() in the classes built around seek races)
            if not (sc["cls"] in ("oor-race", "reset-race", "reset") and pid in ("C03", "C13")
                    and any(e["e"] == "Seek" for e in tr[:v["reached"]])):
                continue
            sig = pid + sig[3:]
        k = (v["bad_l"] - 2) if (v["bad_l"] and (v["accepted"] or v["bad_l"] <= v["reached"])) else v["reached"] - 1
        rep.violations.append(Violation(sig, {"scenario": sc, "verdict": {x: v[x] for x in ("reached", "need", "bad")},
                                              "event": tr[k] if 0 <= k < len(tr) else None}))
    rep.extra.setdefault("verdict_classes", {}).update(counts)
    rep.extra["traces_with_seek_reset_pause_or_fetch_error"] = nontrivial
    rep.extra["trace_events"] = sum(len(t) for t in traces)
    # how often each event (= action of the trace spec) was exercised by the real code: an action with count 0 was never bound
    _cnt = {}
    for _t in traces:
        for _e in _t:
            _cnt[_e["e"]] = _cnt.get(_e["e"], 0) + 1
    for _k, _v in _cnt.items():
        rep.extra.setdefault("trace_action_counts", {})[_k] = rep.extra.get("trace_action_counts", {}).get(_k, 0) + _v
    rep.extra["evaluations"] = len(traces)
    rep.extra["distinct_nontrivial"] = nontrivial
    ok = [(s, t) for s, t, v in zip(scs, traces, ver) if v["accepted"]]
    if ok and not rep.samples:
        s, t = max(ok[:60], key=lambda x: len(x[1]))
        rep.samples.append({"scenario": s, "trace_prefix": t[1:30], "trace_len": len(t)})
    _binding_selftest(traces, ver)
    return scs, traces, ver


def _consumed_set(t):
    """index of a Set event whose buffer is actually read: the next event of that partition is a non-empty Take
    (a Set that is dropped again by a seek / unassign can be removed from a trace without anybody noticing)"""
    for i, e in enumerate(t):
        if e["e"] != "Set":
            continue
        for x in t[i + 1:]:
            if x.get("tp") == e.get("tp") and x["e"] in ("Take", "Del", "Seek", "Set", "AwaitReset", "ResetTo"):
                if x["e"] == "Take" and x.get("offs"):
                    return i
                break
            if x["e"] == "Clear":
                break
    return None


def _binding_selftest(traces, ver):
    base = next((t for t, v in zip(traces, ver) if v["accepted"] and not v["bad_l"]
                 and any(e["e"] == "Take" and e["offs"] for e in t) and _consumed_set(t) is not None), None)
    if base is None:
        return
    mut = []
    t1 = [dict(e) for e in base]
    i = next(i for i, e in enumerate(t1) if e["e"] == "Take" and e["offs"])
    t1[i] = dict(t1[i], pos=t1[i]["pos"] + 1)              # corrupted position
    mut.append(t1)
    t2 = [dict(e) for e in base]
    del t2[_consumed_set(t2)]                              # removed event (a buffer that is read afterwards)
    mut.append(t2)
    t3 = [dict(e) for e in base]
    i = next(i for i, e in enumerate(t3) if e["e"] == "Take" and e["offs"])
    t3[i] = dict(t3[i], offs=t3[i]["offs"][1:] + [t3[i]["offs"][0] + 100])   # wrong record delivered
    mut.append(t3)
    v, _ = tlc.validate("Trace_ConsumerFetch", "Trace_ConsumerFetch.cfg", mut, shard=10, jobs=1)
    for k, x in enumerate(v):
        if x["accepted"] and not x["bad_l"]:
            raise MachineryError(f"binding self-test: corrupted consumer trace #{k} was accepted")
