"""C14 — assignors give each subscribed partition exactly one subscribed owner, balanced.

Spec: spec/Assignors.tla.
 1. TLC model-checks the reference assignor (SpecRef): every output of the
    reference satisfies Valid / RangeBalanced / RRBalancedIfIdentical /
    StickyBalanced on the whole bounded input space (predicates satisfiable,
    algorithms as specified correct).
 2. The REAL RangePartitionAssignor / RoundRobinPartitionAssignor /
    StickyPartitionAssignor.assign() run on every input of the bounded space
    (completeness of the enumeration is checked against TLC's
    Cardinality(Inputs) and InBounds per case) and on seeded random chains of
    rebalances (sticky with and without previous-assignment user data, carried
    through the real user-data encoding); TLC evaluates every recorded
    (input, output) against the predicates (SpecTable).
"""
from __future__ import annotations

import copy
import random

from harness import assignors as A
from harness import tlc
from harness.runner import Report, Violation
from harness.tlc import MachineryError

REF_ACTIONS = ["RangeTopic", "RRNext", "StickyPlace", "StickyMove", "Finish",
               "RejoinSame", "RejoinMinus", "RejoinPlus"]

# shrunk input on which StickyPartitionAssignor.assign() does not return
# (differing subscriptions + previous assignments as user data + a new member)
NONTERM = {
    "parts": {"t0": [0, 1, 2, 3, 4, 5, 6], "t1": [7, 8, 9, 10, 11],
              "t2": [0, 1, 2, 3, 5, 7, 8, 9, 10], "t7": [3, 4, 5, 6, 7]},
    "members": {
        "m8": (["t0"], [["t0", [1, 3, 6]]]),
        "m0": (["t1", "t2"], [["t2", [1, 3, 7, 9]]]),
        "m11": (["t7", "t2"], [["t2", [10]]]),
        "m5": (["t0"], [["t0", [0, 2, 4, 5]]]),
        "m9": (["t2"], [["t2", [0, 2, 5, 8]]]),
        "m13": (["t0", "t2"], None),
    },
}


def perturb(rng: random.Random, topics, parts, subs):
    """An arbitrary next rebalance: members come and go, subscriptions and
    partition counts change (C14 claims validity/balance for any of these)."""
    parts = {t: list(p) for t, p in parts.items()}
    subs = {m: list(s) for m, s in subs.items()}
    for _ in range(rng.randint(1, 3)):
        r = rng.random()
        if r < 0.25 and len(subs) > 1:
            del subs[rng.choice(sorted(subs))]
        elif r < 0.5 and len(subs) < 12:
            subs[A.fresh_member(rng, subs)] = rng.sample(topics, rng.randint(1, len(topics)))
        elif r < 0.7:
            m = rng.choice(sorted(subs))
            subs[m] = rng.sample(topics, rng.randint(1, len(topics)))
        elif r < 0.9:
            t = rng.choice(topics)
            n = rng.randint(0, 12)
            parts[t] = list(range(n))
        elif parts:
            del parts[rng.choice(sorted(parts))]
    items = list(subs.items())
    rng.shuffle(items)
    return parts, dict(items)


def chain_task(args):
    """Random chains: round 0 without user data, later rounds with the user data
    of the previous sticky result.  Returns verdicts for its own cases."""
    seeds, cfg, rounds, avoid = args
    cases, hangs = [], 0
    for seed in seeds:
        rng = random.Random(seed)
        small = "sticky-nontermination" in avoid and rng.random() < 0.9
        topics, parts, subs, _c = A.rand_input(rng, maxm=5 if small else 12)
        gen_mode = rng.random() < 0.5
        ud, states = None, {}
        parked, gens = {}, {}       # members that dropped out keeping their (now stale) assignor state
        for rnd in range(rng.randint(1, rounds)):
            gmap = {m: gens.get(m, rnd) for m in (ud or {})} if gen_mode else None
            case, objs = A.assign_case(topics, parts, subs, enum=False, ud=ud, states=states,
                                       gen=gmap, tag=f"chain:{seed}:{rnd}")
            cases.append(case)
            last = objs.get("stickyud") or objs.get("sticky")
            if "stickyud" in case["fail"] or last is None:
                hangs += 1
                break
            ud = {m: a.encode() for m, a in last.items()}
            gens = {m: rnd + 1 for m in ud}
            old_subs = subs
            parts, subs = perturb(rng, topics, parts, subs)
            for m in set(old_subs) - set(subs):
                parked[m] = (ud[m], rnd + 1)         # kicked out of the group (session expiry), process still alive
            if parked and rng.random() < 0.35:
                # ... and comes back one or more generations later with the user data of its LAST assignment and
                # whatever it subscribes to now (KIP-54: stale claims of an older generation lose against newer ones)
                m = rng.choice(sorted(parked))
                b, g0 = parked.pop(m)
                if m not in subs:
                    subs = dict(subs)
                    subs[m] = rng.sample(topics, rng.randint(1, len(topics)))
                    ud[m] = b
                    gens[m] = g0
    bad, st, gen = tlc.run_table("Assignors", cfg, cases, shard=4000, jobs=1, spec_dir=A.SPEC_DIR)
    ev = sum(len(c["out"]) + len(c["fail"]) for c in cases)
    return {"n": len(cases), "evals": ev, "bad": [cases[j] for j in bad], "states": st, "gen": gen,
            "samples": cases[:1], "nontrivial": sum(1 for c in cases if A.assignable(c["parts"], c["subs"])),
            "ud": sum(1 for c in cases if "stickyud" in c["out"])}


def stale_task(args):
    """Conflicting claims of different generations: after one sticky round (generation 2 user data for everybody) one or
    two members are given the user data of an OLDER generation that claims partitions now owned by others (a member
    that was away for a rebalance): the newer claim wins, the result must still be valid and balanced."""
    seeds, cfg, avoid = args
    cases = []
    for seed in seeds:
        rng = random.Random(seed)
        topics, parts, subs, _c = A.rand_input(rng, maxm=5, maxt=4, maxp=6)
        case0, objs = A.assign_case(topics, parts, subs, enum=False, kinds=("sticky",), tag=f"stale0:{seed}")
        if "sticky" not in objs or len(subs) < 2:
            continue
        raw = A.raw_of(objs["sticky"])
        ud = {m: objs["sticky"][m].encode() for m in subs}
        if rng.random() < 0.5:
            # ... or the newer generation's claims are lopsided (every topic wholly owned by ONE of its subscribers, as
            # after subscriptions changed): several rounds of moves are needed to reach the balance
            own = {m: {} for m in subs}
            for t in topics:
                cands = [m for m in sorted(subs) if t in subs[m]]
                if cands and parts.get(t):
                    own[rng.choice(cands)][t] = sorted(parts[t])
            raw = {m: [[t, ps] for t, ps in sorted(own[m].items())] for m in subs}
            ud = {m: A.encode_raw(raw[m]) for m in subs}
        gens = {m: 2 for m in subs}
        for b in rng.sample(sorted(subs), rng.randint(1, min(2, len(subs)))):
            others = [(t, p) for m in subs if m != b for t, ps in raw[m] for p in ps
                      if rng.random() < 0.8 or t in subs[b]]
            own = [(t, p) for t, ps in raw[b] for p in ps]
            claim = rng.sample(own, rng.randint(0, len(own))) + rng.sample(others, min(len(others), rng.randint(1, 3)))
            by = {}
            for t, p in claim:
                by.setdefault(t, set()).add(p)
            ud[b] = A.encode_raw([[t, sorted(ps)] for t, ps in sorted(by.items())])
            gens[b] = 1
        case, _ = A.assign_case(topics, parts, subs, enum=False, kinds=(), ud=ud, gen=gens, tag=f"stale:{seed}")
        cases.append(case)
    bad, st, gen = tlc.run_table("Assignors", cfg, cases, shard=4000, jobs=1, spec_dir=A.SPEC_DIR)
    return {"n": len(cases), "evals": sum(len(c["out"]) + len(c["fail"]) for c in cases), "bad": [cases[j] for j in bad],
            "states": st, "gen": gen, "samples": cases[:1],
            "nontrivial": sum(1 for c in cases if A.assignable(c["parts"], c["subs"])),
            "ud": sum(1 for c in cases if "stickyud" in c["out"])}


def chain3_task(args):
    """Bounded-exhaustive family for the sticky balancing loop: three members whose subscriptions overlap in a chain
    (A{x,y}, B{y,z}, D{x}), every size of x, y, z in a small range, every lopsided ownership reported by the newer
    generation, and one member whose user data is a generation behind and claims 1..2 partitions now owned by a
    neighbour.  Moves enable further moves here (give back to the previous owner, THEN rebalance the neighbour)."""
    combos, cfg = args
    cases = []
    for nx, ny, nz, ox, oy, stale, j in combos:
        parts = {"x": list(range(nx)), "y": list(range(ny))}
        if nz:
            parts["z"] = list(range(nz))
        topics = sorted(parts)
        subs = {"A": ["x", "y"], "B": ["y", "z"] if nz else ["y"], "D": ["x"]}
        own = {"A": {}, "B": {}, "D": {}}
        own[ox]["x"] = parts["x"]
        own[oy]["y"] = parts["y"]
        if nz:
            own["B"]["z"] = parts["z"]
        gens = {"A": 2, "B": 2, "D": 2}
        raw = {m: [[t, ps] for t, ps in sorted(own[m].items())] for m in subs}
        # the stale member claims the first j partitions of a topic it subscribes to and somebody else owns now
        tgt = next((t for t in subs[stale] if t in parts and t not in own[stale]), None)
        if tgt is None:
            continue
        mine = [[t, ps] for t, ps in raw[stale]]
        raw_stale = sorted(mine + [[tgt, parts[tgt][:j]]])
        ud = {m: A.encode_raw(raw[m]) for m in subs}
        ud[stale] = A.encode_raw(raw_stale)
        gens[stale] = 1
        case, _ = A.assign_case(topics, parts, subs, enum=False, kinds=(), ud=ud, gen=gens,
                                tag=f"chain3:{nx},{ny},{nz},{ox},{oy},{stale},{j}")
        cases.append(case)
    bad, st, gen = tlc.run_table("Assignors", cfg, cases, shard=4000, jobs=1, spec_dir=A.SPEC_DIR)
    return {"n": len(cases), "evals": sum(len(c["out"]) + len(c["fail"]) for c in cases), "bad": [cases[k] for k in bad],
            "states": st, "gen": gen, "samples": cases[:1], "nontrivial": len(cases),
            "ud": sum(1 for c in cases if "stickyud" in c["out"])}


def chain3_combos(quick):
    mx = 6 if quick else 9
    out = [(nx, ny, nz, ox, oy, stale, j)
           for nx in range(1, mx + 1) for ny in range(1, mx) for nz in range(0, 3)
           for ox in ("D", "A") for oy in ("A", "B") for stale in ("A", "B", "D") for j in (1, 2)]
    return out


def trigger_task(cfg):
    """Dedicated class: the known non-terminating input, on purpose."""
    subs = {m: s for m, (s, _p) in NONTERM["members"].items()}
    ud = {m: A.encode_raw(p) for m, (_s, p) in NONTERM["members"].items() if p is not None}
    topics = sorted(NONTERM["parts"])
    case, _ = A.assign_case(topics, NONTERM["parts"], subs, enum=False, kinds=(), ud=ud,
                            tag="trigger:sticky-nontermination")
    bad, st, gen = tlc.run_table("Assignors", cfg, [case], shard=1, jobs=1, spec_dir=A.SPEC_DIR)
    return {"n": 1, "evals": 1, "bad": [case] if bad else [], "states": st, "gen": gen,
            "samples": [], "nontrivial": 1, "ud": 1}


def _task(a):
    kind, payload = a
    if kind == "enum":
        return A.c14_enum_task(payload)
    if kind == "chain":
        return chain_task(payload)
    if kind == "stale":
        return stale_task(payload)
    if kind == "chain3":
        return chain3_task(payload)
    return trigger_task(payload)


def self_test(cfg, good):
    """Binding self-test: corrupt one recorded field of an accepted case; TLC must
    reject each corruption, and for the clause that was broken."""
    muts = []

    def mut(clause, k, fn):
        c = copy.deepcopy(good)
        fn(c)
        c["enum"] = 0
        muts.append((c, (k, clause)))

    owner = next(m for m, a in good["out"]["sticky"].items() if a and a[0][1])
    other = next(m for m in good["subs"] if m != owner)
    t0, p0 = good["out"]["sticky"][owner][0][0], good["out"]["sticky"][owner][0][1][0]
    mut("unowned-partition", "sticky", lambda c: c["out"]["sticky"][owner][0][1].remove(p0))
    mut("multiple-owners", "sticky", lambda c: c["out"]["sticky"][other].append([t0, [p0]]))
    mut("duplicate-entry", "sticky", lambda c: c["out"]["sticky"][owner].append([t0, [p0]]))
    mut("unknown-partition", "roundrobin", lambda c: c["out"]["roundrobin"][owner].append([t0, [99]]))
    mut("members", "sticky", lambda c: c["out"]["sticky"].pop(other))
    mut("no-result", "range", lambda c: (c["fail"].update(range="timeout"), c["out"].pop("range")))
    named = A.name_clauses(cfg, [m[0] for m in muts], pairs=sorted({m[1] for m in muts}))
    for (c, want), got in zip(muts, named):
        if want not in got:
            raise MachineryError(f"binding self-test: corruption {want} not rejected as such (got {got})")
    return len(muts)


def signature(k, clause, case):
    if clause == "no-result":
        why = case["fail"].get(k, "?")
        return f"C14:{k}:nontermination" if why == "timeout" else f"C14:{k}:{why}"
    if k == "input":
        return "C14:harness:input-out-of-bounds"
    return f"C14:{k}:{clause}"


def run(ctx) -> Report:
    A.classes()
    rep = Report()
    quick = ctx.quick
    avoid = A.load_avoid("C14")
    cfg = "Table_Assignors_q.cfg" if quick else "Table_Assignors_t.cfg"
    bounds = (3, 2, 3) if quick else (4, 3, 4)

    # 1. the reference assignor
    mcfg = "MC_Assignors.cfg" if quick else "MCL_Assignors.cfg"
    res = tlc.mc("Assignors", mcfg, workers=6, timeout=1500, spec_dir=A.SPEC_DIR)
    if res.get("violated") or not res["ok"]:
        raise MachineryError(f"reference assignor violates the spec's own property {res.get('violated')}:\n"
                             + tlc.counterexample(res["output"]))
    rep.add_mc(f"Assignors reference ({mcfg})", res, need_actions=REF_ACTIONS)

    # 2. the bounded space, every input, all three real assignors
    want = A.card(cfg)
    tasks = [("enum", (bl, quick, cfg, 4000)) for bl in
             A.chunk_blocks(A.blocks(*bounds), 400 if quick else 16000)]
    # 3. seeded random chains (sticky with and without user data)
    nchains = 600 if quick else 12000
    per = 100 if quick else 500
    seeds = [ctx.seed * 1_000_003 + j for j in range(nchains)]
    tasks += [("chain", (seeds[o:o + per], cfg, 5, sorted(avoid))) for o in range(0, nchains, per)]
    nstale = 1400 if quick else 30000
    pers = max(50, nstale // 28)
    tasks += [("stale", (list(range(10**6 + o, 10**6 + min(o + pers, nstale))), cfg, sorted(avoid))) for o in range(0, nstale, pers)]
    c3 = chain3_combos(quick)
    tasks += [("chain3", (c3[o:o + 300], cfg)) for o in range(0, len(c3), 300)]
    tasks += [("trigger", cfg)]
    results = A.pool_map(_task, tasks, procs=10)

    keys, n_enum, bad, table_states = set(), 0, [], 0
    for (kind, _p), r in zip(tasks, results):
        if kind == "enum":
            keys.update(r["keys"])
            n_enum += r["n"]
        bad += r["bad"]
        table_states += r["states"]
        rep.transitions += r["gen"]
        rep.traces += r["evals"]
    rep.states += table_states
    if not (len(keys) == n_enum == want):
        raise MachineryError(f"enumeration incomplete: TLC Cardinality(Inputs)={want}, "
                             f"recorded {n_enum} cases, {len(keys)} distinct inputs")
    ncases = sum(r["n"] for r in results)
    rep.mc_runs.append({"name": f"Assignors table ({cfg})", "cases": ncases, "distinct": table_states,
                        "shards": len(tasks)})

    # 4. binding self-test
    good = next(c for r in results for c in r["samples"]
                if c["enum"] and len(c["subs"]) >= 2 and not c["fail"]
                and any(a and a[0][1] for a in c["out"]["sticky"].values()))
    nmut = self_test(cfg, good)

    # 5. verdicts
    named = A.name_clauses(cfg, bad)
    for c, cl in zip(bad, named):
        for k, clause in cl:
            rep.violations.append(Violation(signature(k, clause, c), {"case": c, "clause": [k, clause]}))

    rep.samples = [r["samples"][0] for r in results if r["samples"]][:2] + \
                  [r["samples"][0] for (k, _p), r in zip(tasks, results) if k == "chain" and r["samples"]][:2]
    rep.extra.update(
        evaluations=rep.traces,
        cases=ncases,
        distinct_inputs_enumerated=len(keys),
        tlc_cardinality_inputs=want,
        distinct_nontrivial=sum(r["nontrivial"] for r in results),
        random_chains=nchains,
        sticky_runs_with_user_data=sum(r.get("ud", 0) for r in results) + (n_enum if quick else 0),
        rejected_cases=len(bad),
        self_test_corruptions_rejected=nmut,
        bounds={"members": bounds[0], "topics": bounds[1], "partitions": f"none,0..{bounds[2]}",
                "random": "<=12 members, <=8 topics, <=12 partitions, chains <=5 rebalances"},
        rule="one case per input of the bounded space (all non-empty subscriptions per member) x "
             "{range, roundrobin, sticky" + (", sticky with own previous result as user data" if quick else "")
             + "}; random chains: each rebalance of a chain is one input, sticky run without and with the "
             "previous round's user data; nontrivial = at least one partition to assign",
        exhaustive=True,
        exhaustive_note="enumerated part complete (count == TLC Cardinality(Inputs), each case InBounds); "
                        "random part sampled",
        avoid=sorted(avoid),
    )
    rep.assumptions = [
        "cluster is a stand-in exposing topics()/partitions_for_topic() like ClusterMetadata",
        "a call to assign() that does not return within 4 s and again within 16 s is recorded as non-terminating",
        "member ids / topic order: canonical in the enumerated part, shuffled in the random part",
    ]
    return rep
