"""Shared machinery of C04 / C05 / C06: model checking of GroupMembership, scenario
generation for group runs, execution of real group members, TLC trace validation."""
from __future__ import annotations

import os
import json
import logging
import multiprocessing as mp
import random
from concurrent.futures import ThreadPoolExecutor

from harness import tlc
from harness.runner import Report, Violation
from harness.tlc import MachineryError

EVENT_PROP = {"JoinRequest": {"C06"}, "SyncRequest": {"C06"}, "End": {"C06"}, "EndDelivery": {"C04"},
              "Adopt": {"C05"}, "AssignStart": {"C05"}, "AssignEnd": {"C05"}, "RevokeStart": {"C05"},
              "Take": {"C04", "C05"}, "ResetTo": {"C04"}, "OffsetCommitReply": {"C04"}}
INV_PROP = {"DisjointWithinGeneration": {"C05"}, "CommittedWasDelivered": {"C04"}}

MC_TMPL = """SPECIFICATION {spec}
CONSTANTS
  Members = {members}
  Parts = {parts}
  LogLen = {loglen}
  MaxGen = {maxgen}
  MaxCrash = {maxcrash}
{props}
CHECK_DEADLOCK FALSE
"""
INVS = ["AdoptedIsDistributed", "DisjointWithinGeneration", "RevokeBeforeAssign", "CommitBehindDelivery",
        "NoDeliveryBelowStart", "CommittedWasDelivered"]


def _cfg(name, *, members="{m1, m2}", parts="{p1, p2}", loglen=2, maxgen=2, maxcrash=1, live=None):
    if live:
        props = f"PROPERTY {live}"
        spec = "LiveSpec"
    else:
        props = "\n".join(f"INVARIANT {i}" for i in INVS) + "\nSYMMETRY Sym"
        spec = "Spec"
    p = tlc.SPEC / f"_gen_group_{name}_{os.getpid()}.cfg"
    p.write_text(MC_TMPL.format(spec=spec, members=members, parts=parts, loglen=loglen, maxgen=maxgen,
                                maxcrash=maxcrash, props=props))
    return p.name


def run_mc(rep: Report, ctx, which: str):
    if ctx.quick:
        cfgs = [("g2l2", dict(maxgen=2, loglen=2, maxcrash=1)),
                ("g3l1", dict(maxgen=3, loglen=1, maxcrash=1))]
        if which == "C06":
            cfgs.append(("live_conv", dict(parts="{p1}", loglen=1, maxgen=3, maxcrash=1, live="Converges")))
        if which == "C04":
            cfgs.append(("live_alo", dict(parts="{p1}", loglen=1, maxgen=3, maxcrash=1, live="AtLeastOnce")))
    else:
        cfgs = [("g3l2", dict(maxgen=3, loglen=2, maxcrash=1)),
                ("g2l2c2", dict(maxgen=2, loglen=2, maxcrash=2)),
                ("m3", dict(members="{m1, m2, m3}", parts="{p1, p2}", loglen=1, maxgen=2, maxcrash=1)),
                ("live_conv", dict(parts="{p1}", loglen=1, maxgen=3, maxcrash=1, live="Converges")),
                ("live_alo", dict(parts="{p1}", loglen=1, maxgen=3, maxcrash=1, live="AtLeastOnce"))]
    need = ["AStart", "ADeliver", "ACommit", "AJoinPrepare", "ASendJoin", "ACompleteJoin", "ARecvJoin", "ASendSync",
            "ARecvSync", "ASyncFails", "AHeartbeat", "AEvict", "ACrash", "ARestart"]

    def one(item):
        name, kw = item
        r = tlc.mc("MC_GroupMembership", _cfg(name, **kw), workers=7, timeout=3000, coverage=not kw.get("live"), heap="7g")
        return name, kw, r

    with ThreadPoolExecutor(max_workers=2) as ex:
        results = list(ex.map(one, cfgs))
    for name, kw, r in results:
        if r.get("violated") or r.get("timed_out"):
            raise MachineryError(f"MC_GroupMembership/{name}: {r.get('violated')} timed_out={r.get('timed_out')}\n"
                                 + tlc.counterexample(r["output"], 3000))
        rep.add_mc(f"MC_GroupMembership/{name}", r, need_actions=None if kw.get("live") else need)
    for p in tlc.SPEC.glob(f"_gen_group_*_{os.getpid()}.cfg"):
        p.unlink()


# ---------------------------------------------------------------------------
# scenarios
GROUP_CODES = {"JoinGroup": [14, 15, 16, 25], "SyncGroup": [15, 16, 22, 25, 27], "Heartbeat": [15, 16, 22, 25, 27],
               "OffsetCommit": [14, 15, 16, 22, 25, 27, 7], "FindCoordinator": [15], "OffsetFetch": [14, 16]}


def gen_scenario(rng: random.Random, seed: int, cls: str) -> dict:
    nm = rng.choice([1, 2, 2, 3, 3, 4])
    two_topics = cls == "subs" or rng.random() < 0.25
    topics = {"t": rng.choice([1, 2, 3, 4])}
    if two_topics:
        topics["u"] = rng.choice([1, 2, 3])
    pool = rng.sample(["roundrobin", "range", "sticky"], rng.choice([1, 1, 2, 3]))
    dur = rng.choice([2.0, 3.0, 4.5])
    members = []
    for i in range(nm):
        a = list(pool)
        rng.shuffle(a)
        m = dict(start=round(rng.choice([0, 0, rng.random() * 0.4, rng.random() * dur * 0.8]), 3), subs=["t"],
                 assignors=a, auto_commit=rng.random() < 0.8, commit_interval_ms=rng.choice([300, 700, 1500]),
                 listener_sleep=rng.choice([0, 0, 0.02, 0.15]), mode=rng.choice(["getmany", "getmany", "getone"]),
                 max_poll_records=rng.choice([None, None, 1, 2]))
        if not m["auto_commit"] or rng.random() < 0.3:
            m["explicit_commit_every"] = rng.choice([1, 2, 3])
        if two_topics:
            m["subs"] = rng.choice([["t"], ["t", "u"], ["u"], ["t", "u"]])
        members.append(m)
    sc = dict(cls=cls, seed=seed, topics=topics, loglen=rng.choice([2, 4, 8]), nnodes=rng.choice([1, 2, 3]),
              join_max=rng.choice([0, 1, 2, 5, 5]), duration=dur, members=members, faults=dict(budget=0))
    if cls in ("churn", "faults", "subs", "live", "syncfault", "latelookup", "grow", "slowrevoke", "joinauth", "txnlog"):
        for m in members:
            r = rng.random()
            if r < 0.30:
                m["end"] = ["kill", round(m["start"] + 0.3 + rng.random() * dur * 0.7, 3)]
            elif r < 0.55:
                m["end"] = ["stop", round(m["start"] + 0.3 + rng.random() * dur * 0.7, 3)]
        if all(m.get("end") for m in members):
            members[0].pop("end")
    if cls == "faults":
        sc["faults"] = dict(budget=rng.choice([1, 2, 3, 4]), p=rng.choice([0.1, 0.25]),
                            apis=["JoinGroup", "SyncGroup", "Heartbeat", "OffsetCommit", "FindCoordinator", "OffsetFetch"],
                            codes_by_api=GROUP_CODES, kinds=["error", "error", "drop_before", "drop_after", "lose_reply"],
                            slow=rng.choice([0, 0.005, 0.03]))
        if sc["nnodes"] > 1 and rng.random() < 0.4:
            sc["failover"] = [round(0.3 + rng.random() * dur * 0.7, 3), rng.randrange(sc["nnodes"]), rng.random() < 0.5]
    if cls == "txnlog":
        # logs written by transactional producers (committed and aborted transactions of the same producers, markers),
        # read_committed members: positions and commits step over markers / aborted records and over nothing else
        sc["txnlog"] = True
    if cls == "live":
        # records keep arriving while members come and go: a getmany() parked before a rebalance began must stay
        # silent until the new assignment is in (C05), nothing is lost or skipped across the hand-over (C04)
        for m in members:
            m["mode"] = "getmany"
            m["listener_sleep"] = rng.choice([0.05, 0.15, 0.3])
        sc["appends"] = [[round(0.2 + rng.random() * dur, 3), "t", rng.randrange(topics["t"]), rng.randrange(1, 3)]
                         for _ in range(rng.randrange(6, 16))]
    if cls == "slowrevoke":
        # one member's on_partitions_revoked takes longer than ITS rebalance timeout (the group's effective timeout, the
        # largest of the members', is longer): it must still finish before that member rejoins
        k = rng.randrange(len(members))
        members[k]["rebalance_timeout_ms"] = rng.choice([300, 500])
        members[k]["listener_sleep"] = rng.choice([0.7, 1.1])
        members[k]["start"] = 0
        if len(members) == 1:
            members.append(dict(members[0], start=round(0.4 + rng.random() * 0.5, 3), listener_sleep=0, rebalance_timeout_ms=3000))
        else:
            for j, m in enumerate(members):
                if j != k:
                    m["start"] = max(m["start"], 0.4)
        for m in members:
            if m.get("end") and m["end"][1] < m["start"] + 0.3:
                m["end"][1] = round(m["start"] + 0.3 + rng.random() * dur * 0.6, 3)
    if cls == "joinauth":
        # the coordinator answers one JoinGroup of a re-joining member with GROUP_AUTHORIZATION_FAILED while records are
        # buffered and a getone() is parked at the rebalance gate: the error is raised, nothing of the old assignment comes out
        for m in members:
            m["mode"] = "getone"
            m["listener_sleep"] = rng.choice([0.05, 0.2])
        sc["appends"] = [[round(0.2 + rng.random() * dur, 3), "t", rng.randrange(topics["t"]), rng.randrange(1, 4)]
                         for _ in range(rng.randrange(8, 18))]
        sc["faults"] = dict(budget=0, script=[["JoinGroup", rng.randrange(2, 7), "error", 30]], slow=rng.choice([0, 0.005]))
    if cls == "syncfault":
        # the coordinator moves / is unavailable exactly at a SyncGroup of a member that already held an assignment
        sc["faults"] = dict(budget=0, script=[["SyncGroup", rng.randrange(2, 6), "error", rng.choice([15, 16])]],
                            slow=rng.choice([0, 0.005]))
    if cls == "grow":
        # the subscribed topic gains a partition at a random instant (also while a JoinGroup / SyncGroup is in flight):
        # the group must end up owning it
        sc["faults"] = dict(budget=0, slow=rng.choice([0.01, 0.03, 0.06]))
        sc["metadata_max_age_ms"] = rng.choice([300, 700])
        if rng.random() < 0.5:
            sc["grow"] = [[round(0.05 + rng.random() * 1.2, 3), "t"]]
        else:
            sc["grow_at_sync"] = [rng.choice([1, 1, 2]), "t", 0.5]
            sc["metadata_max_age_ms"] = 300
    if cls == "latelookup":
        # committed-offset lookups that do not start together (one partition gets its leader while the others'
        # OffsetFetch is still in flight): the late one must still start from the committed offset
        sc["nnodes"] = max(2, sc["nnodes"])
        sc["slow_offset_fetch"] = rng.choice([0.15, 0.3])
        sc["noleader"] = [["t", rng.randrange(topics["t"]), rng.choice([0.05, 0.1, 0.2])]]
        for m in members:
            m["start"] = 0
            m["explicit_commit_every"] = 1
    if cls == "subs":
        for m in members:
            if rng.random() < 0.4:
                m["resub"] = [round(m["start"] + 0.2 + rng.random() * dur * 0.6, 3), rng.choice([["t"], ["u"], ["t", "u"]])]
    return sc


def _run_one(sc):
    logging.disable(logging.CRITICAL)
    from harness import drv_group
    ev, info = drv_group.run_scenario(sc)
    return ev, {"hang": info["hang"], "exc": info["exc"]}


def run_scenarios(scs, jobs=12):
    if len(scs) < 8:
        return [_run_one(s) for s in scs]
    with mp.get_context("fork").Pool(jobs) as pool:
        return pool.map(_run_one, scs, chunksize=max(1, len(scs) // (jobs * 4)))


def classify(sc, trace, v):
    """-> (set of properties, signature suffix) or None"""
    if v["accepted"] and not v["bad_l"]:
        return None
    if v["bad_l"] and (v["accepted"] or v["bad_l"] <= v["reached"]):
        ev = trace[v["bad_l"] - 2] if 0 <= v["bad_l"] - 2 < len(trace) else {"e": "init"}
        return INV_PROP.get(v["bad_name"], {"C04", "C05", "C06"}), f"inv:{v['bad_name']}:{ev['e']}"
    ev = trace[v["reached"] - 1] if v["reached"] - 1 < len(trace) else {"e": "end"}
    e = ev["e"]
    props = EVENT_PROP.get(e, {"C04", "C05", "C06"})
    extra = ""
    if e == "JoinRequest":
        # the guard of JoinRequest carries clauses of two properties: tell them apart by the history --
        # the member's on_partitions_revoked has begun and not ended => C05 (revoke finishes before the rejoin)
        c = ev.get("c")
        k = v["reached"] - 1
        starts = [i for i, x in enumerate(trace[:k]) if x["e"] == "RevokeStart" and x.get("c") == c]
        ends = [i for i, x in enumerate(trace[:k]) if x["e"] == "RevokeEnd" and x.get("c") == c]
        if starts and (not ends or ends[-1] < starts[-1]):
            props, extra = {"C05"}, ":revoke-callback-still-running"
    if e in ("Hang", "Crash"):
        extra = ":" + str(ev.get("why", ev.get("err", "")))[:40]
    return props, f"reject:{e}{extra}"


def conformance(rep: Report, ctx, pid: str, classes: dict[str, int]):
    rng = random.Random(ctx.seed * 7907 + int(pid[1:]))
    scs = []
    for cls, n in classes.items():
        for _ in range(n):
            scs.append(gen_scenario(rng, rng.randrange(1 << 30), cls))
    if ctx.replay:
        scs = [json.load(open(ctx.replay))["detail"]["scenario"]]
    results = run_scenarios(scs)
    traces = [r[0] for r in results]
    for sc_, (tr_, inf_) in zip(scs, results):
        if not tr_ or tr_[0].get("e") != "Config":
            rep.violations.append(Violation(f"{pid}:reject:NoStart", {"scenario": sc_, "info": inf_}))
    keep_ = [i for i, t in enumerate(traces) if t and t[0].get("e") == "Config"]
    scs = [scs[i] for i in keep_]
    traces = [traces[i] for i in keep_]
    ver, st = tlc.validate("Trace_Group", "Trace_Group.cfg", traces,
                           shard=max(6, min(60, len(traces) // 12 + 1)), jobs=12)
    rep.traces += len(traces)
    rep.states += st
    rep.transitions += st
    counts, nontrivial = {}, 0
    for sc, tr, v in zip(scs, traces, ver):
        gens = max([e.get("gen", 0) for e in tr if e["e"] == "GroupState"] or [0])
        if gens >= 3:
            nontrivial += 1
        c = classify(sc, tr, v)
        if c is None:
            continue
        props, sig = c
        for p in sorted(props):
            counts[f"{p}:{sig}"] = counts.get(f"{p}:{sig}", 0) + 1
        if pid not in props:
            continue
        k = (v["bad_l"] - 2) if (v["bad_l"] and (v["accepted"] or v["bad_l"] <= v["reached"])) else v["reached"] - 1
        rep.violations.append(Violation(f"{pid}:{sig}", {"scenario": sc, "verdict": {x: v[x] for x in ("reached", "need", "bad")},
                                                         "event": tr[k] if 0 <= k < len(tr) else None}))
    rep.extra.setdefault("verdict_classes", {}).update(counts)
    rep.extra["traces_with_3plus_generations"] = nontrivial
    rep.extra["trace_events"] = sum(len(t) for t in traces)
    # how often each event (= action of the trace spec) was exercised by the real code: an action with count 0 was never bound
    _cnt = {}
    for _t in traces:
        for _e in _t:
            _cnt[_e["e"]] = _cnt.get(_e["e"], 0) + 1
    for _k, _v in _cnt.items():
        rep.extra.setdefault("trace_action_counts", {})[_k] = rep.extra.get("trace_action_counts", {}).get(_k, 0) + _v
    rep.extra["evaluations"] = len(traces)
    rep.extra["distinct_nontrivial"] = nontrivial
    ok = [(s, t) for s, t, v in zip(scs, traces, ver) if v["accepted"]]
    if ok and not rep.samples:
        s, t = max(ok[:40], key=lambda x: len(x[1]))
        rep.samples.append({"scenario": s, "trace_prefix": [e for e in t if e["e"] not in ("HeartbeatReply",)][1:30],
                            "trace_len": len(t)})
    _binding_selftest(traces, ver)
    return scs, traces, ver


def _binding_selftest(traces, ver):
    cands = [t for t, v in zip(traces, ver) if v["accepted"] and not v["bad_l"]
             and any(e["e"] == "Adopt" and e["tps"] for e in t) and any(e["e"] == "Take" and e["offs"] for e in t)]
    cands.sort(key=lambda t: any(e["e"] in ("Fault", "SubChange", "GroupFailover") for e in t))
    base = cands[0] if cands else None
    if base is None:
        return
    mut = []
    t1 = [dict(e) for e in base]
    i = next(i for i, e in enumerate(t1) if e["e"] == "Adopt" and e["tps"])
    t1[i] = dict(t1[i], tps=t1[i]["tps"][:-1])                       # adopted less than distributed
    mut.append(t1)
    # a second JoinGroup right after a successful JoinGroup reply (instead of the SyncGroup)
    if not any(e["e"] in ("Fault", "SubChange", "GroupFailover") for e in base):
        t2 = [dict(e) for e in base]
        i = next((i for i, e in enumerate(t2) if e["e"] == "JoinReply" and e["code"] == 0), None)
        if i is not None:
            jr = next(e for e in reversed(t2[:i]) if e["e"] == "JoinRequest" and e["c"] == t2[i]["c"])
            t2.insert(i + 1, dict(jr, member=t2[i]["member"]))
            mut.append(t2)
    t3 = [dict(e) for e in base]
    i = next(i for i, e in enumerate(t3) if e["e"] == "Take" and e["offs"])
    t3[i] = dict(t3[i], offs=[o + 1 for o in t3[i]["offs"]])          # a record skipped
    mut.append(t3)
    v, _ = tlc.validate("Trace_Group", "Trace_Group.cfg", mut, shard=10, jobs=1)
    for k, x in enumerate(v):
        if x["accepted"] and not x["bad_l"]:
            raise MachineryError(f"binding self-test: corrupted group trace #{k} was accepted")
