"""C02 — every send future resolves once, with the record's true coordinates.

Same spec as C01 (ProducerCore); this check reports the resolution half:
ResolvedAtMostOnce, TrueCoordinates, Acks0NoMetadata, IdemNeverFails, flush/stop
coverage, and bounded-time resolution after faults cease (liveness in the model,
quiet-period check on traces)."""
from harness.runner import Report

from . import _producer as P


def run(ctx) -> Report:
    rep = Report()
    if not ctx.replay:
        P.run_mc(rep, ctx, "C02")
    n = 1 if ctx.quick else 12
    classes = {"idem": 160 * n, "idem-long": 40 * n, "plain": 120 * n, "acks0": 80 * n, "versions": 120 * n, "flush": 80 * n, "idem-noleader": 40 * n, "plain-noleader": 40 * n, "acks0-cancel": 40 * n, "plain-cancel": 40 * n, "idem-cancel": 30 * n,
               "stop": 80 * n}
    P.conformance(rep, ctx, "C02", classes)
    rep.extra.update(
        bounds="as C01; plus acks in {0,1,all}, CreateTime/LogAppendTime partitions, Produce v0..v7 brokers, "
               "explicit increasing/decreasing/equal/default timestamps within a batch, flush()/stop() at a random point",
        rule="one trace per generated scenario (seeded); non-trivial = trace contains a fault, retry or rejection")
    rep.assumptions = ["as C01", "bounded time = quiet period of 4*request_timeout + 20*retry_backoff virtual seconds after the last send"]
    return rep
