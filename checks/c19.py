"""C19 — stop() always terminates and leaves nothing running.

Specs: spec/Lifecycle.tla (the close sequences of consumer / producer as actions; TLC: NothingLeft,
StopReturnsNormally, BoundedWaits, ClosedInOrder, LeftIfReachable, StaticStays and the liveness
property StopTerminates from every configuration; the three defects found are expressible as
constant switches and TLC is required to show them failing) and spec/Trace_Lifecycle.tla, which
validates runs of the REAL clients in which stop() is issued at every instant of a workload."""
import random

from harness.runner import Report

from . import _life as L


def run(ctx) -> Report:
    rep = Report()
    if not ctx.replay:
        L.run_mc(rep, ctx)
    rng = random.Random(ctx.seed * 7907 + 19)
    if ctx.quick:
        scs, npoints = L.gen_scenarios(rng, per_workload=14, every=False)
    else:
        scs, npoints = L.gen_scenarios(rng, per_workload=0, every=True)
    L.conformance(rep, ctx, scs)
    rep.extra.update(
        stopping_points_per_workload=npoints,
        bounds="workloads: group consumer (dynamic / static member / auto-commit off, a second member joining mid-run), group-less consumer "
               "(with and without group id), producer (plain / idempotent / transactional, 1-2 sending tasks); 2 nodes x 2 partitions; "
               "stop() issued at " + ("14 sampled" if ctx.quick else "EVERY") + " loop iteration(s) of the first 0.9-1.3 s of the run "
               "(every network message delivery and every timer firing is one iteration) x cluster condition applied 0-200 ms before: healthy, "
               "node 0/1 down (connections reset), node 0/1 black-holed (connections stay open, nothing answered), all down, all black-holed, "
               "group/transaction coordinator fail-over with and without group state; bound = 2 x request + session + rebalance timeout + 1 s",
        rule="one trace per (workload, stopping point, condition); non-trivial = the cluster was not healthy at the stop")
    rep.assumptions = ["live tasks / timers / connections are measured on the simulation loop (harness/simloop.py) by owner attribution "
                       "(context variable inherited by everything the client creates); timers on which the driver's own workload tasks sleep are excluded",
                       "'could reach its coordinator' = the node the consumer takes for its coordinator is the coordinator, up and answering at stop()",
                       "after stop() returns the loop runs 10 iterations before the NothingLeft measurement (cancelled tasks unwind)"]
    return rep
