"""C08 — isolation filter: no aborted, no unstable, no control records delivered.

Specs: spec/IsolationFilter.tla (the step-by-step filter of PartitionRecords._unpack_records
proved equal to the declarative visibility of ConsumerFetch on every log/cut of the bounded
family, and replayed case by case into the real PartitionRecords) and spec/ConsumerFetch.tla
(end-to-end: the real consumer on transactional logs, both isolation levels)."""
from harness.runner import Report

from . import _consumer as P
from . import _isolation as I


def run(ctx) -> Report:
    rep = Report()
    if not ctx.replay:
        P.run_mc(rep, ctx, "C08")
        I.run(rep, ctx)
    n = 1 if ctx.quick else 12
    P.conformance(rep, ctx, "C08", {"filter": 500 * n, "txn": 300 * n})
    rep.extra.update(
        bounds="IsolationFilter: logs of <=5 (quick) / <=6 (thorough) batches from 2-3 producers (plain, transactional data, commit/abort "
               "markers, solitary markers, compaction holes), every start offset and every end cut, aborted index as a broker "
               "returns it for the range; end-to-end traces: 1-3 partitions, <=4 producers, responses cut at one batch / "
               "random / all, start offsets inside transactions via seek, both isolation levels, unstable tail",
        rule="IsolationFilter cases are enumerated exhaustively by TLC and each is replayed into the real PartitionRecords; "
             "end-to-end: one trace per scenario")
    rep.assumptions = ["as C03", "CRC-32C of generated batches computed by harness/kbatch.py"]
    return rep
