"""Shared machinery of C19: model checking of Lifecycle, stop()-at-every-instant scenario generation,
execution on the simulated cluster, TLC trace validation."""
from __future__ import annotations

import json
import logging
import multiprocessing as mp
import os
import random

from harness import tlc
from harness.runner import Report, Violation
from harness.tlc import MachineryError

CONDS = [["healthy"], ["down", 0], ["down", 1], ["blackhole", 0], ["blackhole", 1], ["failover", 1, 1], ["failover", 1, 0],
         ["alldown"], ["allblack"]]
WORKLOADS = ["group", "group-static", "group-noauto", "group-follower", "group-badassign", "assign", "assign-group", "producer", "idem", "txn"]
CFG = {"group": "consumer", "group-static": "static", "group-noauto": "consumer", "group-follower": "consumer", "group-badassign": "consumer", "assign": "assign", "assign-group": "consumer",
       "producer": "producer", "idem": "producer", "txn": "producer"}


def run_mc(rep: Report, ctx):
    variants = [("consumer", "ConsumerComps", "TRUE", "FALSE", "TRUE", "TRUE", "TRUE", None),
                ("consumer-static-noauto", "ConsumerComps", "FALSE", "TRUE", "TRUE", "TRUE", "TRUE", None),
                ("assign", "ConsumerComps", "FALSE", "FALSE", "TRUE", "TRUE", "TRUE", None),
                ("producer", "ProducerComps", "FALSE", "FALSE", "TRUE", "TRUE", "TRUE", None),
                # regressions the model must be able to express (non-vacuity): the three defects found by this check
                ("regress-commit-spins", "ConsumerComps", "TRUE", "FALSE", "TRUE", "FALSE", "TRUE", "StopTerminates"),
                ("regress-cancel-escapes", "ConsumerComps", "TRUE", "FALSE", "TRUE", "TRUE", "FALSE", "StopReturnsNormally"),
                ("finding-idempotent-flush", "ProducerComps", "FALSE", "FALSE", "FALSE", "TRUE", "TRUE", "StopTerminates"),
                # open finding C19-no-leave-after-connection-closed-at-stop: expressible, and LeftIfReachable fails exactly there
                ("finding-no-leave-after-connloss", "ConsumerComps", "TRUE", "FALSE", "TRUE", "TRUE", "TRUE", "LeftIfReachable")]
    for name, comps, auto, static, flush, gives, swallow, expect in variants:
        kind = "producer" if comps == "ProducerComps" else ("assign" if name == "assign" else "consumer")
        p = tlc.SPEC / f"_gen_life_{name}_{os.getpid()}.cfg"
        p.write_text(f"""SPECIFICATION LiveSpec
CONSTANTS
  Kind = "{kind}"
  Comps <- {comps}
  MaxLive = {2 if ctx.quick else 3}
  AutoCommit = {auto}
  Static = {static}
  FlushBounded = {flush}
  CommitGivesUp = {gives}
  SwallowCancel = {swallow}
  ConnLossAtClose = {"TRUE" if name == "finding-no-leave-after-connloss" else "FALSE"}
INVARIANT TypeOK
INVARIANT NothingLeft
INVARIANT StopReturnsNormally
INVARIANT BoundedWaits
INVARIANT LeftIfReachable
INVARIANT StaticStays
INVARIANT ClosedInOrder
PROPERTY StopTerminates
CHECK_DEADLOCK FALSE
""")
        try:
            r = tlc.mc("MC_Lifecycle", p.name, workers=6, timeout=900, coverage=(expect is None), heap="3g")
        finally:
            p.unlink()
        if r.get("timed_out"):
            raise MachineryError(f"MC_Lifecycle/{name} timed out")
        if expect is None:
            if r.get("violated"):
                raise MachineryError(f"MC_Lifecycle/{name}: {r.get('violated')}\n" + tlc.counterexample(r["output"], 2500))
            rep.add_mc(f"MC_Lifecycle/{name}", r, need_actions=["StopCall", "CloseComp"])
        else:
            if expect not in str(r.get("violated")):
                raise MachineryError(f"MC_Lifecycle/{name}: the model no longer shows {expect} failing for this deviation "
                                     f"(got {r.get('violated')})")
            rep.mc_runs.append({"name": f"MC_Lifecycle/{name}", "expected_violation": expect, "states": r.get("states"),
                                "distinct": r.get("distinct")})


def _run_one(sc):
    logging.disable(logging.CRITICAL)
    import warnings
    warnings.simplefilter("ignore")
    from harness import drv_life
    try:
        ev, info = drv_life.run_scenario(sc)
    except BaseException as e:  # noqa: BLE001
        return [{"e": "DriverCrash", "err": repr(e)[:200]}], {"iters": [], "hang": None, "exc": repr(e)}
    return ev, info


def _pool(scs, jobs=12):
    if len(scs) < 6:
        return [_run_one(s) for s in scs]
    with mp.get_context("fork").Pool(jobs) as pool:
        return pool.map(_run_one, scs, chunksize=max(1, len(scs) // (jobs * 8)))


def base_scenario(rng, wl):
    w = wl.split("-")[0]
    sc = dict(seed=rng.randrange(10**6), workload=w, wl=wl, nnodes=2, nparts=2, stop_at=None, baseline_len=rng.choice([0.9, 1.3]),
              other=(rng.choice([0.25, 0.5]) if w == "group" else None), linger_ms=rng.choice([0, 5, 20]))
    if wl == "group-follower":
        sc["other_first"] = True
        sc["other"] = None
    if wl == "group-badassign":
        sc["bad_assignor"] = True
        sc["other"] = 0.25
    if wl == "group-static":
        sc["static"] = True
    if wl == "group-noauto":
        sc["auto_commit"] = False
    if wl == "assign-group":
        sc["assign_group"] = True
    return sc


def gen_scenarios(rng, *, per_workload, every):
    """baseline run per workload -> the instants of EVERY loop iteration (each network message and timer firing is
    one); `every` = None: stop at every instant, else at `per_workload` sampled ones; each x every cluster condition"""
    bases = [base_scenario(rng, wl) for wl in WORKLOADS]
    res = _pool(bases)
    scs, npoints = [], {}
    for b, (ev, info) in zip(bases, res):
        its = sorted(set(info.get("iters") or []))
        if not its:
            raise MachineryError(f"C19 baseline run of workload {b['wl']} recorded no loop iteration: {ev[-2:]}")
        npoints[b["wl"]] = len(its)
        if every:
            pts = its
        else:
            # half of the sample at random instants, half within the few loop iterations that follow a step of the
            # group / transaction protocol (JoinGroup / SyncGroup / commit / EndTxn replies ...): the narrow windows
            pts = set(rng.sample(its, min(per_workload // 2, len(its))))
            near = []
            for pt in info.get("proto_times") or []:
                k = next((i for i, x in enumerate(its) if x >= pt), None)
                if k is not None:
                    near += its[k:k + 4]
            near = sorted(set(near) - pts)
            pts |= set(rng.sample(near, min(per_workload - len(pts), len(near))))
            if len(pts) < per_workload:
                rest = sorted(set(its) - pts)
                pts |= set(rng.sample(rest, min(per_workload - len(pts), len(rest))))
            pts = sorted(pts)
        for t in pts:
            for cond in CONDS:
                if cond[0] == "failover" and b["workload"] not in ("group", "assign", "txn"):
                    continue
                lead = rng.choice([0.0, 0.0, 0.02, 0.2])
                scs.append(dict(b, stop_at=t, cond=cond, lead=lead))
            # orderly closes by the broker (EOF instead of a reset), shortly before or at the stop
            scs.append(dict(b, stop_at=t, cond=rng.choice([["reap"], ["shutdown", 0], ["shutdown", 1]]),
                            lead=rng.choice([0.0, 0.001, 0.02, 0.2])))
            # conditions that need time to develop before the stop
            if b["workload"] == "txn":
                scs.append(dict(b, stop_at=t, cond=["fence"], lead=rng.choice([0.05, 0.3, 0.6])))
            if b["workload"] == "group":
                scs.append(dict(b, stop_at=t, cond=["groupauth"], lead=rng.choice([0.1, 0.4, 0.8])))
            if b["wl"] == "group-follower":
                scs.append(dict(b, stop_at=t, cond=["syncstall"], lead=rng.choice([0.6, 1.0, 1.5, 2.2])))
    return scs, npoints


UNREACH = ("down", "shutdown", "blackhole", "alldown", "allblack")


def classify(sc, trace, v):
    if v["accepted"] and not v["bad_l"]:
        return None
    wl = sc["wl"]
    if v["bad_l"] and (v["accepted"] or v["bad_l"] <= v["reached"]):
        return f"inv:{v['bad_name']}:{wl}"
    ev = trace[v["reached"] - 1] if v["reached"] - 1 < len(trace) else {"e": "end"}
    e = ev["e"]
    extra = ""
    if e == "StopReturn":
        extra = ":" + ("late" if ev.get("ok") else str(ev.get("err")))
        # open finding: the flush of an idempotent / transactional producer has no time bound while leaders are unreachable
        if ev.get("err") == "Hang" and sc["workload"] in ("idem", "txn") and sc["cond"][0] in UNREACH and \
                any(t.startswith("MessageAccumulator.close") for t in ev.get("tasks", [])):
            return "reject:StopReturn:Hang:idempotent-flush-unreachable-leader"
        # open finding: Sender.close() awaits the in-flight transactional request task, which retries for ever while the
        # transaction coordinator is unreachable
        if ev.get("err") == "Hang" and sc["workload"] == "txn" and sc["cond"][0] in UNREACH and \
                any(t.startswith("Sender._do_") for t in ev.get("tasks", [])):
            return "reject:StopReturn:Hang:txn-request-unreachable-coordinator"
    if e == "End" and ev.get("still_member") and sc["workload"] == "group" and sc["cond"][0] == "reap" and sc.get("lead", 0) <= 0.02:
        # open finding: the brokers closed the consumer's connections at the very instant of stop(); the first request of
        # close() fails, the coordinator is marked dead and the (best-effort) LeaveGroup is skipped although a reconnect would succeed
        return "reject:End:coordinator-connection-closed-by-broker-at-stop"
    if e == "CloseStep":
        extra = f":{ev.get('comp')}:{ev.get('phase')}:{ev.get('err') or 'tasks-left'}"
    if e == "Api":
        extra = f":{ev.get('api')}:{'ok' if ev.get('ok') else ev.get('err')}"
    return f"reject:{e}{extra}:{wl}"


def conformance(rep: Report, ctx, scs):
    if ctx.replay:
        scs = [json.load(open(ctx.replay))["detail"]["scenario"]]
    results = _pool(scs)
    by_cfg = {}
    for i, (sc, (tr, inf)) in enumerate(zip(scs, results)):
        if not tr or tr[0].get("e") != "Config" or any(e["e"] in ("DriverCrash", "Crash", "StartFailed") for e in tr):
            rep.violations.append(Violation("C19:reject:NoRun", {"scenario": sc, "trace": tr[-3:], "info": {k: inf.get(k) for k in ("hang", "exc")}}))
            continue
        by_cfg.setdefault(CFG[sc["wl"]], []).append(i)
    counts, nontriv = {}, 0
    for cfgk, idx in by_cfg.items():
        traces = [results[i][0] for i in idx]
        ver, st = tlc.validate("Trace_Lifecycle", f"Trace_Lifecycle_{cfgk}.cfg", traces,
                               shard=max(10, min(200, len(traces) // 12 + 1)), jobs=12)
        rep.traces += len(traces)
        rep.states += st
        rep.transitions += st
        for i, v in zip(idx, ver):
            sc, tr = scs[i], results[i][0]
            if sc["cond"][0] != "healthy":
                nontriv += 1
            sig = classify(sc, tr, v)
            if sig is None:
                continue
            counts[sig] = counts.get(sig, 0) + 1
            k = (v["bad_l"] - 2) if v["bad_l"] and (v["accepted"] or v["bad_l"] <= v["reached"]) else v["reached"] - 1
            rep.violations.append(Violation(f"C19:{sig}", {"scenario": sc, "verdict": {x: v[x] for x in ("reached", "need", "bad")},
                                                           "event": tr[k] if 0 <= k < len(tr) else None}))
        ok = [(scs[i], results[i][0]) for i, v in zip(idx, ver) if v["accepted"]]
        if ok and len(rep.samples) < 3:
            s, t = ok[len(ok) // 2]
            rep.samples.append({"scenario": s, "trace": [{k: e[k] for k in e if k not in ("tasks", "tnames")} for e in t][:14]})
        _selftest(cfgk, traces, ver)
    rep.extra.setdefault("verdict_classes", {}).update(counts)
    rep.extra["evaluations"] = rep.traces
    _cnt = {}
    for _tr, _inf in results:
        for _e in _tr:
            k_ = _e["e"] + ((":" + _e["comp"] + ":" + _e["phase"]) if _e["e"] == "CloseStep" else "")
            _cnt[k_] = _cnt.get(k_, 0) + 1
    rep.extra["trace_action_counts"] = _cnt
    rep.extra["distinct_nontrivial"] = nontriv
    rep.extra["stops_with_unhealthy_cluster"] = nontriv
    return results


def _selftest(cfgk, traces, ver):
    """binding: a trace in which a task survives stop(), one in which stop() raises, one in which a component is closed
    out of order must be rejected"""
    base = next((t for t, v in zip(traces, ver) if v["accepted"] and not v["bad_l"]
                 and sum(1 for e in t if e["e"] == "CloseStep" and e["phase"] == "end") >= 2), None)
    if base is None:
        return
    mut = []
    t1 = [json.loads(json.dumps(e)) for e in base]
    i = next(i for i, e in enumerate(t1) if e["e"] == "Settled")
    t1[i]["counts"]["client"] = 1
    mut.append(t1)
    t2 = [json.loads(json.dumps(e)) for e in base]
    i = next(i for i, e in enumerate(t2) if e["e"] == "StopReturn")
    t2[i]["ok"], t2[i]["err"] = False, "CancelledError"
    mut.append(t2)
    t3 = [json.loads(json.dumps(e)) for e in base]
    ends = [i for i, e in enumerate(t3) if e["e"] == "CloseStep" and e["phase"] == "end"]
    t3[ends[0]], t3[ends[1]] = t3[ends[1]], t3[ends[0]]
    mut.append(t3)
    v, _ = tlc.validate("Trace_Lifecycle", f"Trace_Lifecycle_{cfgk}.cfg", mut, shard=10, jobs=1)
    for k, x in enumerate(v):
        if x["accepted"] and not x["bad_l"]:
            raise MachineryError(f"binding self-test ({cfgk}): corrupted lifecycle trace #{k} was accepted")
