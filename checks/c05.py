"""C05 — within a generation partitions have one owner; revoked partitions go silent.

Specs: spec/GroupMembership.tla (MC: AdoptedIsDistributed, DisjointWithinGeneration,
RevokeBeforeAssign) and spec/Trace_Group.tla (guards at Adopt / AssignStart / AssignEnd /
RevokeStart / Take / JoinRequest on real group members)."""
from harness.runner import Report

from . import _group as G


def run(ctx) -> Report:
    rep = Report()
    if not ctx.replay:
        G.run_mc(rep, ctx, "C05")
    n = 1 if ctx.quick else 10
    G.conformance(rep, ctx, "C05", {"basic": 150 * n, "churn": 180 * n, "faults": 100 * n, "subs": 170 * n, "live": 120 * n, "slowrevoke": 60 * n, "joinauth": 80 * n})
    rep.extra.update(
        bounds="as C04; plus equal or different subscriptions over two topics, subscription changes during a rebalance and inside listener "
               "callbacks, listeners sleeping 0-150 ms so that callbacks of different members overlap, each configured assignor",
        rule="one trace per generated scenario; non-trivial = the group went through >= 3 generations",
        boundary_note="the silence boundary used is Subscription._assign (gate down), which precedes on_partitions_assigned by one await")
    rep.assumptions = ["as C04", "assignments decoded from SyncGroup replies with aiokafka's ConsumerProtocol (trusted codec)"]
    return rep
