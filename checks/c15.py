"""C15 — the sticky assignor keeps assignments that need not move.

Spec: spec/Assignors.tla (Unchanged, OnlyDepartedRedistributed,
NewMembersTakeWithoutShuffling; StepClass decides which clause speaks about a
step, so nothing is demanded under differing subscriptions except "same").
 1. TLC model-checks the reference assignor through a second round
    (same / minus members / plus members): the three clauses hold together
    with C14's balance, and each class of step is reached.
 2. The REAL StickyPartitionAssignor: every first-round input of the bounded
    space, then (a) an identical second round, (b) minus every non-empty proper
    subset of members, (c) plus 1..2 new members ((b),(c) where the property
    speaks: identical subscriptions); seeded random chains of <= 5 rounds;
    previous assignments produced by the spec's reference assignor (spec ->
    code).  Previous assignments travel as the real assignor does it:
    assignment bytes -> on_assignment() -> metadata() -> StickyAssignorUserDataV1
    -> JoinGroup metadata bytes -> parse_member_metadata() in assign(); the
    class-level state is reset around every member.
    TLC evaluates every recorded two-round step (SpecTable).
"""
from __future__ import annotations

import copy
import itertools
import json
import os
import random
import shutil
import tempfile

from harness import assignors as A
from harness import tlc
from harness.runner import Report, Violation
from harness.tlc import MachineryError

REF_ACTIONS = ["StickyPlace", "StickyMove", "Finish", "RejoinSame", "RejoinMinus", "RejoinPlus"]

# minimal reproductions of "a joining member makes a partition move between old
# members" (everybody subscribes to the same topics); triggered on purpose each run:
# (1) the cluster metadata holds a topic with partitions nobody subscribes to,
# (2) two members list the same topics in a different order
JOIN_TRIGGERS = {
    "unsubscribed-topic-in-metadata": {
        "parts": {"t0": [0, 1, 2, 3, 4], "t1": [0, 1, 2, 3, 4]},
        "subs0": {"m0": ["t0"], "z1": ["t0"]},
        "prev": {"m0": [["t0", [2, 3, 4]]], "z1": [["t0", [0, 1]]]},
        "new": {"z2": ["t0"]},
    },
    "subscription-order-differs": {
        "parts": {"t0": [0], "t1": [0, 1, 2, 3]},
        "subs0": {"m0": ["t0", "t1"], "m1": ["t1", "t0"]},
        "prev": {"m0": [["t0", [0]], ["t1", [0]]], "m1": [["t1", [1, 2, 3]]]},
        "new": {"n0": ["t0", "t1"]},
    },
}


def classify(subs0, subs1) -> str:
    m0, m1 = set(subs0), set(subs1)

    def kept(s):
        return all(set(subs0[m]) == set(subs1[m]) for m in s)

    def ident(s):
        return len({frozenset(v) for v in s.values()}) == 1

    if m0 == m1 and kept(m0):
        return "same"
    if m1 and m1 < m0 and ident(subs0) and kept(m1):
        return "minus"
    if m0 and m0 < m1 and ident(subs1) and kept(m0):
        return "plus"
    return "none"


def second_rounds(subs, names_after, names_before):
    """(label, subs1) of every second round the property quantifies over."""
    out = [("same", dict(subs))]
    if len({frozenset(v) for v in subs.values()}) == 1:
        mem = list(subs)
        common = subs[mem[0]]
        for r in range(1, len(mem)):
            for keep in itertools.combinations(mem, r):
                out.append(("minus", {m: subs[m] for m in keep}))
        for k in (1, 2):
            for names in (names_after[:k], names_before[:k]):
                s1 = dict(subs)
                s1.update({n: list(common) for n in names})
                out.append(("plus", s1))
    return out


def alt_order(s1):
    """same subscriptions, every second member lists its topics in reverse"""
    return {m: (list(reversed(v)) if j % 2 else list(v)) for j, (m, v) in enumerate(s1.items())}


def steps_from(parts, subs, raw0, prev_bytes, gens, tag, cases, stats, alt=False):
    n = len(subs)
    for g in gens:
        rounds2 = second_rounds(subs, [f"m{n}", f"m{n + 1}"], ["a0", "a1"])
        if alt and len(rounds2) > 1 and len(next(iter(subs.values()))) > 1:
            rounds2 += [(label, alt_order(s1)) for label, s1 in rounds2]
        for label, s1 in rounds2:
            st, res1 = A.sticky_round(parts, s1, {m: prev_bytes[m] for m in s1 if m in prev_bytes}, g)
            if st != "ok":
                stats["aborted"] += 1
                continue
            cases.append(A.step_case(parts, subs, s1, raw0, A.raw_of(res1), label,
                                     f"{tag}:gen={'set' if g is not None else 'default'}"))


def enum_task(args):
    bl, cfg, gens, alt, thin = args
    cases, stats, first = [], {"aborted": 0}, 0
    for b in bl:
        for _topics, parts, subs in A.block_inputs(b):
            st, res0 = A.sticky_round(parts, subs, {}, None)
            if st != "ok":
                stats["aborted"] += 1
                continue
            first += 1
            ident = len({frozenset(v) for v in subs.values()}) == 1
            # differing subscriptions only have the "same" second round: one generation
            # mode per input there (alternating), both modes under identical subscriptions
            g_here = gens if ident or len(gens) < 2 or not thin else (gens[first % 2],)
            steps_from(parts, subs, A.raw_of(res0), {m: a.encode() for m, a in res0.items()},
                       g_here, "enum", cases, stats, alt)
    return finish(cases, cfg, stats, first)


def specprev_task(args):
    runs, cfg, gens, alt = args
    cases, stats = [], {"aborted": 0}
    for r in runs:
        parts = {t: list(range(n)) for t, n in r["np"].items() if n >= 0}
        subs = {m: list(s) for m, s in r["subs"].items()}
        raw0 = {}
        for m in subs:
            by = {}
            for t, p in r["out"].get(m, []):
                by.setdefault(t, []).append(p)
            raw0[m] = [[t, sorted(ps)] for t, ps in sorted(by.items())]
        steps_from(parts, subs, raw0, {m: A.encode_raw(raw0[m]) for m in subs}, gens, "specprev", cases, stats, alt)
    return finish(cases, cfg, stats, len(runs))


def chain_task(args):
    seeds, cfg, rounds, avoid = args
    cases, stats, first = [], {"aborted": 0}, 0
    for seed in seeds:
        rng = random.Random(seed)
        ident = rng.random() < 0.6
        same_order = "subscription-order-differs" in avoid and rng.random() < 0.9
        topics, parts, subs, common = A.rand_input(rng, identical=ident, same_order=same_order)
        steer = "unsubscribed-topic-in-metadata" in avoid and rng.random() < 0.9
        if ident and steer:
            parts = {t: p for t, p in parts.items() if t in common}
        gen_mode = rng.random() < 0.5
        states = {}                      # each member's assignor state lives as long as the member
        st, res = A.sticky_round(parts, subs, {}, None, states)
        if st != "ok":
            stats["aborted"] += 1
            continue
        first += 1
        for rnd in range(1, rng.randint(2, rounds)):
            r = rng.random()
            s1 = dict(subs)
            if r < 0.3 or (r < 0.65 and len(subs) < 2):
                pass
            elif r < 0.65:
                for m in rng.sample(sorted(subs), rng.randint(1, len(subs) - 1)):
                    del s1[m]
            else:
                for _ in range(rng.randint(1, 2)):
                    s1[A.fresh_member(rng, s1)] = \
                        (list(common) if same_order else rng.sample(common, len(common))) if ident else \
                        rng.sample(topics, rng.randint(1, len(topics)))
            items = list(s1.items())
            rng.shuffle(items)
            s1 = dict(items)
            prevb = {m: a.encode() for m, a in res.items() if m in s1}
            st, res1 = A.sticky_round(parts, s1, prevb, rnd if gen_mode else None, states)
            if st != "ok":
                stats["aborted"] += 1
                break
            cases.append(A.step_case(parts, subs, s1, A.raw_of(res), A.raw_of(res1), classify(subs, s1),
                                     f"chain:{seed}:{rnd}:gen={'set' if gen_mode else 'default'}"))
            subs, res = s1, res1
    return finish(cases, cfg, stats, first)


def trigger_task(cfg):
    cases, stats = [], {"aborted": 0}
    for name, t in JOIN_TRIGGERS.items():
        s1 = {**t["subs0"], **t["new"]}
        st, res1 = A.sticky_round(t["parts"], s1, {m: A.encode_raw(p) for m, p in t["prev"].items()}, None)
        if st != "ok":
            stats["aborted"] += 1
            continue
        cases.append(A.step_case(t["parts"], t["subs0"], s1, t["prev"], A.raw_of(res1), "plus",
                                 f"trigger:join:{name}"))
    return finish(cases, cfg, stats, len(JOIN_TRIGGERS))


def finish(cases, cfg, stats, first):
    bad, st, gen = tlc.run_table("Assignors", cfg, cases, shard=4000, jobs=1, spec_dir=A.SPEC_DIR) \
        if cases else ([], 0, 0)
    by = {}
    nontriv = 0
    for c in cases:
        by[c["step"]] = by.get(c["step"], 0) + 1
        nontriv += 1 if any(e[1] for a in c["prev"].values() for e in a) else 0
    keep = {}
    for c in cases:
        keep.setdefault(c["step"], c)
    return {"n": len(cases), "bad": [cases[j] for j in bad], "states": st, "gen": gen, "by": by,
            "aborted": stats["aborted"], "first": first, "nontrivial": nontriv, "samples": list(keep.values())}


def _task(a):
    kind, payload = a
    return {"enum": enum_task, "spec": specprev_task, "chain": chain_task, "trigger": trigger_task}[kind](payload)


def self_test(cfg):
    """Corrupt one recorded field of accepted steps; TLC must reject each."""
    parts = {"t0": [0, 1, 2, 3, 4, 5]}
    subs = {m: ["t0"] for m in ("m0", "m1", "m2")}
    st, res0 = A.sticky_round(parts, subs, {}, None)
    assert st == "ok"
    raw0, prevb = A.raw_of(res0), {m: a.encode() for m, a in res0.items()}
    base, muts = [], []
    for label, s1 in (("same", subs), ("minus", {m: subs[m] for m in ("m0", "m1")}),
                      ("plus", {**subs, "m3": ["t0"]})):
        st, r1 = A.sticky_round(parts, s1, {m: prevb[m] for m in s1 if m in prevb}, None)
        assert st == "ok"
        c = A.step_case(parts, subs, s1, raw0, A.raw_of(r1), label, "selftest")
        base.append(c)
        m = copy.deepcopy(c)
        a, b = m["new"]["m0"], m["new"]["m1"]          # swap one partition between two old survivors
        pa, pb = a[0][1][0], b[0][1][0]
        a[0][1][0], b[0][1][0] = pb, pa
        muts.append(m)
    mis = copy.deepcopy(base[1])
    mis["step"] = "same"                                # a wrong label must be caught too
    muts.append(mis)
    bad, _s, _g = tlc.run_table("Assignors", cfg, base + muts, shard=100, jobs=1, spec_dir=A.SPEC_DIR)
    want = list(range(len(base), len(base) + len(muts)))
    if bad != want:
        raise MachineryError(f"binding self-test: expected exactly the corrupted steps {want} rejected, got {bad}")
    return len(muts)


def spec_generated_prevs():
    d = tempfile.mkdtemp(prefix="asg-ref-", dir=tlc.SCRATCH)
    try:
        f = os.path.join(d, "ref.json")
        res = tlc.mc("Assignors", "Gen_Assignors.cfg", workers=1, timeout=900, env={"REF_FILE": f},
                     coverage=False, spec_dir=A.SPEC_DIR)
        if not res["ok"] or not os.path.exists(f):
            raise MachineryError("reference run for spec-generated previous assignments failed:\n"
                                 + res["output"][-2000:])
        return json.load(open(f))["runs"], res
    finally:
        shutil.rmtree(d, ignore_errors=True)


def signature(k, clause, case):
    if k == "step":
        return None
    sig = f"C15:{k}:{clause}"
    if k != "join":
        return sig
    # scenario class of the joining-member clause (the two known triggers)
    if A.unsubscribed_with_partitions(case["parts"], case["subs1"]):
        sig += ":unsubscribed-topic-in-metadata"
    if A.order_differs(case["subs1"]):
        sig += ":subscription-order-differs"
    return sig


def run(ctx) -> Report:
    A.classes()
    rep = Report()
    quick = ctx.quick
    avoid = A.load_avoid("C15")
    cfg = "Table_Assignors_q.cfg" if quick else "Table_Assignors_t.cfg"
    bounds = (3, 2, 3) if quick else (4, 3, 4)

    mcfg = "MC_Assignors.cfg" if quick else "MCL_Assignors.cfg"
    res = tlc.mc("Assignors", mcfg, workers=6, timeout=1500, spec_dir=A.SPEC_DIR)
    if res.get("violated") or not res["ok"]:
        raise MachineryError(f"reference assignor violates the spec's own property {res.get('violated')}:\n"
                             + tlc.counterexample(res["output"]))
    rep.add_mc(f"Assignors reference ({mcfg})", res, need_actions=REF_ACTIONS)

    runs, gres = spec_generated_prevs()
    rep.add_mc("Assignors reference, first-round results written out (Gen_Assignors.cfg)", gres)

    gens = (None, 1)
    alt = "subscription-order-differs" not in avoid
    tasks = [("enum", (bl, cfg, gens, alt, not quick)) for bl in A.chunk_blocks(A.blocks(*bounds), 300 if quick else 12000)]
    per = 400
    tasks += [("spec", (runs[o:o + per], cfg, gens, alt)) for o in range(0, len(runs), per)]
    nchains = 800 if quick else 16000
    perc = 100 if quick else 500
    seeds = [ctx.seed * 1_000_003 + 500_000 + j for j in range(nchains)]
    tasks += [("chain", (seeds[o:o + perc], cfg, 5, sorted(avoid))) for o in range(0, nchains, perc)]
    tasks += [("trigger", cfg)]
    results = A.pool_map(_task, tasks, procs=10)

    nmut = self_test(cfg)

    bad, by, table_states = [], {}, 0
    firsts = {"enum": 0, "spec": 0, "chain": 0, "trigger": 0}
    for (kind, _p), r in zip(tasks, results):
        bad += r["bad"]
        table_states += r["states"]
        rep.transitions += r["gen"]
        rep.traces += r["n"]
        firsts[kind] += r["first"]
        for k, v in r["by"].items():
            by[f"{kind}:{k}"] = by.get(f"{kind}:{k}", 0) + v
    rep.states += table_states
    want_first = A.card(cfg)
    if firsts["enum"] + sum(r["aborted"] for (k, _p), r in zip(tasks, results) if k == "enum") < want_first:
        raise MachineryError(f"first rounds enumerated {firsts['enum']} < Cardinality(Inputs) {want_first}")
    for cls in ("enum:same", "enum:minus", "enum:plus", "chain:same", "chain:minus", "chain:plus", "spec:same"):
        if not by.get(cls):
            raise MachineryError(f"vacuity: no step of class {cls} was produced")
    rep.mc_runs.append({"name": f"Assignors table ({cfg})", "cases": rep.traces, "distinct": table_states,
                        "shards": len(tasks)})

    named = A.name_clauses(cfg, bad)
    for c, cl in zip(bad, named):
        for k, clause in cl:
            sig = signature(k, clause, c)
            if sig is None:
                raise MachineryError(f"step label disagrees with the spec's StepClass: {c}")
            rep.violations.append(Violation(sig, {"case": c, "clause": [k, clause]}))

    seen, samples = set(), []
    for r in results:
        for c in r["samples"]:
            if c["step"] not in seen and c["step"] != "none" and any(e[1] for a in c["prev"].values() for e in a):
                seen.add(c["step"])
                samples.append(c)
    rep.samples = samples[:4]
    aborted = sum(r["aborted"] for r in results)
    rep.extra.update(
        evaluations=rep.traces,
        steps_by_source_and_class=by,
        first_rounds=firsts,
        tlc_cardinality_inputs=want_first,
        distinct_nontrivial=sum(r["nontrivial"] for r in results),
        spec_generated_previous_assignments=len(runs),
        random_chains=nchains,
        rounds_aborted_because_assign_did_not_return=aborted,
        rejected_cases=len(bad),
        self_test_corruptions_rejected=nmut,
        bounds={"members": bounds[0], "topics": bounds[1], "partitions": f"none,0..{bounds[2]}",
                "second_round": "identical; minus every non-empty proper subset; plus 1..2 new members "
                                "(ids sorting after and before the old ones)",
                "random": "<=12 members, <=8 topics, <=12 partitions, <=5 rounds"},
        rule="one case per (first-round input, second round, generation mode"
             + ("" if quick else "; for differing subscriptions one mode per input, alternating")
             + "); generation mode = "
             "on_generation_assignment() called or not (the coordinator never calls it); minus/plus only "
             "under identical subscriptions (where the property speaks); nontrivial = previous assignment "
             "holds at least one partition",
        exhaustive=True,
        exhaustive_note="enumerated first rounds complete against TLC Cardinality(Inputs); chains sampled; "
                        "a round whose assign() does not return is reported by C14, here it ends the chain",
        avoid=sorted(avoid),
    )
    rep.assumptions = [
        "previous assignments are carried by the real on_assignment()/metadata()/StickyAssignorUserDataV1 "
        "encoding with the assignor's class-level state reset around every member (one process per member)",
        "partitions are unchanged between the two rounds of a step",
        "new members join without user data",
    ]
    return rep
