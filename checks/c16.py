"""C16 — the transactional API is a strict state machine with recoverable and fatal errors.

Specs: spec/TxnProducer.tla (API actions guarded by the TransactionState machine; FatalIsFinal,
AbortRecovers under TLC) and spec/Trace_Txn.tla: every Call/Return of the real producer must be
explained by the state machine (accepted only in protocol order; out of order => raises, the state
machine does not move, nothing is appended or sent; legal calls fail only in/into an error state;
abort leaves ABORTABLE_ERROR; nothing is sent after FATAL_ERROR; no send() future left pending)."""
import random

from harness.runner import Report

from . import _txn as T


def run(ctx) -> Report:
    rep = Report()
    if not ctx.replay:
        T.run_mc(rep, ctx, "C16")
    rng = random.Random(ctx.seed * 104729 + 16)
    if ctx.quick:
        scs = T.c16_scenarios(rng, exhaustive_len=3, sampled=300, faulted=500)
        cover = "all 584 call sequences of length <= 3, 300 sampled of length 4-6, 500 protocol-ordered sequences x one injected error"
    else:
        scs = T.c16_scenarios(rng, exhaustive_len=5, sampled=4000, faulted=6000)
        cover = "all 37448 call sequences of length <= 5, 4000 sampled of length 6, 6000 protocol-ordered sequences x one injected error"
    T.conformance(rep, ctx, "C16", scs)
    rep.extra.update(
        coverage=cover,
        bounds="alphabet {begin, send(p0), send(p1), send_offsets_to_transaction, commit, abort, transaction() exit without / with exception}; "
               "faults: one error at the 1st or 2nd AddPartitionsToTxn / AddOffsetsToTxn / TxnOffsetCommit / EndTxn / Produce request -- retriable "
               "(NOT_COORDINATOR, COORDINATOR_NOT_AVAILABLE, LOAD_IN_PROGRESS, CONCURRENT_TRANSACTIONS, NOT_LEADER, REQUEST_TIMED_OUT), abortable "
               "(GROUP_AUTHORIZATION_FAILED, topic authorization via an unauthorized topic, MESSAGE_TOO_LARGE), fatal (a REAL fencing: the coordinator bumps "
               "the epoch, TRANSACTIONAL_ID_AUTHORIZATION_FAILED, OUT_OF_ORDER_SEQUENCE_NUMBER); each faulted sequence is followed by a recovery tail "
               "(abort + a fresh transaction) so that 'abort recovers' / 'fatal is final' are exercised",
        rule="one trace per call sequence; sequences of length 6 are sampled, not exhaustive (8^6 = 262144 runs)")
    rep.assumptions = ["simulated coordinators follow Kafka's rules (harness/simtxn.py)",
                       "an out-of-order call 'raises' = any exception (the code raises IllegalOperation, ProducerFenced or AssertionError)"]
    return rep
