"""C06 — group membership converges and is not disturbed by the member itself.

Specs: spec/GroupMembership.tla (MC liveness Converges under fairness with a finite crash
budget) and spec/Trace_Group.tla (JoinAdvertisesAll, JoinThenSync, identity carried into
SyncGroup; quiescent End event: latest generation, heartbeating, full coverage, no rejoin)."""
from harness.runner import Report

from . import _group as G


def run(ctx) -> Report:
    rep = Report()
    if not ctx.replay:
        G.run_mc(rep, ctx, "C06")
    n = 1 if ctx.quick else 10
    G.conformance(rep, ctx, "C06", {"basic": 180 * n, "churn": 140 * n, "faults": 220 * n, "subs": 60 * n, "syncfault": 100 * n, "live": 40 * n, "grow": 160 * n})
    rep.extra.update(
        bounds="as C04; 1-3 configured assignors in any order per member, JoinGroup v0/v1/v2/v5 brokers (MEMBER_ID_REQUIRED on v5), "
               "every coordinator error code of the per-API table at any JoinGroup/SyncGroup/Heartbeat/OffsetCommit/FindCoordinator reply, "
               "connection loss and lost replies at any request, coordinator moving with or without group state, session expiry by kill; "
               "quiet period = session + rebalance + request timeout + 4 heartbeats, then a window of 2 session timeouts",
        rule="one trace per generated scenario; non-trivial = the group went through >= 3 generations")
    rep.assumptions = ["as C04", "a lost reply / dropped connection may surface up to request_timeout later as a request timeout that restarts "
                       "the member's join (lagUntil in the trace spec); a subscription change while a JoinGroup is pending makes the member drop the reply"]
    return rep
