import sys, json, logging, asyncio, random
sys.path.insert(0,'/verif')
logging.disable(logging.CRITICAL)
from harness import build
with build.Scratch() as s:
    build.activate(s)
    from harness import simloop, simnet, simcluster, observe
    from harness.drv_producer import FaultDirector
    from aiokafka.client import AIOKafkaClient
    rng=random.Random(1)
    log=observe.EventLog()
    director=FaultDirector(rng, {"budget":0})
    cl=simcluster.Cluster(log, nodes=(0,1), director=director, rng=rng)
    cl.add_topic("t",[0,1]); cl.add_topic("u",[1,0])
    net=simnet.SimNet(cl)
    res={}
    async def main(loop):
        c=AIOKafkaClient(bootstrap_servers="broker0:9092", metadata_max_age_ms=1000, request_timeout_ms=2000)
        await c.bootstrap()
        await c.set_topics(["t"])
        t0=loop.time()
        # wait for the PERIODIC refresh to be in flight: hold its reply for 50 ms and change the topic list meanwhile
        orig=director.plan
        fired=[]
        def plan(cluster, ctx):
            p=orig(cluster, ctx)
            if ctx.api=="Metadata" and not fired and loop.time()-t0>0.5:
                fired.append(loop.time()-t0)
                p.delay_out=0.05
                def chg():
                    t1=loop.time()
                    f=c.set_topics(["t","u"])
                    f.add_done_callback(lambda _f: res.setdefault("resolved_after_ms", round((loop.time()-t1)*1000)))
                loop.call_later(0.01, chg)
            return p
        director.plan=plan
        await asyncio.sleep(4)
        res["periodic_request_at_s"]=fired
        res["u_known"]=c.cluster.partitions_for_topic("u")
        await c.close()
    simloop.run(main, seed=1, net=net, horizon=100)
    print(res)
