"""Spec extension beyond the 19 listed properties: the metadata synchroniser of AIOKafkaClient.

  1. TLC on spec/MetadataSync.tla AS CODED (RearmOnRetry = FALSE): invariant NoForgottenWaiter and liveness
     ForceResolves FAIL (set_topics with a new topic list during a periodic refresh: the loop goes back to sleep for
     metadata_max_age with a caller waiting) -- and hold with the three-line repair (RearmOnRetry = TRUE).
  2. Conformance: runs of the real client (random force / add_topic / set_topics programs, overlapping refreshes) are
     validated as behaviours of the spec as coded; runs in which the flaw was OBSERVED are counted.
  3. extras/metadata_probe.py reproduces the delay directly (set_topics resolves after ~metadata_max_age).

Usage: cd /verif && PYTHONHASHSEED=0 /venv/bin/python extras/metadata_sync.py [n_scenarios]
Not registered in MANIFEST.json (no listed property speaks about metadata freshness); exit 0 iff the model results are
as stated above and every recorded run conforms."""
import collections
import json
import logging
import random
import sys
from pathlib import Path

sys.path.insert(0, str(Path(__file__).resolve().parent.parent))
logging.disable(logging.CRITICAL)
from harness import build, tlc  # noqa: E402

CFG = """SPECIFICATION LiveSpec
CONSTANTS
  Callers = {{a, b}}
  Topics = {{t, u}}
  MaxObj = 3
  RearmOnRetry = {rearm}
INVARIANT TypeOK
INVARIANT WaitersHaveFuture
INVARIANT NoForgottenWaiter
PROPERTY ForceResolves
CHECK_DEADLOCK FALSE
"""


def main():
    n = int(sys.argv[1]) if len(sys.argv) > 1 else 200
    out = {}
    for rearm, expect in (("FALSE", "NoForgottenWaiter"), ("TRUE", None)):
        p = tlc.SPEC / f"_gen_md_{rearm}.cfg"
        p.write_text(CFG.format(rearm=rearm))
        try:
            r = tlc.mc("MetadataSync", p.name, workers=4, timeout=600)
        finally:
            p.unlink()
        out[f"mc_rearm_{rearm}"] = dict(violated=r.get("violated"), distinct=r.get("distinct"))
        if (expect is None) != (not r.get("violated")) or (expect and expect not in str(r.get("violated"))):
            print("UNEXPECTED model result", rearm, r.get("violated"))
            return 1
    with build.Scratch() as s:
        build.activate(s)
        from harness import drv_md
        rng = random.Random(4)
        scs = []
        for k in range(n):
            prog = []
            for _ in range(rng.randrange(1, 8)):
                t, r = round(rng.random() * 2.0, 3), rng.random()
                if r < 0.3:
                    prog.append([t, "force"])
                elif r < 0.6:
                    prog.append([t, "add", rng.choice(["t", "u", "w"])])
                else:
                    prog.append([t, "set", rng.sample(["t", "u", "w"], rng.randrange(0, 4))])
            prog.sort()
            scs.append(dict(seed=k, max_age=rng.choice([0.3, 0.6, 1.0]), delay=rng.choice([0.01, 0.04, 0.1]), program=prog,
                            duration=3.5))
        traces = [drv_md.run_scenario(sc)[0] for sc in scs]
        ver, st = tlc.validate("Trace_MetadataSync", "Trace_MetadataSync.cfg", traces, shard=50, jobs=8)
    c = collections.Counter()
    for v in ver:
        c["accepted" if v["accepted"] and not v["bad_l"] else "rejected"] += 1
        if "forgotten" in v.get("view", ""):
            c["runs_in_which_a_waiter_was_forgotten"] += 1
    out["conformance"] = dict(c, traces=len(traces), tlc_states=st)
    Path(__file__).with_suffix(".result.json").write_text(json.dumps(out, indent=1))
    print(json.dumps(out))
    return 0 if c["rejected"] == 0 else 1


if __name__ == "__main__":
    sys.exit(main())
