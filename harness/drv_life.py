"""C19 driver: runs a producer / group-consumer / group-less-consumer workload on the simulated
cluster, calls stop() at a chosen instant of the run and records what Lifecycle.tla talks about.

Scenario (JSON-able):
  seed, workload: "producer" | "idem" | "txn" | "group" | "assign"
  nnodes, nparts
  cond: cluster condition applied `lead` seconds BEFORE the stop
        ["healthy"] | ["down", node] (reset) | ["shutdown", node] (EOF) | ["reap"] (EOF on every connection, nodes stay up) | ["blackhole", node] | ["failover", node, keep_state] | ["alldown"] | ["allblack"]
  stop_at: virtual seconds after the client started (None: baseline run, records loop iteration times)
  other: a second group member joins at this time (rebalance in progress around the stop), or None

Events (trace of Trace_Lifecycle.tla):
  Config, Started, StopCall, CloseStep(comp, phase), StopReturn(ok, err, dt_ms), Settled(tasks, timers, conns),
  Api(api, ok, err)  -- calls after stop
  Joined(gen) / LeaveGroup(member) / CoordState from the simulated coordinator, End
"""
from __future__ import annotations

import asyncio
import random

from . import observe, simcluster, simgroup, simloop, simnet, simtxn
from .drv_producer import FaultDirector
from .simloop import OWNER

TOPIC = "t"
GROUP = "g"
REQUEST_MS = 3000          # larger than the rebalance timeout: a JoinGroup / SyncGroup may sit in the coordinator's barrier that long
SESSION_MS = 3000
HEARTBEAT_MS = 300
REBALANCE_MS = 2500
BACKOFF_MS = 50
# bound of C19: "within a bound determined by the configured request, session and rebalance timeouts"
BOUND_MS = 2 * REQUEST_MS + SESSION_MS + REBALANCE_MS + 1000

ALPHABET = {"Config", "Started", "StopCall", "CloseStep", "StopReturn", "Settled", "Api", "LeaveGroup", "End",
            "Cond", "StartFailed", "LastCommit", "Leave", "Flush"}


def _task_name(t):
    c = t.get_coro()
    n = getattr(c, "__qualname__", None) or getattr(c, "__name__", "?")
    return n


def run_scenario(sc: dict):
    from aiokafka import AIOKafkaConsumer, AIOKafkaProducer
    from aiokafka.client import AIOKafkaClient
    from aiokafka.consumer.fetcher import Fetcher
    from aiokafka.consumer.group_coordinator import GroupCoordinator, NoGroupCoordinator
    from aiokafka.producer.sender import Sender
    from aiokafka.structs import TopicPartition

    seed = sc["seed"]
    rng = random.Random(seed)
    state = {"member": None}
    log = observe.EventLog()
    tstamps = []          # (event name, virtual time) of everything the cluster / driver logs
    _emit = log.emit

    def emit_ts(e, **f):
        r = _emit(e, **f)
        if e == "JoinReply" and state.get("freeze_leader") and f.get("client") == "c2" and f.get("code") == 0 \
                and f.get("leader") == f.get("member"):
            state["freeze_leader"] = False
            state["loop"].kill("c2", freeze=True)
        try:
            tstamps.append((e, state["loop"].time()))
        except Exception:  # noqa: BLE001
            pass
        return r
    log.emit = emit_ts
    director = FaultDirector(rng, sc.get("faults", {"budget": 0}))
    cl = simcluster.Cluster(log, nodes=tuple(range(sc["nnodes"])), director=director, rng=rng)
    cl.add_topic(TOPIC, [rng.randrange(sc["nnodes"]) for _ in range(sc["nparts"])])
    gsim = simgroup.GroupCoordinatorSim(cl)
    simtxn.TxnCoordinatorSim(cl, marker_delay=0.004)
    for p in range(sc["nparts"]):
        simcluster.build_log(cl.parts[(TOPIC, p)], [{"kind": "data", "offs": list(range(6)), "last": 5, "magic": 2}])
    net = simnet.SimNet(cl)
    wl = sc["workload"]
    name = "c1"
    info = {"hang": None, "exc": None, "iters": []}

    W = observe.Wrappers()

    def step(comp):
        def before(self_, a, kw):
            if OWNER.get() == name and state.get("stopping"):
                log.emit("CloseStep", comp=comp, phase="begin", **snapshot())

        def after(self_, a, kw, r, ex):
            if OWNER.get() == name and state.get("stopping"):
                log.emit("CloseStep", comp=comp, phase="end", err=type(ex).__name__ if ex is not None else "", **snapshot())
        return before, after

    def snapshot():
        lp = state["loop"]
        skip = [state.get("stop_task")] + state.get("workers", [])
        tasks = sorted(_task_name(t) for t in lp.live_tasks(name) if not any(t is x for x in skip))
        def hname(h):
            cb = getattr(h, "_callback", None)
            n = getattr(cb, "__qualname__", None) or getattr(getattr(cb, "func", None), "__qualname__", None) or repr(cb)
            return str(n)[:60]
        # timers on which an application task (the workload loops of this driver) sleeps are not the client's
        appfuts = [getattr(w, "_fut_waiter", None) for w in state.get("workers", []) if not w.done()]
        tm = sorted(hname(h) for h in lp.live_timers(name)
                    if not any(a is not None and a in (getattr(h, "_args", None) or ()) for a in appfuts))
        counts = {"coord": 0, "fetch": 0, "client": 0, "sender": 0, "accum": 0, "other": 0}
        for t in tasks:
            c = ("coord" if t.startswith(("GroupCoordinator.", "NoGroupCoordinator.", "BaseCoordinator.")) else
                 "fetch" if t.startswith("Fetcher.") else
                 "client" if t.startswith(("AIOKafkaClient.", "AIOKafkaConnection.")) else
                 "sender" if t.startswith("Sender.") else
                 "accum" if t.startswith("MessageAccumulator.") else "other")
            counts[c] += 1
        return dict(tasks=tasks, counts=counts, timers=len(tm), tnames=tm, conns=len(net.open_transports(name)))

    for cls_, comp in ((GroupCoordinator, "coordinator"), (NoGroupCoordinator, "coordinator"), (Fetcher, "fetcher"),
                       (AIOKafkaClient, "client"), (Sender, "sender")):
        b, a = step(comp)
        W.wrap_async(cls_, "close", before=b, after=a)

    def sub_event(ev):
        def after(self_, a, kw, r, ex):
            if state.get("stopping"):
                log.emit(ev, err=type(ex).__name__ if ex is not None else "")
        return after
    from aiokafka.producer.message_accumulator import MessageAccumulator
    W.wrap_async(GroupCoordinator, "_maybe_do_last_autocommit", after=sub_event("LastCommit"))
    W.wrap_async(GroupCoordinator, "_maybe_leave_group", after=sub_event("Leave"))
    W.wrap_async(MessageAccumulator, "close", after=sub_event("Flush"))

    def apply_cond(c):
        k = c[0]
        log.emit("Cond", k=k, arg=c[1:] if len(c) > 1 else [])
        if k == "down":
            cl.kill_node(c[1])
        elif k == "blackhole":
            cl.blackhole.add(c[1])
        elif k == "reap":
            # the brokers close THEIR end of every connection in an orderly way (idle-connection reaper, proxy, rolling
            # listener reload): the client's reader sees EOF, the transport stays open until the client closes it; nodes stay up
            for tr in list(cl.conns):
                cl.conns.discard(tr)
                tr.server_close(None)
        elif k == "shutdown":
            # controlled shutdown of one broker: its connections end with EOF (FIN), not with a reset
            cl.kill_node(c[1], close_conns=False)
            for tr in list(cl.conns):
                if tr.node.id == c[1]:
                    cl.conns.discard(tr)
                    tr.server_close(None)
        elif k == "alldown":
            for n in list(cl.nodes):
                cl.kill_node(n)
        elif k == "allblack":
            cl.blackhole.update(cl.nodes)
        elif k == "failover":
            gsim.failover(GROUP, c[1], keep_state=bool(c[2]))
        elif k == "fence":
            # another instance with the same transactional id takes over: the sender task of the producer under test
            # dies with ProducerFenced at its next transactional request -- stop() comes afterwards
            cl.txn.fence("tx")
        elif k == "syncstall":
            # a rebalance starts and the group LEADER (the other member) dies right after its JoinGroup reply: the group
            # sits in CompletingRebalance (the member under test waits in the SyncGroup barrier) until the leader's session expires
            state["freeze_leader"] = True
            g_ = gsim.group(GROUP)
            if g_.state == "Stable" and len(g_.members) >= 2:
                gsim._prepare_rebalance(g_)
        elif k == "groupauth":
            # the group's ACL is revoked: every group request is answered GROUP_AUTHORIZATION_FAILED from now on; the
            # error is pushed to the application, which may never poll again before it calls stop()
            orig = director.plan

            def plan(cluster, ctx):
                p = orig(cluster, ctx)
                if ctx.api in ("JoinGroup", "SyncGroup", "Heartbeat", "OffsetCommit", "OffsetFetch") or \
                        (ctx.api == "FindCoordinator" and getattr(ctx.req, "coordinator_type", 0) == 0):
                    p.fault, p.code = "error", 30
                return p
            director.plan = plan

    async def main(loop):
        state["loop"] = loop
        OWNER.set("driver")
        log.emit("Config", workload=wl, bound_ms=BOUND_MS, static=bool(sc.get("static")))
        tps = [TopicPartition(TOPIC, p) for p in range(sc["nparts"])]

        async def second_member(at):
            OWNER.set("c2")
            await asyncio.sleep(at)
            c2 = AIOKafkaConsumer(TOPIC, bootstrap_servers="broker0:9092", group_id=GROUP, client_id="c2",
                                  request_timeout_ms=REQUEST_MS, session_timeout_ms=SESSION_MS,
                                  heartbeat_interval_ms=HEARTBEAT_MS, rebalance_timeout_ms=REBALANCE_MS,
                                  retry_backoff_ms=BACKOFF_MS, fetch_max_wait_ms=100, auto_offset_reset="earliest")
            try:
                await c2.start()
                while True:
                    await c2.getmany(timeout_ms=200)
            except BaseException:  # noqa: BLE001
                pass

        if sc.get("other_first") and wl == "group":
            # the other member is there first and therefore is (and stays) the group leader
            asyncio.ensure_future(second_member(0))
            OWNER.set("driver")
            await asyncio.sleep(0.8)
        OWNER.set(name)
        if wl in ("producer", "idem", "txn"):
            kw = dict(bootstrap_servers="broker0:9092", client_id=name, request_timeout_ms=REQUEST_MS,
                      retry_backoff_ms=BACKOFF_MS, linger_ms=sc.get("linger_ms", 5), metadata_max_age_ms=2000)
            if wl == "idem":
                kw["enable_idempotence"] = True
            if wl == "txn":
                kw["transactional_id"] = "tx"
            obj = AIOKafkaProducer(**kw)
        else:
            kw = dict(bootstrap_servers="broker0:9092", client_id=name, request_timeout_ms=REQUEST_MS,
                      retry_backoff_ms=BACKOFF_MS, fetch_max_wait_ms=100, auto_offset_reset="earliest",
                      metadata_max_age_ms=2000, enable_auto_commit=sc.get("auto_commit", True), auto_commit_interval_ms=250)
            if wl == "group":
                kw.update(group_id=GROUP, session_timeout_ms=SESSION_MS, heartbeat_interval_ms=HEARTBEAT_MS,
                          rebalance_timeout_ms=REBALANCE_MS)
                if sc.get("static"):
                    kw["group_instance_id"] = "static-1"
                if sc.get("bad_assignor"):
                    # an application-supplied assignor that fails once the group has a second member: the member under
                    # test is the group LEADER, its JoinGroup succeeded, no SyncGroup follows -- the group sits in
                    # CompletingRebalance (where a broker answers OffsetCommit with REBALANCE_IN_PROGRESS) and the error
                    # is parked for the application, which calls stop()
                    from aiokafka.coordinator.assignors.roundrobin import RoundRobinPartitionAssignor

                    class FailingAssignor(RoundRobinPartitionAssignor):
                        @classmethod
                        def assign(cls, cluster, members):
                            if len(members) >= 2:
                                raise RuntimeError("assignor failed")
                            return super().assign(cluster, members)
                    kw["partition_assignment_strategy"] = [FailingAssignor]
            elif sc.get("assign_group"):
                kw.update(group_id=GROUP)
            obj = AIOKafkaConsumer(**kw)
            if wl == "group":
                obj.subscribe([TOPIC])
            else:
                obj.assign(tps)
        try:
            await asyncio.wait_for(obj.start(), timeout=20)
        except BaseException as e:  # noqa: BLE001
            log.emit("StartFailed", err=type(e).__name__)
            return
        t0 = loop.time()
        log.emit("Started", **snapshot())
        state["t0"] = t0
        state["mark"] = len(log.events)
        loop.iter_log = info["iters"] if sc.get("stop_at") is None else None
        loop.iter_t0 = t0

        workers = []

        async def produce_loop(k):
            i = 0
            try:
                while True:
                    i += 1
                    if wl == "txn":
                        async with obj.transaction():
                            await obj.send(TOPIC, b"v%d.%d" % (k, i), partition=(k + i) % sc["nparts"])
                    else:
                        f = await obj.send(TOPIC, b"v%d.%d" % (k, i), partition=(k + i) % sc["nparts"])
                        if i % 3 == 0:
                            await f
                    await asyncio.sleep(rng.choice([0.001, 0.004, 0.02]))
            except BaseException:  # noqa: BLE001
                return

        async def consume_loop():
            try:
                while True:
                    await obj.getmany(timeout_ms=rng.choice([50, 200]))
            except BaseException:  # noqa: BLE001
                return

        if wl in ("producer", "idem"):
            workers = [asyncio.ensure_future(produce_loop(k)) for k in range(2)]
        elif wl == "txn":
            workers = [asyncio.ensure_future(produce_loop(0))]
        else:
            workers = [asyncio.ensure_future(consume_loop())]
        state["workers"] = workers
        OWNER.set("driver")
        if sc.get("other") is not None and wl == "group" and not sc.get("other_first"):
            asyncio.ensure_future(second_member(sc["other"]))

        stop_at = sc.get("stop_at")
        if stop_at is None:
            stop_at = sc.get("baseline_len", 1.5)
        cond = sc.get("cond", ["healthy"])
        lead = sc.get("lead", 0.0)
        applied = []

        def cond_once():
            if not applied:
                applied.append(1)
                apply_cond(cond)
        if cond[0] != "healthy":
            loop.call_at(t0 + max(0.0, stop_at - lead), cond_once, context=cl.ctx)
        await asyncio.sleep(max(0.0, t0 + stop_at - loop.time()))
        loop.iter_log = None
        if cond[0] != "healthy" and not applied:
            # the condition is due at this very instant: it holds BEFORE stop() is called (the measured
            # reachability below must describe the cluster stop() actually meets)
            cl.ctx.run(cond_once)

        # ---- stop -------------------------------------------------------------------------------------------
        g = gsim.group(GROUP)
        joined = [m for m in g.members.values() if str(m.id).startswith(name + "-m")]
        coord_node = cl.coordinator_for(0, GROUP)
        known = getattr(getattr(obj, "_coordinator", None), "coordinator_id", None)
        # "could reach its coordinator": the node the consumer takes for its coordinator IS the coordinator and answers
        reachable = cl.nodes[coord_node].up and coord_node not in cl.blackhole and known == coord_node
        OWNER.set(name)

        async def do_stop():
            await obj.stop()
        state["stopping"] = True
        log.emit("StopCall", member_joined=bool(joined), coord_reachable=bool(reachable), gstate=g.state, **snapshot())
        t1 = loop.time()
        st = asyncio.ensure_future(do_stop())
        state["stop_task"] = st
        OWNER.set("driver")
        done, _ = await asyncio.wait([st], timeout=BOUND_MS / 1000 * 3)
        if not done:
            log.emit("StopReturn", ok=False, err="Hang", dt_ms=int((loop.time() - t1) * 1000), **snapshot())
        else:
            exc = None if st.cancelled() else st.exception()
            log.emit("StopReturn", ok=exc is None and not st.cancelled(),
                     err="CancelledError" if st.cancelled() else (type(exc).__name__ if exc is not None else ""),
                     dt_ms=int((loop.time() - t1) * 1000), **snapshot())
        state["stopping"] = False
        # let already-cancelled tasks unwind (a handful of loop iterations, no virtual time to speak of)
        for _ in range(10):
            await asyncio.sleep(0)
        log.emit("Settled", **snapshot())
        # ---- API after stop ----------------------------------------------------------------------------------
        OWNER.set(name)

        async def api(nm, fn):
            try:
                r = fn()
                if asyncio.iscoroutine(r) or isinstance(r, asyncio.Future):
                    await asyncio.wait_for(r, timeout=5)
                log.emit("Api", api=nm, ok=True, err="")
            except BaseException as e:  # noqa: BLE001
                log.emit("Api", api=nm, ok=False, err=type(e).__name__)
        if done:
            if wl in ("producer", "idem", "txn"):
                await api("send", lambda: obj.send(TOPIC, b"late", partition=0))
                await api("send_and_wait", lambda: obj.send_and_wait(TOPIC, b"late", partition=0))
            else:
                await api("getone", lambda: obj.getone())
                await api("getmany", lambda: obj.getmany(timeout_ms=10))
        OWNER.set("driver")
        for w in workers:
            w.cancel()
        await asyncio.sleep(0.5)
        g2 = gsim.group(GROUP)
        log.emit("End", still_member=any(str(m.id).startswith(name + "-m") for m in g2.members.values()), **snapshot())

    try:
        with W:
            simloop.run(main, seed=seed, net=net, horizon=sc.get("horizon", 600))
    except simloop.Stuck as e:
        info["hang"] = str(e)
        log.emit("Hang", why=str(e)[:80])
    except Exception:  # noqa: BLE001
        import traceback
        info["exc"] = traceback.format_exc()[-1500:]
        log.emit("Crash", err=info["exc"][-200:])
    if sc.get("stop_at") is None and state.get("t0") is not None:
        # baseline: instants of the group / transaction protocol steps (the quick tier stops around them on purpose)
        PROTO = {"JoinRequest", "JoinReply", "SyncRequest", "SyncReply", "GroupState", "OffsetCommitReply", "OffsetFetchReply",
                 "AddPartitionsReply", "EndTxnReply", "TxnPrepare", "InitPidReply", "FetchReply", "BrokerApply"}
        info["proto_times"] = sorted({round(t - state["t0"], 7) for e, t in tstamps if e in PROTO and t >= state["t0"]})
    out = []
    for ev in log.events:
        if ev["e"] not in ALPHABET and ev["e"] not in ("Hang", "Crash"):
            continue
        ev = dict(ev)
        ev.pop("seq", None)
        out.append(ev)
    return out, info
