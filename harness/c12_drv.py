"""Driver of C12: the REAL AIOKafkaConnection (and AIOKafkaClient.send) on the
virtual-time loop, talking to a tiny scripted peer.

A *script* is a list of steps executed at virtual times T0 + k*DT:
  ["send", api, via, to]   send a request of API `api` ("fc","lg","dr","apr","lpr"); via=1: through
                           AIOKafkaClient.send, via=0: AIOKafkaConnection.send; `to` = index of the
                           step just before which the request times out (None: after the script)
  ["frame", {...}]         the peer emits a response frame (appended to its output stream):
                           {"for": ordinal of the send whose API gives header form / response type,
                            "corr": "own" | int, "kind": "good"|"badbody"|"nohdr"|"neg"|"huge", "cut": n}
  ["chunk", n]             the next n bytes of the peer's output stream arrive (data_received)
  ["eof"] ["reset"]        the peer half-closes / the transport is lost with ConnectionResetError
  ["cancel", ordinal]      the task awaiting that send() is cancelled
  ["close"]                conn.close()
  ["probe"]                record connected() and the queue length
  ["nop"]                  nothing (a slot for a timeout to fire before)
Timeouts fire at half steps, so no two causally unrelated things share an instant.

Everything observable is logged as events (the trace TLC validates against
Connection.tla, see spec/Trace_Connection.tla):  Config, Send (correlation id /
api / header form parsed from the bytes the client WROTE), SendRefused,
PeerFrame, Chunk, Frame (one _handle_frame call: frame length, head request,
result), Timeout, Cancel, Close (reason), Eof, Reset, Outcome (what the
awaitable of send() produced; for a response, the unique marker carried in its
body), Probe / End.
"""
from __future__ import annotations

import asyncio
import struct

from . import simloop

DT = 2.0 ** -7
FLEX_ON_WIRE = {(21, 2), (45, 0), (46, 0)}     # Kafka: flexible versions among the APIs used here
API_KEYS = {"fc": 10, "lg": 16, "dr": 21, "apr": 45, "lpr": 46}
WRAP = 2 ** 31


def make_request(api):
    from aiokafka.protocol.admin import (AlterPartitionReassignmentsRequest, DeleteRecordsRequest,
                                         ListGroupsRequest, ListPartitionReassignmentsRequest)
    from aiokafka.protocol.coordination import FindCoordinatorRequest
    if api == "fc":
        return FindCoordinatorRequest("grp", 0)
    if api == "lg":
        return ListGroupsRequest()
    if api == "dr":
        return DeleteRecordsRequest([("t", [(0, 1)])], 1000)
    if api == "apr":
        return AlterPartitionReassignmentsRequest(1000, [], {})
    if api == "lpr":
        return ListPartitionReassignmentsRequest(1000, [], {})
    raise ValueError(api)


def response_class(api, versions):
    """the response type Kafka prescribes for (api, negotiated version)"""
    from aiokafka.protocol import admin, coordination
    v = versions[api]
    return {"fc": [coordination.FindCoordinatorResponse_v0, coordination.FindCoordinatorResponse_v1],
            "lg": [admin.ListGroupsResponse_v0, admin.ListGroupsResponse_v1, admin.ListGroupsResponse_v2],
            "dr": [admin.DeleteRecordsResponse_v0, admin.DeleteRecordsResponse_v1, admin.DeleteRecordsResponse_v2],
            "apr": [admin.AlterPartitionReassignmentsResponse_v0],
            "lpr": [admin.ListPartitionReassignmentsResponse_v0]}[api][v]


def response_body(api, versions, mark):
    """body of a response whose content carries the unique marker"""
    cls = response_class(api, versions)
    v = versions[api]
    if api == "fc":
        obj = cls(0, mark, "h", 9092) if v == 0 else cls(mark, 0, "", 7, "h", 9092)
    elif api == "lg":
        obj = cls(0, [("g%09d" % mark, "consumer")]) if v == 0 else cls(mark, 0, [("g", "consumer")])
    elif api == "dr":
        obj = cls(mark, [("t", [(0, 5, 0)])]) if v < 2 else cls(mark, [("t", [(0, 5, 0, {})], {})], {})
    elif api == "apr":
        obj = cls(mark, 0, "", [], {})
    else:
        obj = cls(mark, 0, "", [], {})
    return obj.encode()


def marker_of(api, versions, resp):
    v = versions[api]
    if api == "fc" and v == 0:
        return resp.coordinator_id
    if api == "lg" and v == 0:
        return int(resp.groups[0][0][1:])
    return resp.throttle_time_ms


def is_flex(api, versions):
    return (API_KEYS[api], versions[api]) in FLEX_ON_WIRE


def build_frame(api, versions, corr, f, mark):
    """bytes of one response frame for a request of `api` + its abstract description
    (what Connection.tla calls a frame).  kinds: good | badbody (header + 1 byte: no
    response type decodes from that) | nohdr (only `cut` bytes of the header) | neg / huge
    (size field negative / 2^30 in front of a good frame)"""
    flex = is_flex(api, versions)
    hdr = struct.pack(">i", corr) + (b"\x00" if flex else b"")
    body = response_body(api, versions, mark)
    kind = f["kind"]
    msg = hdr + body
    rec = {"e": "PeerFrame", "corr": corr, "sz": "ok", "hdr": True, "body": True, "flex": flex, "mark": mark}
    if kind == "badbody":
        msg = hdr + body[:1]
        rec["body"] = False
    elif kind == "nohdr":
        msg = hdr[:min(f.get("cut", 2), len(hdr) - 1)]
        rec["hdr"] = False
        rec["body"] = False
    size = len(msg)
    if kind == "neg":
        size, rec["sz"] = -1 - f.get("cut", 0), "neg"
    elif kind == "huge":
        size, rec["sz"] = 2 ** 30, "huge"
    rec["len"] = len(msg)
    return struct.pack(">i", size) + msg, rec


class PeerTransport(asyncio.Transport):
    def __init__(self, loop, peer, protocol):
        super().__init__()
        self.loop, self.peer, self.protocol = loop, peer, protocol
        self.closing = False
        self.lost = False
        self.rx = bytearray()

    def get_extra_info(self, name, default=None):
        return {"peername": ("peer", 9092), "sockname": ("client", 40000)}.get(name, default)

    def is_closing(self):
        return self.closing

    def write(self, data):
        if self.closing:
            return
        self.rx += data
        while len(self.rx) >= 4:
            (n,) = struct.unpack_from(">i", self.rx, 0)
            if len(self.rx) < 4 + n:
                break
            frame = bytes(self.rx[4:4 + n])
            del self.rx[:4 + n]
            self.peer.on_request(self, frame)

    def writelines(self, lines):
        self.write(b"".join(lines))

    def can_write_eof(self):
        return False

    def get_write_buffer_size(self):
        return 0

    def get_write_buffer_limits(self):
        return (0, 0)

    def set_write_buffer_limits(self, high=None, low=None):
        pass

    def pause_reading(self):
        pass

    def resume_reading(self):
        pass

    def is_reading(self):
        return True

    def close(self):
        if self.closing:
            return
        self.closing = True
        self.loop.call_soon(self._lost, None)

    def abort(self):
        self.close()

    def _lost(self, exc):
        if not self.lost:
            self.lost = True
            self.protocol.connection_lost(exc)

    # ---- peer side
    def deliver(self, data):
        if self.closing:
            return False
        self.protocol.data_received(data)
        return True

    def peer_eof(self):
        if self.closing:
            return False
        self.protocol.eof_received()        # StreamReaderProtocol keeps a plain transport open
        return True

    def peer_reset(self):
        if self.closing:
            return False
        self.closing = True
        self.loop.call_soon(self._lost, ConnectionResetError("reset by peer"))
        return True


class Peer:
    """`net` object of simloop: one listening peer; answers the ApiVersionRequest of
    connect() itself, afterwards only records what the client writes."""

    def __init__(self, versions, log):
        self.versions, self.log = versions, log
        self.tr = None
        self.handshake = True
        self.requests = []          # (corr, api_key, api_version) parsed from written bytes

    def attach(self, loop):
        self.loop = loop

    async def create_connection(self, loop, protocol_factory, host, port, **kw):
        await asyncio.sleep(0.0005)
        protocol = protocol_factory()
        self.tr = PeerTransport(loop, self, protocol)
        protocol.connection_made(self.tr)
        return self.tr, protocol

    def on_request(self, tr, frame):
        api_key, api_version, corr = struct.unpack_from(">hhi", frame, 0)
        if self.handshake and api_key == 18:
            from aiokafka.protocol.admin import ApiVersionResponse_v0
            body = ApiVersionResponse_v0(0, [(API_KEYS[a], 0, v) for a, v in self.versions.items()]).encode()
            msg = struct.pack(">i", corr) + body
            self.loop.call_soon(tr.deliver, struct.pack(">i", len(msg)) + msg)
            return
        self.requests.append((corr, api_key, api_version))


def run_script(sc):
    """-> (events, info)"""
    import logging
    logging.disable(logging.CRITICAL)
    ev = []
    versions = dict(sc["versions"])
    peer = Peer(versions, ev)
    info = {"hang": None, "exc": None}

    async def main(loop):
        from aiokafka import errors as Errors
        from aiokafka.client import AIOKafkaClient, ConnectionGroup
        from aiokafka.conn import AIOKafkaConnection

        client = AIOKafkaClient(bootstrap_servers="peer:9092", client_id="c12", request_timeout_ms=40000)
        conn = AIOKafkaConnection("peer", 9092, client_id="c12", request_timeout_ms=40000,
                                  on_close=client._on_connection_closed)
        st = {"in_frame": None, "n": 0, "deadline": None}
        fut_idx = {}            # id(fut) -> (spec index, fut)  (the future is kept alive)
        user_cancelled = set()
        corr_of = {}

        timed_out = set()

        def emit(e):
            """log an event; futures found cancelled (by their timeout) are logged first, so the
            log order is the real order even when several timers fire in the same instant"""
            for i, f in list(fut_idx.values()):
                if f.cancelled() and i not in user_cancelled and i not in timed_out:
                    timed_out.add(i)
                    ev.append({"e": "Timeout", "i": i})
            ev.append(e)

        # ---- observation hooks on the instance (the code of the class is untouched)
        orig_hf, orig_close, orig_send = conn._handle_frame, conn.close, conn.send

        def head_idx():
            if not conn._requests:
                return 0
            return fut_idx.get(id(conn._requests[0][2]), (-1,))[0]

        def hf(resp):
            e = {"e": "Frame", "n": len(resp), "head": head_idx(), "out": "", "reason": ""}
            pre_done = conn._requests[0][2].done() if conn._requests else None
            st["in_frame"] = e
            try:
                orig_hf(resp)
            except BaseException as x:  # noqa: BLE001
                e["out"] = "raise"
                e["exc"] = type(x).__name__
                emit(e)
                raise
            finally:
                st["in_frame"] = None
            if conn._reader is None:
                e["out"] = "mismatch"
            elif pre_done:
                e["out"] = "skip"
            else:
                e["out"] = "ok"
            emit(e)

        def close(reason=None, exc=None):
            effective = conn._reader is not None
            r = orig_close(reason=reason, exc=exc)
            if effective:
                name = "NONE" if reason is None else reason.name
                if st["in_frame"] is not None:
                    st["in_frame"]["reason"] = name
                else:
                    emit({"e": "Close", "reason": name, "exc": type(exc).__name__ if exc else ""})
            return r

        def send(request, expect_response=True):
            if st["deadline"] is not None:
                conn._request_timeout = st["deadline"] - loop.time()
            nreq = len(peer.requests)
            coro = orig_send(request, expect_response=expect_response)     # raises when refused
            st["n"] += 1
            i = st["n"]
            fut = conn._requests[-1][2]
            fut_idx[id(fut)] = (i, fut)
            st["last"] = i
            corr_of[i] = conn._requests[-1][0]
            if len(peer.requests) == nreq + 1:
                corr, key, ver = peer.requests[-1]
            else:                  # nothing reached the peer (transport already closing)
                corr, key, ver = conn._requests[-1][0], request.API_KEY, conn._requests[-1][1].API_VERSION
            emit({"e": "Send", "i": i, "corr": corr, "flex": (key, ver) in FLEX_ON_WIRE,
                       "quirk": (key, ver) == (10, 0), "via": bool(st["via"])})

            def fut_done(f, i=i):
                if f.cancelled() and i not in user_cancelled and i not in timed_out:
                    timed_out.add(i)
                    ev.append({"e": "Timeout", "i": i})
            fut.add_done_callback(fut_done)
            return coro

        conn._handle_frame, conn.close, conn.send = hf, close, send
        st["via"] = False
        st["deadline"] = None
        await conn.connect()
        peer.handshake = False
        st["n"] = 0
        fut_idx.clear()
        del ev[:]
        client._conns[(0, ConnectionGroup.DEFAULT)] = conn
        if sc.get("corr0") is not None:
            conn._correlation_id = sc["corr0"]
        emit({"e": "Config", "corr0": conn._correlation_id})

        steps = sc["steps"]
        t0 = float(int(loop.time()) + 1)
        t_end = t0 + (len(steps) + 4) * DT
        out = bytearray()           # the peer's output stream, not yet delivered
        tasks = []                  # per send ordinal: dict(task, api, i)
        nmark = [0]

        def classify(t, rec):
            if t.cancelled():
                return {"k": "cancelled"}
            x = t.exception()
            if x is None:
                resp = t.result()
                if type(resp) is not response_class(rec["api"], versions):
                    return {"k": "wrongtype", "type": type(resp).__name__}
                return {"k": "ok", "mark": marker_of(rec["api"], versions, resp)}
            if isinstance(x, Errors.CorrelationIdError):
                return {"k": "corrErr"}
            if isinstance(x, Errors.KafkaConnectionError):
                return {"k": "connErr"}
            if isinstance(x, (Errors.RequestTimedOutError, asyncio.TimeoutError)):
                return {"k": "timeout"}
            return {"k": "other", "exc": type(x).__name__ + ": " + str(x)[:80]}

        def start_send(api, via, to):
            rec = {"api": api, "i": None, "task": None}
            # default: after the script, every request in an instant of its own
            deadline = (t0 + to * DT - DT / 2) if to is not None else t_end + len(tasks) * DT
            st["via"], st["deadline"], st["last"] = via, deadline, None
            if via:
                # run client.send up to its first suspension right now (it reaches conn.send
                # synchronously: ready() does not suspend on a connected connection)
                coro = client.send(0, make_request(api))
                task = loop.create_task(coro)
            else:
                try:
                    coro = conn.send(make_request(api))
                except Errors.KafkaConnectionError:
                    emit({"e": "SendRefused"})
                    tasks.append(rec)
                    return
                rec["i"] = st["last"]
                task = loop.create_task(coro)
            rec["task"] = task
            rec["via"] = via
            rec["deadline"] = deadline
            tasks.append(rec)

            def done(t, rec=rec):
                if rec["i"] is None:
                    emit({"e": "SendRefused", "exc": "" if t.cancelled() else type(t.exception()).__name__})
                    return
                # atdl: the request's own deadline had expired in the instant its awaitable completed (timers of equal
                # deadline fire in one loop iteration: a waiter failed by the close that ANOTHER request's timeout
                # triggered may still report its own timeout)
                emit({"e": "Outcome", "i": rec["i"], "atdl": bool(loop.time() >= rec["deadline"] - 1e-9), **classify(t, rec)})
            task.add_done_callback(done)

        def probe(name):
            pend = sorted(r["i"] for r in tasks if r["task"] is not None and not r["task"].done() and r["i"])
            emit({"e": name, "connected": bool(conn.connected()), "qlen": len(conn._requests), "pending": pend})

        for k, step in enumerate(steps):
            delay = t0 + k * DT - loop.time()
            if delay > 0:
                await asyncio.sleep(delay)
            op = step[0]
            if op == "send":
                _, api, via, to = step
                start_send(api, via, to)
                if via:
                    # let client.send reach conn.send, then learn its spec index
                    st_before = st["n"]
                    await asyncio.sleep(0)
                    rec = tasks[-1]
                    if st["n"] == st_before + 1:
                        rec["i"] = st["n"]
            elif op == "nop":
                pass
            elif op == "frame":
                if peer.tr.closing or st.get("peer_done"):
                    continue            # the peer cannot send any more
                f = step[1]
                nmark[0] += 1
                mark = nmark[0]
                tgt = tasks[f["for"] - 1] if 0 < f["for"] <= len(tasks) else None
                api = tgt["api"] if tgt else f.get("api", "lg")
                if f["corr"] == "own":
                    corr = corr_of.get(tgt["i"], 0) if tgt else 0
                elif isinstance(f["corr"], list):          # ["of", ordinal]: the id of another request
                    o = tasks[f["corr"][1] - 1] if 0 < f["corr"][1] <= len(tasks) else None
                    corr = corr_of.get(o["i"], 0) if o else 0
                else:
                    corr = f["corr"]
                data, rec_ = build_frame(api, versions, corr, f, mark)
                out += data
                emit(rec_)
            elif op == "chunk":
                n = min(step[1], len(out))
                if n > 0 and not st.get("peer_done"):
                    data = bytes(out[:n])
                    if peer.tr.deliver(data):
                        del out[:n]
                        emit({"e": "Chunk", "n": n})
            elif op == "eof":
                if not st.get("peer_done") and peer.tr.peer_eof():
                    st["peer_done"] = True
                    emit({"e": "Eof"})
            elif op == "reset":
                if peer.tr.peer_reset():
                    emit({"e": "Reset"})
            elif op == "cancel":
                rec = tasks[step[1] - 1] if 0 < step[1] <= len(tasks) else None
                if rec and rec["task"] is not None and not rec["task"].done() and rec["i"]:
                    user_cancelled.add(rec["i"])
                    emit({"e": "Cancel", "i": rec["i"]})
                    rec["task"].cancel()
            elif op == "close":
                conn.close()
            elif op == "probe":
                probe("Probe")
            else:
                raise ValueError(op)
        live = [r["task"] for r in tasks if r["task"] is not None]
        try:
            if live:
                await asyncio.wait(live)
            await asyncio.sleep(DT)
        finally:
            info["final"] = True
        probe("End")
        return None

    def main_guard(loop):
        return main(loop)

    try:
        simloop.run(main_guard, seed=sc.get("seed", 0), net=peer, horizon=3600.0)
    except simloop.Stuck as s:
        info["hang"] = str(s)
        ev.append({"e": "End", "connected": False, "qlen": -1, "pending": [-1], "hang": str(s)[:80]})
    except Exception as x:  # noqa: BLE001
        import traceback
        info["exc"] = traceback.format_exc()
        ev.append({"e": "Crash", "err": type(x).__name__ + ": " + str(x)[:120]})
    return ev, info
