"""Drives several REAL AIOKafkaConsumer group members on the simulated cluster and
records a trace for Trace_Group.tla (C04, C05, C06).

Scenario (JSON-able):
  seed, topics {"t": nparts, "u": nparts}, loglen, nnodes,
  join_max (JoinGroup max version advertised: 0,1,2,5),
  members [ {start: seconds, subs: [topics], assignors: ["roundrobin","range","sticky"],
             auto_commit: bool, commit_interval_ms, explicit_commit_every: n|None,
             listener_sleep: seconds, mode: "getmany"|"getone",
             end: ["stop", t] | ["kill", t] | None, resub: [t, [topics]] | None} ... ],
  faults {budget, p, apis, codes_by_api, kinds, slow}, failover [t, node, keep_state] | None,
  duration: seconds of activity before the quiet period
"""
from __future__ import annotations

import asyncio
import random

from . import observe, simcluster, simgroup, simloop, simnet
from .drv_producer import FaultDirector
from .simloop import OWNER

GROUP = "g"
SESSION_MS = 3000
HEARTBEAT_MS = 500
REBALANCE_MS = 3000
REQUEST_MS = 5000     # must exceed the rebalance timeout: a JoinGroup sits in the barrier that long
BACKOFF_MS = 50

ALPHABET = {"Config", "JoinRequest", "JoinReply", "SyncRequest", "SyncReply", "HeartbeatReply", "OffsetCommitReply",
            "OffsetFetchReply", "LeaveGroup", "GroupState", "SessionExpired", "RebalanceTimeoutKick", "GroupFailover",
            "Fault", "BeginReassign", "Adopt", "RevokeStart", "RevokeEnd", "AssignStart", "AssignEnd", "Take",
            "ResetTo", "Started", "StopCall", "Stopped", "Killed", "SubChange", "Unassign", "End", "EndDelivery", "Hang", "Crash", "TopicGrows",
            "ClientError"}

GROUP_CODES = {"JoinGroup": [14, 15, 16, 25], "SyncGroup": [15, 16, 22, 25, 27], "Heartbeat": [15, 16, 22, 25, 27],
               "OffsetCommit": [14, 15, 16, 22, 25, 27, 7], "FindCoordinator": [15], "OffsetFetch": [14, 16]}


def txn_shape(rng, nrec):
    """A log written by two transactional producers and a plain one, every transaction decided (LSO = log end).
    -> (shape for simcluster.build_log, offsets a read_committed consumer must never be handed: the markers and the
    records of aborted transactions)"""
    shape, hidden, off, nd, open_t = [], [], 0, 0, {}
    while nd < nrec or open_t:
        if open_t and (nd >= nrec or rng.random() < 0.4):
            pid = rng.choice(sorted(open_t))
            kind = rng.choice(["commit", "abort"])
            shape.append(dict(kind=kind, off=off, pid=pid))
            hidden.append(off)
            if kind == "abort":
                hidden += open_t[pid]
            del open_t[pid]
            off += 1
            continue
        n = rng.randrange(1, 3)
        offs = list(range(off, off + n))
        b = dict(kind="data", offs=offs, last=offs[-1], base=off, magic=2)
        pid = rng.choice([7, 8, 8, None])
        if pid is not None:
            b.update(pid=pid, txnl=True)
            open_t.setdefault(pid, []).extend(offs)
        shape.append(b)
        off += n
        nd += n
    return shape, sorted(hidden)


def run_scenario(sc: dict):
    from aiokafka import AIOKafkaConsumer, ConsumerRebalanceListener
    from aiokafka.consumer.fetcher import FetchResult
    from aiokafka.consumer.subscription_state import Subscription, TopicPartitionState, Assignment
    from aiokafka.coordinator.assignors.range import RangePartitionAssignor
    from aiokafka.coordinator.assignors.roundrobin import RoundRobinPartitionAssignor
    from aiokafka.coordinator.assignors.sticky.sticky_assignor import StickyPartitionAssignor
    from aiokafka.coordinator.protocol import ConsumerProtocol
    from aiokafka.structs import TopicPartition

    ASSIGNORS = {"roundrobin": RoundRobinPartitionAssignor, "range": RangePartitionAssignor,
                 "sticky": StickyPartitionAssignor}
    seed = sc["seed"]
    rng = random.Random(seed)
    log = observe.EventLog()
    director = FaultDirector(rng, sc.get("faults", {}))
    cl = simcluster.Cluster(log, nodes=tuple(range(sc["nnodes"])), director=director, rng=rng)
    hidden = {}
    for t, n in sc["topics"].items():
        cl.add_topic(t, [rng.randrange(sc["nnodes"]) for _ in range(n)])
        for p in range(n):
            if sc.get("txnlog"):
                shape, hid = txn_shape(rng, sc["loglen"])
                hidden[f"{t}-{p}"] = hid
                simcluster.build_log(cl.parts[(t, p)], shape)
                continue
            simcluster.build_log(cl.parts[(t, p)], [dict(kind="data", offs=list(range(sc["loglen"])),
                                                         last=sc["loglen"] - 1, base=0)] if sc["loglen"] else [])
    gsim = simgroup.GroupCoordinatorSim(cl)
    cl.api_versions[11] = (0, sc.get("join_max", 5))
    net = simnet.SimNet(cl)
    tpn = lambda tp: f"{tp.topic}-{tp.partition}"  # noqa: E731
    info = {"hang": None, "exc": None}
    st_tp, st_asg, keep = {}, {}, []

    W = observe.Wrappers()

    def who():
        return OWNER.get() or "?"

    def after_assignment_init(self_, a, kw, r, ex):
        if ex is None:
            for tp, st in self_._tp_state.items():
                st_tp[id(st)] = tpn(tp)
                st_asg[id(st)] = self_
                keep.append(st)

    W.wrap(Assignment, "__init__", after=after_assignment_init)
    W.wrap(Subscription, "_begin_reassignment", after=lambda s, a, k, r, e: log.emit("BeginReassign", c=who()))
    W.wrap(Subscription, "_assign",
           after=lambda s, a, k, r, e: log.emit("Adopt", c=who(), tps=sorted(tpn(t) for t in a[0]), ok=e is None))
    W.wrap(Assignment, "_unassign", after=lambda s, a, k, r, e: log.emit("Unassign", c=who()))
    W.wrap(TopicPartitionState, "reset_to",
           after=lambda s, a, k, r, e: log.emit("ResetTo", c=who(), tp=st_tp.get(id(s), "?"), off=a[0],
                                                # a late lookup result may land on the state object of an assignment
                                                # that was replaced meanwhile: nobody reads that object any more
                                                dropped=not getattr(st_asg.get(id(s)), "active", True)))

    def pos_of(fr):
        st = fr._assignment.state_value(fr._topic_partition)
        return -1 if st is None or st._position is None else st._position

    W.wrap(FetchResult, "getall", after=lambda s, a, k, r, e: e is None and log.emit(
        "Take", c=who(), tp=tpn(s._topic_partition), offs=[m.offset for m in r], pos=pos_of(s)))
    W.wrap(FetchResult, "getone", after=lambda s, a, k, r, e: e is None and log.emit(
        "Take", c=who(), tp=tpn(s._topic_partition), offs=([] if r is None else [r.offset]), pos=pos_of(s)))

    class Listener(ConsumerRebalanceListener):
        def __init__(self, name, cons_ref, nap):
            self.name, self.cons_ref, self.nap = name, cons_ref, nap

        async def on_partitions_revoked(self, revoked):
            log.emit("RevokeStart", c=self.name, tps=sorted(tpn(t) for t in revoked))
            if self.nap:
                await asyncio.sleep(self.nap)
            log.emit("RevokeEnd", c=self.name)

        async def on_partitions_assigned(self, assigned):
            log.emit("AssignStart", c=self.name, tps=sorted(tpn(t) for t in assigned))
            if self.nap:
                await asyncio.sleep(self.nap)
            cons = self.cons_ref[0]
            log.emit("AssignEnd", c=self.name, api=sorted(tpn(t) for t in cons.assignment()))

    consumers = {}
    stopped = {}

    async def member(i, spec, loop):
        name = f"c{i}"
        OWNER.set(name)
        await asyncio.sleep(spec.get("start", 0))
        ref = [None]
        cons = AIOKafkaConsumer(
            bootstrap_servers="broker0:9092", group_id=GROUP, client_id=name, auto_offset_reset="earliest",
            request_timeout_ms=REQUEST_MS, session_timeout_ms=SESSION_MS, heartbeat_interval_ms=HEARTBEAT_MS,
            rebalance_timeout_ms=spec.get("rebalance_timeout_ms", REBALANCE_MS), retry_backoff_ms=BACKOFF_MS,
            metadata_max_age_ms=sc.get("metadata_max_age_ms", 4000),
            enable_auto_commit=spec.get("auto_commit", True), auto_commit_interval_ms=spec.get("commit_interval_ms", 900),
            partition_assignment_strategy=tuple(ASSIGNORS[a] for a in spec["assignors"]), fetch_max_wait_ms=100,
            max_poll_records=spec.get("max_poll_records"),
            isolation_level="read_committed" if sc.get("txnlog") else "read_uncommitted")
        ref[0] = cons
        consumers[name] = cons
        cons.subscribe(spec["subs"], listener=Listener(name, ref, spec.get("listener_sleep", 0)))
        try:
            await cons.start()
        except Exception as e:  # noqa: BLE001
            log.emit("ClientError", c=name, where="start", err=type(e).__name__)
            stopped[name] = True            # never became a member: not "live" for the end-of-run checks
            try:
                await cons.stop()
            except BaseException:  # noqa: BLE001
                pass
            return
        log.emit("Started", c=name)
        n = 0
        every = spec.get("explicit_commit_every")
        while not stopped.get(name):
            try:
                if spec.get("mode") == "getone":
                    try:
                        await asyncio.wait_for(cons.getone(), timeout=0.3)
                        got = 1
                    except asyncio.TimeoutError:
                        got = 0
                else:
                    r = await cons.getmany(timeout_ms=100)
                    got = sum(len(v) for v in r.values())
                n += got
                if every and got and n % every == 0:
                    try:
                        await cons.commit()
                    except Exception as e:  # noqa: BLE001  (CommitFailedError during rebalance is legal)
                        log.emit("ClientError", c=name, where="commit", err=type(e).__name__)
            except asyncio.CancelledError:
                raise
            except Exception as e:  # noqa: BLE001
                log.emit("ClientError", c=name, where="consume", err=type(e).__name__)
                await asyncio.sleep(0.05)

    async def main(loop):
        OWNER.set("driver")
        log.t0 = loop.time()
        log.clock = loop.time
        subs = {f"c{i}": m["subs"] for i, m in enumerate(sc["members"])}
        log.emit("Config", clients=[f"c{i}" for i in range(len(sc["members"]))],
                 assignors={f"c{i}": m["assignors"] for i, m in enumerate(sc["members"])},
                 subs=subs, parts={t: [f"{t}-{p}" for p in range(n)] for t, n in sc["topics"].items()},
                 loglen=sc["loglen"], join_max=sc.get("join_max", 5), request_ms=REQUEST_MS, hidden=hidden,
                 topic_of={f"{t}-{p}": t for t, n in sc["topics"].items() for p in range(n + len(sc.get("grow", [])) + (1 if sc.get("grow_at_sync") else 0))})
        tasks = {}
        for i, m in enumerate(sc["members"]):
            ctx = __import__("contextvars").copy_context()
            tasks[f"c{i}"] = ctx.run(asyncio.ensure_future, member(i, m, loop))

        async def ender(name, kind, t):
            await asyncio.sleep(t)
            if kind == "kill":
                log.emit("Killed", c=name)
                stopped[name] = True
                loop.kill(name)
            else:
                cons = consumers.get(name)
                if cons is None:
                    return
                stopped[name] = True
                log.emit("StopCall", c=name)
                OWNER.set(name)
                try:
                    await asyncio.wait_for(cons.stop(), timeout=20)
                    log.emit("Stopped", c=name, ok=True)
                except BaseException as e:  # noqa: BLE001
                    log.emit("Stopped", c=name, ok=False, err=type(e).__name__)
                OWNER.set("driver")

        async def resub(name, t, topics):
            await asyncio.sleep(t)
            cons = consumers.get(name)
            if cons is not None and not stopped.get(name):
                log.emit("SubChange", c=name, topics=topics)
                OWNER.set(name)
                cons.subscribe(topics, listener=cons._subscription._listener)
                OWNER.set("driver")

        extra = []
        for i, m in enumerate(sc["members"]):
            if m.get("end"):
                extra.append(asyncio.ensure_future(ender(f"c{i}", m["end"][0], m["end"][1])))
            if m.get("resub"):
                extra.append(asyncio.ensure_future(resub(f"c{i}", m["resub"][0], m["resub"][1])))
        for t_, topic_, p_, k_ in sc.get("appends", []):
            # records produced while the group is running (a rebalance may be in progress when they arrive)
            def do_append(topic_=topic_, p_=p_, k_=k_):
                pl = cl.parts[(topic_, p_)]
                simcluster.build_log(pl, [{"kind": "data", "offs": list(range(pl.leo, pl.leo + k_)), "last": pl.leo + k_ - 1,
                                           "magic": 2}])
            loop.call_later(t_, do_append, context=cl.ctx)
        for t_, topic_ in sc.get("grow", []):
            # the topic gains a partition while the group is running: the leader must trigger a rebalance for it
            def do_grow(topic_=topic_):
                n = len([1 for (tt, _p) in cl.parts if tt == topic_])
                cl.parts[(topic_, n)] = simcluster.PartitionLog(topic_, n, rng.randrange(sc["nnodes"]), 0)
                log.emit("TopicGrows", topic=topic_, tp=f"{topic_}-{n}")
            loop.call_later(t_, do_grow, context=cl.ctx)
        if sc.get("grow_at_sync"):
            # ... exactly while the leader's SyncGroup is in flight: the reply is held long enough for the leader's
            # next periodic metadata refresh to see the new partition
            nth, topic_, hold = sc["grow_at_sync"]
            orig_plan_g = director.plan
            seen = [0]

            def plan_g(cluster, ctx):
                pln = orig_plan_g(cluster, ctx)
                if ctx.api == "SyncGroup" and len(getattr(ctx.req, "group_assignment", None) or getattr(ctx.req, "assignments", None) or []) > 0:
                    seen[0] += 1
                    if seen[0] == nth:
                        n = len([1 for (tt, _p) in cl.parts if tt == topic_])
                        cl.parts[(topic_, n)] = simcluster.PartitionLog(topic_, n, rng.randrange(sc["nnodes"]), 0)
                        log.emit("TopicGrows", topic=topic_, tp=f"{topic_}-{n}")
                        pln.delay_out = max(pln.delay_out, hold)
                return pln
            director.plan = plan_g
        if sc.get("slow_offset_fetch") or sc.get("noleader"):
            orig_plan = director.plan

            def plan(cluster, ctx):
                pln = orig_plan(cluster, ctx)
                if ctx.api == "OffsetFetch" and sc.get("slow_offset_fetch"):
                    pln.delay_out = max(pln.delay_out, sc["slow_offset_fetch"])
                return pln
            director.plan = plan
            for topic_, p_, dur_ in sc.get("noleader", []):
                director.stale[(topic_, p_)] = -1
                loop.call_later(dur_, lambda k=(topic_, p_): director.stale.pop(k, None), context=cl.ctx)
        if sc.get("failover"):
            t, node, keep_state = sc["failover"]
            loop.call_later(t, lambda: gsim.failover(GROUP, node, keep_state=keep_state), context=cl.ctx)
        await asyncio.sleep(sc.get("duration", 3.0))
        # quiet period: session timeout + rebalance timeout + a few heartbeats, then a window in
        # which only heartbeats (and commits) may happen
        director.budget = 0
        await asyncio.sleep((SESSION_MS + REBALANCE_MS + REQUEST_MS) / 1000 + 4 * HEARTBEAT_MS / 1000 + 2.0)
        mark = len(log.events)
        await asyncio.sleep(2 * SESSION_MS / 1000)
        window = log.events[mark:]
        live = [n for n in consumers if not stopped.get(n)]
        fin = {}
        for n in live:
            c = consumers[n]
            co = c._coordinator
            fin[n] = dict(gen=co.generation, member=co.member_id, tps=sorted(tpn(t) for t in c.assignment()),
                          hb=sum(1 for e in window if e["e"] == "HeartbeatReply" and e.get("code") == 0
                                 and e.get("member") == co.member_id),
                          rejoin=bool(co._rejoin_needed_fut.done()))
        g = gsim.group(GROUP)
        log.emit("End", live=live, fin=fin, ggen=g.generation, gstate=g.state, gmembers=sorted(g.members),
                 joins_in_window=sum(1 for e in window if e["e"] == "JoinRequest"),
                 committed={f"{t}-{p}": g.offsets.get((t, p), (-1, ""))[0] for (t, p) in cl.parts},
                 parts={t: sorted(f"{t}-{p}" for (tt, p) in cl.parts if tt == t) for t in sc["topics"]})
        log.emit("EndDelivery", live=live, leo={f"{t}-{p}": pl.leo for (t, p), pl in cl.parts.items()})
        for n in live:
            stopped[n] = True
            OWNER.set(n)
            try:
                await asyncio.wait_for(consumers[n].stop(), timeout=20)
            except BaseException:  # noqa: BLE001
                pass
        OWNER.set("driver")
        for t in list(tasks.values()) + extra:
            if not t.done():
                t.cancel()
        await asyncio.sleep(0)

    try:
        with W:
            simloop.run(main, seed=seed, net=net, horizon=sc.get("horizon", 900))
    except simloop.Stuck as e:
        info["hang"] = str(e)
        log.emit("Hang", why=str(e)[:80])
    except Exception as e:  # noqa: BLE001
        import traceback
        info["exc"] = traceback.format_exc()[-1500:]
        log.emit("Crash", err=type(e).__name__, msg=str(e)[:120])
    # projection: member ids -> client names, SyncReply assignments decoded by the driver
    out = []
    for ev in log.events:
        if ev["e"] not in ALPHABET:
            continue
        ev = dict(ev)
        if "c" not in ev:
            ev["c"] = ev.get("client") or (ev["member"].split("-m")[0] if ev.get("member") else "")
        if "raw" in ev:
            raw = ev.pop("raw")
            tps = []
            if raw:
                a = ConsumerProtocol.ASSIGNMENT.decode(raw)
                tps = sorted(f"{t}-{p}" for t, ps in a.assignment for p in ps)
            ev["tps"] = tps
        out.append(ev)
    return out, info
