"""Event log shared by the simulated cluster, the drivers and the method-boundary
wrappers installed on the (scratch copy of the) real code.

aiokafka is single-threaded asyncio: every synchronous method and every stretch
between two awaits is atomic and the deterministic loop totally orders all
events, so the position in this list is a correct linearisation order."""
from __future__ import annotations

import functools


class EventLog:
    def __init__(self):
        self.events: list[dict] = []
        self.enabled = True
        self.clock = None        # optional: callable returning virtual seconds; adds t (ms) to events
        self.t0 = 0.0

    def emit(self, e: str, **fields):
        if self.enabled:
            fields["e"] = e
            if self.clock is not None:
                fields["t"] = int((self.clock() - self.t0) * 1000)
            self.events.append(fields)
        return fields

    def __len__(self):
        return len(self.events)


class Wrappers:
    """Installs logging wrappers on methods of the real code; restores on exit.
    A missing target is a machinery failure, never a verdict."""

    def __init__(self):
        self._undo = []

    def wrap(self, cls, name, after=None, before=None):
        from .tlc import MachineryError
        if not hasattr(cls, name):
            raise MachineryError(f"wrapper target missing: {cls.__name__}.{name}")
        orig = getattr(cls, name)

        @functools.wraps(orig)
        def w(self_, *a, **kw):
            if before is not None:
                before(self_, a, kw)
            try:
                r = orig(self_, *a, **kw)
            except BaseException as ex:
                if after is not None:
                    after(self_, a, kw, None, ex)
                raise
            if after is not None:
                after(self_, a, kw, r, None)
            return r

        setattr(cls, name, w)
        self._undo.append((cls, name, orig))

    def wrap_async(self, cls, name, after=None, before=None):
        from .tlc import MachineryError
        if not hasattr(cls, name):
            raise MachineryError(f"wrapper target missing: {cls.__name__}.{name}")
        orig = getattr(cls, name)

        @functools.wraps(orig)
        async def w(self_, *a, **kw):
            if before is not None:
                before(self_, a, kw)
            try:
                r = await orig(self_, *a, **kw)
            except BaseException as ex:
                if after is not None:
                    after(self_, a, kw, None, ex)
                raise
            if after is not None:
                after(self_, a, kw, r, None)
            return r

        setattr(cls, name, w)
        self._undo.append((cls, name, orig))

    def restore(self):
        for cls, name, orig in reversed(self._undo):
            setattr(cls, name, orig)
        self._undo.clear()

    def __enter__(self):
        return self

    def __exit__(self, *a):
        self.restore()
