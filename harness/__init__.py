"""Verification harness for aiokafka (model-based, TLA+)."""
