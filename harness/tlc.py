"""TLC plumbing: model-checking runs and batched trace validation."""
from __future__ import annotations

import json
import os
import re
import shutil
import subprocess
import tempfile
import time
from concurrent.futures import ThreadPoolExecutor
from pathlib import Path

VERIF = Path(__file__).resolve().parent.parent
SPEC = VERIF / "spec"
JAR = "/opt/veriftools/tla/tla2tools.jar:/opt/veriftools/tla/CommunityModules-deps.jar"
SCRATCH = os.environ.get("VERIF_SCRATCH", "/var/tmp")


class MachineryError(RuntimeError):
    """TLC crashed / spec does not parse / output not understood (exit 2)."""


def _java(extra_props=(), heap="6g", small=False):
    if small:   # trace / table JVMs: single worker, small heap, no GC thread army
        return ["java", "-XX:+UseSerialGC", f"-Xmx{heap}", "-Xss256m", *extra_props, "-cp", JAR, "tlc2.TLC"]
    return ["java", "-XX:+UseParallelGC", f"-Xmx{heap}", "-Xss512m", *extra_props, "-cp", JAR, "tlc2.TLC"]


_RE_STATES = re.compile(r"(\d+) states generated, (\d+) distinct states found, (\d+) states left on queue")
_RE_DEPTH = re.compile(r"The depth of the complete state graph search is (\d+)")
_RE_INV = re.compile(r"Error: Invariant (\S+) is violated")
_RE_PROP = re.compile(r"Error: (Action property|Temporal properties?) (.*?)(?: is| were) violated", re.S)
_RE_COV = re.compile(r"^<(\w+) line \d+, col \d+ to line \d+, col \d+ of module \w+(?: \([\d ]+\))?>: (\d+):(\d+)", re.M)


def mc(module: str, cfg: str, *, workers: int | str = "auto", timeout: int = 1800,
       simulate: str | None = None, depth: int | None = None, coverage: bool = True,
       env: dict | None = None, heap: str = "8g", seed: int | None = None,
       extra: list[str] | None = None, spec_dir: Path = SPEC, deadlock: bool = False) -> dict:
    """Run TLC on spec_dir/module.tla with spec_dir/cfg.  Returns a dict with
    ok, states (generated = transitions explored), distinct, depth, violated,
    coverage {action: (distinct, total)}, wall_s, output."""
    meta = Path(tempfile.mkdtemp(prefix="tlc-meta-", dir=SCRATCH))
    cmd = _java(heap=heap) + ["-workers", str(workers), "-metadir", str(meta),
                              "-noGenerateSpecTE", "-config", cfg]
    if coverage and not simulate:
        cmd += ["-coverage", "1"]
    if simulate:
        cmd += ["-simulate", simulate]
    if depth:
        cmd += ["-depth", str(depth)]
    if seed is not None:
        cmd += ["-seed", str(seed)]
    if deadlock:
        pass
    if extra:
        cmd += extra
    cmd.append(module + ".tla")
    e = dict(os.environ)
    if env:
        e.update({k: str(v) for k, v in env.items()})
    t0 = time.time()
    try:
        p = subprocess.run(cmd, cwd=spec_dir, env=e, capture_output=True, text=True, timeout=timeout)
        out = p.stdout + p.stderr
        rc = p.returncode
        timed_out = False
    except subprocess.TimeoutExpired as ex:
        out = (ex.stdout or b"").decode(errors="replace") if isinstance(ex.stdout, bytes) else (ex.stdout or "")
        rc = -9
        timed_out = True
    finally:
        shutil.rmtree(meta, ignore_errors=True)
    wall = time.time() - t0
    res = {"cmd": " ".join(cmd[cmd.index("tlc2.TLC"):]), "rc": rc, "wall_s": round(wall, 2),
           "timed_out": timed_out, "output": out}
    ms = _RE_STATES.findall(out)
    if ms:
        g, d, q = ms[-1]
        res.update(states=int(g), distinct=int(d), queue=int(q))
    md = _RE_DEPTH.search(out)
    if md:
        res["depth"] = int(md.group(1))
    viol = None
    mi = _RE_INV.search(out)
    if mi:
        viol = mi.group(1)
    elif "is violated" in out or "violated." in out or "Temporal properties were violated" in out:
        mp = re.search(r"Error: (.*violated.*)", out)
        viol = mp.group(1) if mp else "property"
    elif "Deadlock reached" in out:
        viol = "Deadlock"
    res["violated"] = viol
    cov = {}
    for m in _RE_COV.finditer(out):
        name, dist, tot = m.groups()
        a = cov.setdefault(name, [0, 0])
        a[0] += int(dist)
        a[1] += int(tot)
    res["coverage"] = cov
    finished = "Model checking completed" in out or "Finished in" in out
    res["ok"] = bool(finished and viol is None and rc == 0)
    if not finished and viol is None and not timed_out:
        raise MachineryError(f"TLC failed on {module}/{cfg} rc={rc}:\n{out[-3000:]}")
    if simulate and timed_out:
        res["ok"] = viol is None
    return res


def counterexample(out: str, limit: int = 6000) -> str:
    i = out.find("Error:")
    return out[i:i + limit] if i >= 0 else ""


# ---------------------------------------------------------------------------
# batched trace validation


def _validate_shard(module: str, cfg: str, traces: list, spec_dir: Path, env: dict | None,
                    timeout: int, dfs: bool) -> list[dict]:
    work = Path(tempfile.mkdtemp(prefix="tlc-trace-", dir=SCRATCH))
    try:
        tf = work / "traces.json"
        vf = work / "verdicts.json"
        tf.write_text(json.dumps(traces))
        props = ["-Dtlc2.tool.queue.IStateQueue=StateDeque"] if dfs else []
        cmd = _java(props, heap="3g", small=True) + ["-workers", "1", "-metadir", str(work / "meta"),
                                         "-noGenerateSpecTE", "-config", cfg, module + ".tla"]
        e = dict(os.environ)
        e.update(TRACE_FILE=str(tf), VERDICT_FILE=str(vf), DIAG="0")
        if env:
            e.update({k: str(v) for k, v in env.items()})
        p = subprocess.run(cmd, cwd=spec_dir, env=e, capture_output=True, text=True, timeout=timeout)
        out = p.stdout + p.stderr
        if not vf.exists():
            k = out.find("Error:")
            raise MachineryError(f"trace validation {module}: no verdict file rc={p.returncode}\n"
                                 + (out[k:k + 2500] if k >= 0 else out[-3000:]))
        ver = json.loads(vf.read_text())
        if len(ver) != len(traces):
            raise MachineryError(f"trace validation {module}: {len(ver)} verdicts for {len(traces)} traces")
        ms = _RE_STATES.findall(out)
        st = int(ms[-1][1]) if ms else 0
        for v in ver:
            v["accepted"] = v["reached"] == v["need"]
            b = v.get("bad")
            v["bad_l"], v["bad_name"] = (b[0], b[1]) if b else (0, "")
        ver[0]["_tlc_states"] = st
        return ver
    finally:
        shutil.rmtree(work, ignore_errors=True)


def validate(module: str, cfg: str, traces: list, *, shard: int = 200, jobs: int = 8,
             spec_dir: Path = SPEC, env: dict | None = None, timeout: int = 1800,
             dfs: bool = False) -> tuple[list[dict], int]:
    """Validate traces (each a list of event dicts) against spec_dir/module.tla.
    Returns (verdicts aligned with traces, total TLC states)."""
    if not traces:
        return [], 0
    shards = [traces[i:i + shard] for i in range(0, len(traces), shard)]
    with ThreadPoolExecutor(max_workers=jobs) as ex:
        parts = list(ex.map(lambda s: _validate_shard(module, cfg, s, spec_dir, env, timeout, dfs), shards))
    ver = [v for part in parts for v in part]
    states = sum(part[0].get("_tlc_states", 0) for part in parts)
    return ver, states


def sany(module: str, spec_dir: Path = SPEC) -> None:
    p = subprocess.run(["java", "-cp", JAR, "tla2sany.SANY", module + ".tla"], cwd=spec_dir,
                       capture_output=True, text=True)
    if p.returncode != 0 or "error" in p.stdout.lower() and "Semantic errors" in p.stdout:
        raise MachineryError(p.stdout[-3000:])


# ---------------------------------------------------------------------------
# table evaluation: TLC as an independent evaluator of a spec operator over a
# table of cases recorded from the implementation (spec writes {n, bad:[i..]})


def _table_shard(module, cfg, cases, spec_dir, env, timeout):
    work = Path(tempfile.mkdtemp(prefix="tlc-table-", dir=SCRATCH))
    try:
        tf, vf = work / "cases.json", work / "verdicts.json"
        tf.write_text(json.dumps(cases))
        cmd = _java(heap="3g", small=True) + ["-workers", "1", "-metadir", str(work / "meta"),
                                  "-noGenerateSpecTE", "-config", cfg, module + ".tla"]
        e = dict(os.environ)
        e.update(TRACE_FILE=str(tf), VERDICT_FILE=str(vf))
        if env:
            e.update({k: str(v) for k, v in env.items()})
        p = subprocess.run(cmd, cwd=spec_dir, env=e, capture_output=True, text=True, timeout=timeout)
        out = p.stdout + p.stderr
        if not vf.exists() or "Model checking completed" not in out:
            raise MachineryError(f"table evaluation {module}: rc={p.returncode}\n{out[-4000:]}")
        v = json.loads(vf.read_text())
        if v["n"] != len(cases):
            raise MachineryError(f"table evaluation {module}: {v['n']} != {len(cases)}")
        ms = _RE_STATES.findall(out)
        return sorted(i - 1 for i in v["bad"]), (int(ms[-1][1]) if ms else 0), (int(ms[-1][0]) if ms else 0)
    finally:
        shutil.rmtree(work, ignore_errors=True)


def run_table(module: str, cfg: str, cases: list, *, shard: int = 2000, jobs: int = 12,
              spec_dir: Path = SPEC, env: dict | None = None, timeout: int = 1800):
    """Returns (bad case indices (0-based, global), distinct states, generated states)."""
    shards = [(o, cases[o:o + shard]) for o in range(0, len(cases), shard)]
    with ThreadPoolExecutor(max_workers=jobs) as ex:
        parts = list(ex.map(lambda s: _table_shard(module, cfg, s[1], spec_dir, env, timeout), shards))
    bad, st, gen = [], 0, 0
    for (o, _), (b, s, g) in zip(shards, parts):
        bad += [o + i for i in b]
        st += s
        gen += g
    return bad, st, gen
