"""Scratch build of /repo's *current working tree*.

Every check imports aiokafka from a private snapshot of /repo (python sources
copied as they are now, Cython extensions rebuilt from the current
.pyx/.pxd/.pxi/.c/.h files).  The compiled extensions are cached by a hash of
their sources under /verif/.build-cache (git-ignored, rebuilt when missing), so
only a change to the extension sources costs the ~7 s compile.
"""
from __future__ import annotations

import hashlib
import os
import shutil
import subprocess
import sys
import tempfile
from pathlib import Path

REPO = Path(os.environ.get("VERIF_REPO", "/repo"))
VERIF = Path(__file__).resolve().parent.parent
CACHE = VERIF / ".build-cache"
PY = "/venv/bin/python"
EXT_SUFFIXES = (".pyx", ".pxd", ".pxi", ".c", ".h")


def _ext_sources(root: Path):
    d = root / "aiokafka" / "record" / "_crecords"
    files = sorted(
        p for p in d.iterdir()
        if p.suffix in (".pyx", ".pxd", ".pxi", ".h") or p.name == "crc32c.c"
    )
    return files + [root / "setup.py"]


def _hash_ext(root: Path) -> str:
    h = hashlib.sha256()
    for p in _ext_sources(root):
        h.update(p.name.encode())
        h.update(b"\0")
        h.update(p.read_bytes())
        h.update(b"\0")
    return h.hexdigest()[:20]


def snapshot(dest: Path | None = None) -> Path:
    """Copy /repo's working tree (python + ext sources) to a scratch dir and make
    sure its compiled extensions correspond to the current sources."""
    if dest is None:
        base = os.environ.get("VERIF_SCRATCH", "/var/tmp")
        dest = Path(tempfile.mkdtemp(prefix="aiokafka-verif-", dir=base))
    pkg = dest / "aiokafka"
    if pkg.exists():
        shutil.rmtree(pkg)
    shutil.copytree(
        REPO / "aiokafka", pkg,
        ignore=shutil.ignore_patterns("*.so", "__pycache__", "*.pyc",
                                      "cutil.c", "default_records.c",
                                      "legacy_records.c", "memory_records.c"),
    )
    shutil.copy(REPO / "setup.py", dest / "setup.py")
    for extra in ("pyproject.toml", "README.rst", "MANIFEST.in"):
        if (REPO / extra).exists():
            shutil.copy(REPO / extra, dest / extra)
    key = _hash_ext(dest)
    cdir = CACHE / key
    crec = pkg / "record" / "_crecords"
    if not (cdir / "ok").exists():
        # build in place in the scratch copy
        env = dict(os.environ)
        env.pop("PYTHONPATH", None)
        r = subprocess.run(
            [PY, "setup.py", "-q", "build_ext", "--inplace", "-j", "4"],
            cwd=dest, env=env, capture_output=True, text=True,
        )
        sos = list(crec.glob("*.so"))
        if r.returncode != 0 or len(sos) < 4:
            sys.stderr.write(r.stdout[-4000:] + r.stderr[-4000:])
            raise RuntimeError("MACHINERY: cython build of /repo working tree failed")
        tmp = CACHE / (key + ".tmp%d" % os.getpid())
        tmp.mkdir(parents=True, exist_ok=True)
        for so in sos:
            shutil.copy(so, tmp / so.name)
        (tmp / "ok").write_text("ok")
        try:
            tmp.rename(cdir)
        except OSError:
            shutil.rmtree(tmp, ignore_errors=True)
        shutil.rmtree(dest / "build", ignore_errors=True)
        _prune_cache(keep=key)
    else:
        for so in cdir.glob("*.so"):
            shutil.copy(so, crec / so.name)
    return dest


def _prune_cache(keep: str, maxn: int = 4):
    ents = sorted((p for p in CACHE.iterdir() if p.is_dir() and p.name != keep),
                  key=lambda p: p.stat().st_mtime, reverse=True)
    for p in ents[maxn - 1:]:
        shutil.rmtree(p, ignore_errors=True)


class Scratch:
    """Context manager: snapshot on enter, removed on exit."""

    def __init__(self):
        self.path: Path | None = None

    def __enter__(self) -> Path:
        self.path = snapshot()
        return self.path

    def __exit__(self, *a):
        if self.path is not None:
            shutil.rmtree(self.path, ignore_errors=True)


def activate(path: Path):
    """Make `import aiokafka` resolve to the snapshot in this process."""
    sys.path.insert(0, str(path))
    for m in list(sys.modules):
        if m == "aiokafka" or m.startswith("aiokafka."):
            del sys.modules[m]
    import aiokafka  # noqa
    assert Path(aiokafka.__file__).resolve().is_relative_to(path.resolve()), aiokafka.__file__


if __name__ == "__main__":
    import time
    t = time.time()
    with Scratch() as p:
        print(p, time.time() - t)
        activate(p)
        import aiokafka
        from aiokafka.record._crecords import default_records
        print(aiokafka.__file__, default_records.__file__)
