"""Regenerates MANIFEST.json from the table below (single source of truth)."""
import json
from pathlib import Path

VERIF = Path(__file__).resolve().parent.parent

CLAIMED = {
    "C17": dict(
        technique="TLA+ spec of murmur2/partition choice (Partitioner.tla) evaluated by TLC over a table recorded from the real functions",
        category="model_checking",
        text="TLC evaluates the TLA+ definition of the Java client's murmur2 and partition choice (anchored on Java-computed values) "
             "against every recorded output of the real murmur2 / DefaultPartitioner / AIOKafkaProducer._partition: all keys of length 0..1, "
             "all (thorough) or 4000 sampled (quick) of length 2, every tail length x high-bit pattern, random keys to 4 KiB, partition counts 1..1000, "
             "every availability subset of <=4 partitions. A pure function over inputs: bounded-exhaustive evaluation against an independent spec is the right level.",
        design_ref="4/C17",
        note="Trusted: the TLA+ transcription of murmur2 (pinned by six Java-computed anchors as ASSUMEs), TLC, the JSON table plumbing.",
    ),
}

NOT_APPLICABLE = {
    "C10": "memory safety of C-level reads on hostile bytes has no TLA+ state to bind to; outcome depends on heap neighbours (needs sanitizers, a different technique) - see DESIGN.md section 5",
}

PENDING_REASON = "check not built yet in this session (specification planned in DESIGN.md section 4; not claimed until its check exists)"


def main():
    props = [json.loads(l)["id"] for l in (VERIF / "properties.jsonl").read_text().splitlines() if l.strip()]
    checks = []
    for pid in props:
        if pid not in CLAIMED:
            continue
        c = CLAIMED[pid]
        checks.append({
            "property_id": pid,
            "quick_cmd": f"./check {pid} --tier quick",
            "thorough_cmd": f"./check {pid} --tier thorough",
            "evidence_file": f"/verif/evidence/{pid}.json",
            "replay_cmd_template": f"./check {pid} --replay {{path}}",
            "engine": "tlc",
            "level_claimed": {"category": c["category"], "text": c["text"], "design_ref": c["design_ref"]},
            "level_note": c["note"],
            "technique": c["technique"],
        })
    na = []
    for pid in props:
        if pid in CLAIMED:
            continue
        na.append({"property_id": pid, "reason": NOT_APPLICABLE.get(pid, PENDING_REASON)})
    man = {
        "version": 1,
        "setup_cmd": "./setup.sh",
        "hooks": {
            "guard": "AIOKAFKA_VERIF",
            "enable": "no in-repo hooks: the harness (harness/observe.py) wraps method boundaries of the scratch copy of /repo's working tree at import time when AIOKAFKA_VERIF=1; /repo itself is unmodified",
            "baseline_off_cmd": "cd /repo && /venv/bin/python -m pytest -ra -q -p no:cacheprovider --timeout=900 --continue-on-collection-errors",
            "source_commits": [],
            "add_only": True,
        },
        "engines": [
            {"name": "tlc", "path": "/verif/harness/tlc.py", "serves_properties": sorted(CLAIMED),
             "kind_free_text": "TLC 1.8 model checking of the TLA+ specs in /verif/spec + TLC trace/table validation of executions of the real code"},
        ],
        "checks": checks,
        "not_applicable": na,
        "notes": "Every check: scratch snapshot + Cython rebuild of /repo's working tree, TLC model checking of the spec, real code driven and its traces validated by TLC. See DESIGN.md.",
    }
    (VERIF / "MANIFEST.json").write_text(json.dumps(man, indent=1) + "\n")


if __name__ == "__main__":
    main()
