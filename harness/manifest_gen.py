"""Regenerates MANIFEST.json from the table below (single source of truth)."""
import json
from pathlib import Path

VERIF = Path(__file__).resolve().parent.parent

CLAIMED = {
    "C17": dict(
        technique="TLA+ spec of murmur2/partition choice (Partitioner.tla) evaluated by TLC over a table recorded from the real functions",
        category="model_checking",
        text="TLC evaluates the TLA+ definition of the Java client's murmur2 and partition choice (anchored on Java-computed values) "
             "against every recorded output of the real murmur2 / DefaultPartitioner / AIOKafkaProducer._partition: all keys of length 0..1, "
             "all (thorough) or 4000 sampled (quick) of length 2, every tail length x high-bit pattern, random keys to 4 KiB, partition counts 1..1000, "
             "every availability subset of <=4 partitions. A pure function over inputs: bounded-exhaustive evaluation against an independent spec is the right level.",
        design_ref="4/C17",
        note="Trusted: the TLA+ transcription of murmur2 (pinned by six Java-computed anchors as ASSUMEs), TLC, the JSON table plumbing.",
    ),
}

CLAIMED["C01"] = dict(
    technique="TLA+ spec ProducerCore model-checked by TLC (all interleavings + retriable fault budget) + TLC trace validation of the real producer on a simulated cluster",
    category="model_checking",
    text="ProducerCore.tla models accumulator, sender, sequence stamping, metadata view and the leaders' idempotence rules with one action per "
         "critical section; TLC exhaustively checks OneInFlightPerPartition, SeqContiguous (no gap/reuse/out-of-range sequence shown to any broker), "
         "LogFromAccepted, TaskOrder, AtMostOnce, AckedExactlyOnce, DuplicatesAreWholeBatches under every placement of a bounded number of retriable faults, "
         "with the sequence space wrapping inside the run. The real AIOKafkaProducer then runs on a deterministic virtual-time loop against a simulated cluster "
         "(real wire protocol, independent batch reader) over hundreds/thousands of seeded scenarios with faults, leader moves and stale metadata; every run's event "
         "trace must be a behaviour of the spec and every invariant is evaluated at every step by TLC. Schedules/fault sequences/histories are exactly what "
         "model checking + trace validation enumerate.",
    design_ref="4/C01",
    note="Trusted: TLC; the simulated cluster's Kafka rules (its own steps are validated by the same trace spec); aiokafka's request/response codecs used to decode "
         "requests at the simulated broker; asyncio FIFO scheduling on the virtual-time loop. Bounds stated in evidence.",
)
CLAIMED["C02"] = dict(
    technique="same ProducerCore spec: TLC invariants + liveness (EventuallyResolved under fairness) + trace validation of send() future resolutions of the real producer",
    category="model_checking",
    text="On ProducerCore.tla TLC checks ResolvedAtMostOnce, TrueCoordinates (offset, timestamp and timestamp type equal the log's), Acks0NoMetadata, IdemNeverFails "
         "and the temporal property <>[]AllResolved under weak fairness with a finite fault budget. On the real code, done-callbacks of every send() future are logged "
         "with the actual RecordMetadata and TLC compares them, at every step, with the partition log reconstructed from what the simulated brokers appended "
         "(independent batch reader); flush()/stop() returns and the post-fault quiet period are trace actions that are only enabled when everything accepted is resolved. "
         "Configurations: acks 0/1/all, idempotent or not, CreateTime/LogAppendTime, Produce v0..v7, explicit/default timestamps in every order.",
    design_ref="4/C02",
    note="As C01. Default (None) timestamps come from the C-level wall clock of the compiled builder and are rank-compressed by the projection; explicit timestamps are exact.",
)

NOT_APPLICABLE = {
    "C10": "memory safety of C-level reads on hostile bytes has no TLA+ state to bind to; outcome depends on heap neighbours (needs sanitizers, a different technique) - see DESIGN.md section 5",
}

PENDING_REASON = "check not built yet in this session (specification planned in DESIGN.md section 4; not claimed until its check exists)"


def main():
    props = [json.loads(l)["id"] for l in (VERIF / "properties.jsonl").read_text().splitlines() if l.strip()]
    checks = []
    for pid in props:
        if pid not in CLAIMED:
            continue
        c = CLAIMED[pid]
        checks.append({
            "property_id": pid,
            "quick_cmd": f"./check {pid} --tier quick",
            "thorough_cmd": f"./check {pid} --tier thorough",
            "evidence_file": f"/verif/evidence/{pid}.json",
            "replay_cmd_template": f"./check {pid} --replay {{path}}",
            "engine": "tlc",
            "level_claimed": {"category": c["category"], "text": c["text"], "design_ref": c["design_ref"]},
            "level_note": c["note"],
            "technique": c["technique"],
        })
    na = []
    for pid in props:
        if pid in CLAIMED:
            continue
        na.append({"property_id": pid, "reason": NOT_APPLICABLE.get(pid, PENDING_REASON)})
    man = {
        "version": 1,
        "setup_cmd": "./setup.sh",
        "hooks": {
            "guard": "AIOKAFKA_VERIF",
            "enable": "no in-repo hooks: the harness (harness/observe.py) wraps method boundaries of the scratch copy of /repo's working tree at import time when AIOKAFKA_VERIF=1; /repo itself is unmodified",
            "baseline_off_cmd": "cd /repo && /venv/bin/python -m pytest -ra -q -p no:cacheprovider --timeout=900 --continue-on-collection-errors",
            "source_commits": [],
            "add_only": True,
        },
        "engines": [
            {"name": "tlc", "path": "/verif/harness/tlc.py", "serves_properties": sorted(CLAIMED),
             "kind_free_text": "TLC 1.8 model checking of the TLA+ specs in /verif/spec + TLC trace/table validation of executions of the real code"},
        ],
        "checks": checks,
        "not_applicable": na,
        "notes": "Every check: scratch snapshot + Cython rebuild of /repo's working tree, TLC model checking of the spec, real code driven and its traces validated by TLC. See DESIGN.md.",
    }
    (VERIF / "MANIFEST.json").write_text(json.dumps(man, indent=1) + "\n")


if __name__ == "__main__":
    main()
