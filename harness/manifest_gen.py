"""Regenerates MANIFEST.json from the table below (single source of truth)."""
import json
from pathlib import Path

VERIF = Path(__file__).resolve().parent.parent

CLAIMED = {
    "C17": dict(
        technique="TLA+ spec of murmur2/partition choice (Partitioner.tla) evaluated by TLC over a table recorded from the real functions",
        category="model_checking",
        text="TLC evaluates the TLA+ definition of the Java client's murmur2 and partition choice (anchored on Java-computed values) "
             "against every recorded output of the real murmur2 / DefaultPartitioner / AIOKafkaProducer._partition: all keys of length 0..1, "
             "all (thorough) or 4000 sampled (quick) of length 2, every tail length x high-bit pattern, random keys to 4 KiB, partition counts 1..1000, "
             "every availability subset of <=4 partitions. A pure function over inputs: bounded-exhaustive evaluation against an independent spec is the right level.",
        design_ref="4/C17",
        note="Trusted: the TLA+ transcription of murmur2 (pinned by six Java-computed anchors as ASSUMEs), TLC, the JSON table plumbing.",
    ),
}

CLAIMED["C01"] = dict(
    technique="TLA+ spec ProducerCore model-checked by TLC (all interleavings + retriable fault budget) + TLC trace validation of the real producer on a simulated cluster",
    category="model_checking",
    text="ProducerCore.tla models accumulator, sender, sequence stamping, metadata view and the leaders' idempotence rules with one action per "
         "critical section; TLC exhaustively checks OneInFlightPerPartition, SeqContiguous (no gap/reuse/out-of-range sequence shown to any broker), "
         "LogFromAccepted, TaskOrder, AtMostOnce, AckedExactlyOnce, DuplicatesAreWholeBatches under every placement of a bounded number of retriable faults, "
         "with the sequence space wrapping inside the run. The real AIOKafkaProducer then runs on a deterministic virtual-time loop against a simulated cluster "
         "(real wire protocol, independent batch reader) over hundreds/thousands of seeded scenarios with faults, leader moves and stale metadata; every run's event "
         "trace must be a behaviour of the spec and every invariant is evaluated at every step by TLC. Schedules/fault sequences/histories are exactly what "
         "model checking + trace validation enumerate.",
    design_ref="4/C01",
    note="Trusted: TLC; the simulated cluster's Kafka rules (its own steps are validated by the same trace spec); aiokafka's request/response codecs used to decode "
         "requests at the simulated broker; asyncio FIFO scheduling on the virtual-time loop. Bounds stated in evidence.",
)
CLAIMED["C02"] = dict(
    technique="same ProducerCore spec: TLC invariants + liveness (EventuallyResolved under fairness) + trace validation of send() future resolutions of the real producer",
    category="model_checking",
    text="On ProducerCore.tla TLC checks ResolvedAtMostOnce, TrueCoordinates (offset, timestamp and timestamp type equal the log's), Acks0NoMetadata, IdemNeverFails "
         "and the temporal property <>[]AllResolved under weak fairness with a finite fault budget. On the real code, done-callbacks of every send() future are logged "
         "with the actual RecordMetadata and TLC compares them, at every step, with the partition log reconstructed from what the simulated brokers appended "
         "(independent batch reader); flush()/stop() returns and the post-fault quiet period are trace actions that are only enabled when everything accepted is resolved. "
         "Configurations: acks 0/1/all, idempotent or not, CreateTime/LogAppendTime, Produce v0..v7, explicit/default timestamps in every order.",
    design_ref="4/C02",
    note="As C01. Default (None) timestamps come from the C-level wall clock of the compiled builder and are rank-compressed by the projection; explicit timestamps are exact.",
)

TRACE_NOTE = ("Trusted: TLC; the simulated cluster's Kafka rules (its own steps are validated by the same trace spec); aiokafka's "
              "request/response codecs at the simulated broker; the independent batch reader/writer harness/kbatch.py; asyncio FIFO scheduling "
              "on the virtual-time loop (futures/tasks hashed by creation order for reproducibility).")
CLAIMED["C03"] = dict(
    technique="TLA+ spec ConsumerFetch model-checked by TLC (every cut of fetch replies, seek/pause/reset interleavings, liveness) + TLC trace validation of the real consumer on a simulated cluster",
    category="model_checking",
    text="ConsumerFetch.tla models position/reset/pause state, the acceptance rule for fetch replies, the lazily consumed buffer and getone/getmany, "
         "against a DECLARATIVE visibility oracle over the partition log; TLC checks ExactlyVisibleOnceInOrder and PositionBounds over a family of log shapes, "
         "every cut of a reply at batch boundaries, seeks/pauses at any point, both isolation levels, plus the liveness property ReachesEnd under fairness. "
         "The real AIOKafkaConsumer then runs on the virtual-time loop against simulated leaders serving real v0/v1/v2 bytes; every Take (FetchResult.getone/getall), "
         "Return (what the application got), Set/Del of the fetch buffer, Seek/AwaitReset/ResetTo/Pause/Resume and leader reply is an event TLC must explain with "
         "the spec's actions, invariants evaluated at every step, and a quiescent End event demands that delivery reached the end of the log.",
    design_ref="4/C03", note=TRACE_NOTE)
CLAIMED["C08"] = dict(
    technique="TLA+ spec IsolationFilter (step-by-step filter == declarative visibility, exhaustive over a log family) + spec-enumerated cases replayed into the real PartitionRecords + end-to-end TLC trace validation",
    category="model_checking",
    text="IsolationFilter.tla models PartitionRecords._unpack_records branch by branch (consume aborted index, abort marker, skip aborted batch, skip control, "
         "yield) and TLC proves, for every log of <=4-5 batches from 8 templates (2 producers' transactional data, commit/abort markers incl. solitary ones, plain data, "
         "compaction holes), every start offset, every cut and both isolation levels, with the aborted index in the broker's (marker) order, that its output equals the "
         "declarative visibility and that the position ends past everything filtered. The same case family is enumerated by the harness (count compared with TLC's "
         "initial states in the thorough tier), concretised as real v2 bytes with control records and pushed through the real PartitionRecords with both the compiled and "
         "the pure-Python reader; TLC judges each recorded (records, next_fetch_offset). End-to-end, the real consumer reads transactional logs on the simulated cluster "
         "(ConsumerFetch trace validation).",
    design_ref="4/C08", note=TRACE_NOTE)
CLAIMED["C13"] = dict(
    technique="ConsumerFetch reset sub-machine model-checked by TLC + TLC trace validation of the real consumer's reset path (OffsetFetch/ListOffsets faults, seek at varied instants)",
    category="model_checking",
    text="UseCommitted / NoCommitted / AwaitReset / ApplyReset / FetchOutOfRange / Seek of ConsumerFetch.tla carry C13 as action guards: a fresh partition takes the "
         "committed offset when one exists, else the configured policy; a reset result must be the broker's log start / log end for the isolation level; policy none "
         "surfaces NoOffsetForPartition / OffsetOutOfRange; Seek always wins. TLC explores committed in {absent, inside, below start, beyond end} x 3 policies x 2 levels "
         "x a seek at every state. The real consumer (group and group-less, ListOffsets v0..v3 brokers, lookups dropped/timed out/answered with retriable errors, "
         "a seek() 0-100 ms after assignment) is traced and TLC must explain every ResetTo/AwaitReset/ErrorSet event with those guarded actions.",
    design_ref="4/C13", note=TRACE_NOTE + " Named deviation: a seek_to_beginning/end racing an in-flight lookup of the other strategy may receive that lookup's result (C13 speaks of explicit seek() only).")
CLAIMED["C09"] = dict(
    technique="TLA+ spec RecordBatchFormat (builder/reader/splitter life cycle + format arithmetic) model-checked by TLC; recorded builder/reader outputs of all four codec pairs judged by TLC",
    category="model_checking",
    text="RecordBatchFormat.tla holds the format rules as operators (v2 61-byte header layout, zig-zag varint lengths, record sizes, v0/v1 overheads, attribute bits, "
         "the batch-size rule) and the builder / reader / splitter state machines; TLC checks size accounting, the limit rule, lastOffsetDelta, first/max timestamp, "
         "closed-is-final and the splitter on its own, then evaluates thousands of recorded rows: each row holds both encoders' decisions, metadata, sizes, header bytes "
         "read back at the spec's offsets, and the round trip through all four (compiled, pure-Python) encoder/decoder pairs, CRC acceptance and single-bit-flip rejection, "
         "and splitter output on concatenations of mixed formats with a partial tail. PARTIAL (DESIGN 5): the numeric value of CRC-32C and compressed payload bytes are "
         "only cross-checked between implementations, not specified.",
    design_ref="4/C09, 5",
    note="Trusted: TLC; cramjam/zlib via aiokafka.codec; the harness 'broker step' that assigns offsets/LogAppendTime; no byte-level reference encoder for record framing (sizes + two independent decoders).")
CLAIMED["C11"] = dict(
    technique="TLA+ specs WireTypes (primitive codecs as byte-sequence operators) and ApiNegotiation (prepare/build/header/reply pairing) model-checked by TLC; exhaustive negotiation table and codec table of the real classes judged by TLC",
    category="model_checking",
    text="ApiNegotiation.tla states the negotiation rule (highest common version inside the broker's range, same key/version reply schema, header form by flexibility, "
         "inexpressible semantic parameter => IncompatibleBrokerVersion) and TLC explores it on the real classes' version lists; the harness calls the real Request.prepare() "
         "on EVERY builder x every 0<=lo<=hi<=12 (plus 'API not advertised') x every parameter combination (input space equality with the spec's checked by TLC) and TLC judges "
         "each outcome. WireTypes.tla defines Int8..64, (unsigned/zig-zag) varints, (compact) strings/bytes/arrays, tagged fields and the header forms as operators to "
         "Seq(0..255); TLC checks decode(encode(x))=x on small domains and judges the real encoders' bytes on boundary values and on generated values of all 206 struct classes "
         "(bytes must equal the spec's encoding of the schema shape). PARTIAL (DESIGN 5): field-by-field layout of the 100+ structs is compared with the spec's type-directed "
         "encoding of the library's own schema, not with Kafka's message definitions.",
    design_ref="4/C11, 5",
    note="Trusted: TLC; the Kafka fact tables inside the specs (first flexible version, lowest version per semantic parameter), anchored on literal bytes of tests/test_protocol.py; UTF-8/Float64 packing done by the harness.")
CLAIMED["C12"] = dict(
    technique="TLA+ spec Connection model-checked by TLC (chunking, bad frames, timeouts, cancels, wrap) + TLC trace validation of the real AIOKafkaConnection/AIOKafkaClient.send on a scripted peer + replay of TLC-simulated behaviours",
    category="model_checking",
    text="Connection.tla models send / byte chunks / _handle_frame / close with one action per branch (head-of-queue match, done waiter skipped but popped, mismatch -> "
         "CorrelationIdError + close, 0.8.2 quirk, decode failure, unsolicited frame, bad size, EOF, reset, waiter timeout via conn.send and via client.send, cancel); TLC checks "
         "OnlyOwnReply, InRequestOrder, FailureFailsAll, NoCrossDelivery, an action property and FailureCloses (liveness) for <=4 requests, every chunking at byte boundaries, "
         "correlation wrap inside the run. The real connection is driven on the virtual-time loop against a scripted peer: every split of the reply stream into <=3 chunks, "
         "random finer splits, every bad-frame kind at every position, EOF/reset at every byte, timeouts/cancels at 5 arrival phases, wrap at 2^31; each run's events "
         "(send with correlation id, chunk delivered, frame handled, waiter outcomes with the marker of the reply they got, close reason) must be a behaviour of the spec; "
         "TLC -simulate behaviours of the model are replayed into the real connection as scripts.",
    design_ref="4/C12", note="Trusted: TLC; the scripted in-memory transport; aiokafka's Response.encode used to build peer replies.")
CLAIMED["C14"] = dict(
    technique="TLA+ relational spec Assignors (Valid / RangeBalanced / RRBalancedIfIdentical / StickyBalanced) checked by TLC on a reference assignor; outputs of the real assign() on the exhaustive bounded input space judged by TLC",
    category="model_checking",
    text="Assignors.tla states validity (each partition of each subscribed topic with metadata has exactly one subscribed owner, nothing else assigned) and the three balance "
         "notions relationally; TLC checks a nondeterministic reference assignor against them (non-vacuity by ASSUMEs and by a mutated reference) and enumerates the bounded "
         "input space, whose cardinality must equal the number of inputs the harness ran. The real RangePartitionAssignor / RoundRobinPartitionAssignor / StickyPartitionAssignor "
         "run on every input (quick: <=3 members x <=2 topics x {no metadata,0..3 partitions} x every non-empty subscription; thorough: 4 x 3 x {none,0..4} = 609,144 inputs) plus random "
         "chains to 12 members x 8 topics x 12 partitions with real user-data round trips, each assign() under an alarm; TLC evaluates every recorded (input, output).",
    design_ref="4/C14", note="Trusted: TLC; a FakeCluster offering topics()/partitions_for_topic(); the protocol Struct codecs for user data.")
CLAIMED["C15"] = dict(
    technique="same Assignors spec: Unchanged / OnlyDepartedRedistributed / NewMembersTakeWithoutShuffling judged by TLC on two-round records of the real sticky assignor (user data through the real encoding)",
    category="model_checking",
    text="For every first-round input of C14's space the real sticky assignor is run again (a) unchanged, (b) minus every non-empty proper subset of members, (c) plus 1-2 new "
         "members, previous assignments travelling through StickyAssignorUserDataV1 and each member's class state; random chains of <=5 rounds; plus previous assignments generated "
         "by the spec's reference assignor. TLC evaluates the stickiness predicates on each recorded step (identical-subscription clauses only where the property claims them).",
    design_ref="4/C15", note="As C14. group_coordinator never calls on_generation_assignment, so both generation modes (-1 and tracked) are checked.")
CLAIMED["C18"] = dict(
    technique="TLA+ spec ScramHandshake with symbolic crypto terms, all server behaviours (honest / impostor / one-field tampering) model-checked by TLC; every spec behaviour concretised with hashlib and replayed into the real ScramAuthenticator, traces judged by TLC",
    category="model_checking",
    text="ScramHandshake.tla models the client generator step by step over symbolic terms (Hi, HMAC, H, XOR) against 12 server kinds; TLC checks ClientMessagesWellFormed, "
         "NonceMustExtend, DoneOnlyWithPasswordProof, DoneOnlyWithHonestServer, HonestServerAcceptsProof/NotRejected, deadlock freedom and termination. Every terminal behaviour is "
         "interpreted with real SHA-256/512 and driven through the real ScramAuthenticator; sampled cases cover user names with ',' '=' and non-ASCII, salts 1..64 bytes, iteration "
         "counts 1..20000, bit flips / truncation / wrong-password signatures; the client's messages are parsed back to terms, an independent RFC 5802 server verifies the proof, and "
         "TLC validates each recorded run against the spec.",
    design_ref="4/C18", note="Trusted: hashlib/hmac/base64/stringprep; TLC. Credentials restricted to SASLprep-stable ones (the client applies no SASLprep).")

CLAIMED["C04"] = dict(
    technique="TLA+ spec GroupMembership model-checked by TLC with a crash enabled in every state + TLC trace validation (Trace_Group) of real group members: commits vs. deliveries, start offsets, at-least-once",
    category="model_checking",
    text="GroupMembership.tla models members (join prepare with last commit, join, sync, adopt, deliver, commit, heartbeat, crash, restart) and Kafka's coordinator (join/sync barriers, "
         "generation and member checks on OffsetCommit); TLC checks CommitBehindDelivery, NoDeliveryBelowStart, CommittedWasDelivered for every interleaving with the crash point "
         "placed in every state, and the liveness property AtLeastOnce. Real consumers (1-4 members) run against the simulated coordinator with kills, stops, late joins, commit "
         "faults and fail-overs; Trace_Group.tla makes every accepted OffsetCommit, every first position of a newly owned partition and every delivery a guarded action "
         "(commit <= delivered prefix since the assignment's start; new owner starts at the committed offset it was given; deliveries contiguous from there), and a final event "
         "demands that every record was delivered by some incarnation. Class txnlog: logs written by two transactional producers and a plain one "
         "(committed and aborted transactions, markers), read_committed members; positions, accepted commits and the final coverage may step over markers and aborted records "
         "(Hidden(tp), computed by the driver from the log it wrote) and over nothing else, and none of them is handed out.",
    design_ref="4/C04", note=TRACE_NOTE + " Plain logs (every offset visible) except class txnlog.")
CLAIMED["C05"] = dict(
    technique="GroupMembership spec (TLC): AdoptedIsDistributed / DisjointWithinGeneration / RevokeBeforeAssign + Trace_Group guards on real members' Adopt, listener callbacks, deliveries",
    category="model_checking",
    text="TLC proves on the design model that an adopted assignment is exactly the one distributed for the generation, that assignments of one generation are disjoint and that every "
         "member's revoke callback precedes any assigned callback of the resulting generation (join barrier). On real runs the trace spec rejects: an Adopt that differs from the "
         "SyncGroup reply of that member and generation, overlaps another live member of the generation or contains an unsubscribed topic; assignment() differing from it; a JoinGroup "
         "sent before the member's on_partitions_revoked finished; on_partitions_assigned starting while a member of that generation is still inside its revoke callback; any record "
         "delivered while the reassignment gate is up, from a partition outside the live assignment, or after a subscription change superseded the subscription.",
    design_ref="4/C05", note=TRACE_NOTE + " Silence boundary = Subscription._assign (one await before on_partitions_assigned).")
CLAIMED["C06"] = dict(
    technique="GroupMembership spec (TLC liveness Converges under fairness, finite crash budget) + Trace_Group guards JoinAdvertisesAll / JoinThenSync / sync identity + quiescent-state convergence check on real runs",
    category="model_checking",
    text="TLC checks <>[]Converged on the design model under weak fairness with a finite budget of crashes/restarts. On real runs every JoinGroup request must advertise exactly the "
         "configured strategies in order, may not be sent while a successful JoinGroup reply still awaits its SyncGroup (unless a fault, fail-over, stop or subscription change for "
         "that member intervened) and the SyncGroup must carry the generation and member id the reply assigned; after the quiet period the End event demands: coordinator Stable, every "
         "live member in the latest generation with >= 1 successful heartbeat in the window and no rejoin pending, no JoinGroup in the window, assignments covering every partition of "
         "every subscribed topic. Fault matrix: JoinGroup v0/v1/v2/v5, all coordinator error codes of a per-API table, drops, lost replies, fail-over with/without state, session expiry.",
    design_ref="4/C06", note=TRACE_NOTE)

CLAIMED["C07"] = dict(
    technique="TLA+ spec TxnProducer model-checked by TLC (producer x transaction coordinator x leaders x marker writes, fault budget, crash/fence at any state; safety + liveness) + TLC trace validation of the real transactional producer against simulated coordinators",
    category="model_checking",
    text="TxnProducer.tla has one action per critical section of TransactionManager / Sender (begin, send -> pending partition, AddPartitionsToTxn, muted produce, "
         "AddOffsets/TxnOffsetCommit, flush_for_commit, EndTxn, error and fatal transitions) and of the coordinator (Ongoing/PrepareCommit/PrepareAbort/Empty, asynchronous markers, "
         "epoch fencing by a new instance); TLC checks ProtocolOrder, NoEndWhileUnacked, Atomicity, OffsetsAtomic, FatalIsFinal for every placement of the faults and of a crash, and "
         "EndsAsRequested / AbortRecovers under fairness. Trace_Txn.tla carries the same clauses as guards of trace actions: the real producer (real Sender, TransactionManager, accumulator, "
         "wire protocol) runs on the virtual-time loop against the simulated transaction coordinator; every API call/return, state transition, batch append/done/failure, request sent, "
         "coordinator reply, prepare, marker and leader append is an event, and at the End event TLC computes the read-committed view of the partition logs and of the group offsets and "
         "compares it with what each transaction's commit/abort returned. Kills are SIGKILLs at call boundaries and at random instants followed by a fencing replacement instance.",
    design_ref="4/C07", note=TRACE_NOTE)
CLAIMED["C16"] = dict(
    technique="TxnProducer API state machine under TLC + Trace_Txn: every call sequence over the transactional API alphabet (exhaustive to length 3 quick / 5 thorough, sampled to 6) x one injected retriable/abortable/fatal error, executed on the real producer and validated by TLC",
    category="model_checking",
    text="The Call/Return/TState actions of Trace_Txn.tla are the reference model of the documented API: a call is accepted only where the state machine allows it; an out-of-order call must raise, "
         "may not move the state machine, append a record or put a transactional request on the wire; a legal call fails only in/into an error state; abort issued in ABORTABLE_ERROR must succeed and the "
         "following transaction must commit; once FATAL_ERROR is entered no Produce/AddPartitions/AddOffsets/TxnOffsetCommit/EndTxn request leaves the client, every call raises and no send() future stays pending. "
         "Programs are enumerated, not sampled, up to the stated length; errors are injected at the n-th request of each transactional API (fencing is a real epoch bump at the coordinator).",
    design_ref="4/C16", note=TRACE_NOTE)

CLAIMED["C19"] = dict(
    technique="TLA+ spec Lifecycle (close sequences of consumer and producer; TLC safety + liveness from every configuration, defects expressible as switches that TLC must show failing) + TLC trace validation of real runs with stop() issued at every loop iteration x cluster condition",
    category="model_checking",
    text="Lifecycle.tla has one action per step of consumer.stop() (coordination task leaves its loop, final commit, LeaveGroup, GroupCoordinator/Fetcher/AIOKafkaClient close) and "
         "producer.stop() (flush raced against the sender, Sender/client close) over the projected state (live tasks per component, armed timers, open connections, membership, coordinator "
         "reachability); TLC checks NothingLeft, StopReturnsNormally, ClosedInOrder, BoundedWaits, LeftIfReachable, StaticStays and StopTerminates under fairness from every configuration. "
         "The driver first records the instant of every event-loop iteration of a workload (each network message and timer firing is one), then re-runs the real client once per stopping point x "
         "cluster condition (healthy, node down (reset), controlled shutdown (EOF), brokers closing every connection with EOF while staying up, node black-holed, all down, all black-holed, "
         "coordinator fail-over with/without state, group ACL revoked, producer fenced, group leader dead in the SyncGroup barrier, the member's own assignor failing as group leader) and records the measured state at StopCall, at the return of each "
         "component's close(), at StopReturn, after settling, plus the outcome of API calls made after stop and the LeaveGroup seen by the coordinator. Trace_Lifecycle.tla requires every event to be the "
         "corresponding Lifecycle action with the measured numbers, stop() to return normally within 2 x request + session + rebalance timeout + 1 s, nothing to be left, later calls to raise the "
         "documented error and a reachable, joined, non-static member to have left.",
    design_ref="4/C19", note=TRACE_NOTE + " Task/timer/connection liveness is measured on the simulation loop by owner attribution.")

NOT_APPLICABLE = {
    "C10": "memory safety of C-level reads on hostile bytes has no TLA+ state to bind to; outcome depends on heap neighbours (needs sanitizers, a different technique) - see DESIGN.md section 5",
}

PENDING_REASON = "check not built yet in this session (specification planned in DESIGN.md section 4; not claimed until its check exists)"


def main():
    props = [json.loads(l)["id"] for l in (VERIF / "properties.jsonl").read_text().splitlines() if l.strip()]
    checks = []
    for pid in props:
        if pid not in CLAIMED:
            continue
        c = CLAIMED[pid]
        checks.append({
            "property_id": pid,
            "quick_cmd": f"./check {pid} --tier quick",
            "thorough_cmd": f"./check {pid} --tier thorough",
            "evidence_file": f"/verif/evidence/{pid}.json",
            "replay_cmd_template": f"./check {pid} --replay {{path}}",
            "engine": "tlc",
            "level_claimed": {"category": c["category"], "text": c["text"], "design_ref": c["design_ref"]},
            "level_note": c["note"],
            "technique": c["technique"],
        })
    na = []
    for pid in props:
        if pid in CLAIMED:
            continue
        na.append({"property_id": pid, "reason": NOT_APPLICABLE.get(pid, PENDING_REASON)})
    man = {
        "version": 1,
        "setup_cmd": "./setup.sh",
        "hooks": {
            "guard": "AIOKAFKA_VERIF",
            "enable": "no in-repo hooks: the harness (harness/observe.py) wraps method boundaries of the scratch copy of /repo's working tree at import time when AIOKAFKA_VERIF=1; /repo itself is unmodified",
            "baseline_off_cmd": "cd /repo && /venv/bin/python -m pytest -ra -q -p no:cacheprovider --timeout=900 --continue-on-collection-errors",
            "source_commits": [],
            "add_only": True,
        },
        "engines": [
            {"name": "tlc", "path": "/verif/harness/tlc.py", "serves_properties": sorted(CLAIMED),
             "kind_free_text": "TLC 1.8 model checking of the TLA+ specs in /verif/spec + TLC trace/table validation of executions of the real code"},
        ],
        "checks": checks,
        "not_applicable": na,
        "notes": "Every check: scratch snapshot + Cython rebuild of /repo's working tree, TLC model checking of the spec, real code driven and its traces validated by TLC. See DESIGN.md.",
    }
    (VERIF / "MANIFEST.json").write_text(json.dumps(man, indent=1) + "\n")


if __name__ == "__main__":
    main()
