"""Drives the REAL AIOKafkaConsumer (manual assignment, with or without a group id)
on the simulated cluster and records a trace for Trace_ConsumerFetch.tla
(C03, C08, C13).

Scenario (JSON-able):
  seed, iso (0|1), policy ("earliest"|"latest"|"none"), group (bool), nnodes,
  leaders [node per partition], logs [shape per partition, see simcluster.build_log],
  hw_lag [per partition], committed [offset|None per partition],
  tasks [[op, ...], ...] with ops
     ["getone"] ["getone", [parts]] ["getmany", max|None, timeout_ms] ["getmany", max, timeout_ms, [parts]]
     ["seek", p, off] ["seek_beg", p] ["seek_end", p] ["pause", p] ["resume", p]
     ["position", p] ["sleep", seconds]
  faults {budget, p, kinds, codes, apis}, cut ("all"|"one"|"random"), env [[t,"move",p,node]],
  offsets_max / fetch_max: max ListOffsets / Fetch version the brokers advertise
"""
from __future__ import annotations

import asyncio
import collections
import random

from . import observe, simcluster, simgroup, simloop, simnet
from .drv_producer import FaultDirector

TOPIC = "t"
GROUP = "g"

ALPHABET = {"Config", "Seek", "AwaitReset", "ResetTo", "Pause", "Resume", "SeekToCall", "Set", "ErrorSet", "Del",
            "Clear", "Take", "Return", "Raised", "Position", "FetchReply", "End", "Hang", "Crash", "CallTimeout"}


class CutDirector(FaultDirector):
    def __init__(self, rng, spec, cut):
        super().__init__(rng, spec)
        self.cut = cut

    lo_race = None       # {"p", "delay"}: hold the reply to the first ListOffsets naming partition p (a position reset in flight)
    on_lo_race = None
    race = None          # {"p", "delay"}: hold the reply to the first Fetch of partition p at an out-of-range offset
    on_race = None       # ... and tell the driver, which seeks while that reply is in flight

    slow_offset_fetch = 0.0

    def plan(self, cluster, ctx):
        plan = super().plan(cluster, ctx)
        if ctx.api == "OffsetFetch" and self.slow_offset_fetch:
            plan.delay_out = max(plan.delay_out, self.slow_offset_fetch)
        if self.lo_race and ctx.api == "ListOffsets" and plan.fault is None:
            for topic, parts in ctx.req.topics:
                if any(pi[0] == self.lo_race["p"] for pi in parts):
                    plan.delay_out = max(plan.delay_out, self.lo_race["delay"])
                    cb, self.lo_race = self.on_lo_race, None
                    if cb:
                        cb()
                    return plan
        if self.race and ctx.api == "Fetch" and plan.fault is None:
            for topic, parts in ctx.req.topics:
                for pinfo in parts:
                    off = pinfo[2] if ctx.v >= 9 else pinfo[1]
                    pl = cluster.parts.get((topic, pinfo[0]))
                    if pl is not None and pinfo[0] == self.race["p"] and pl.leader == ctx.node \
                            and (off < pl.log_start or off > pl.leo):
                        plan.delay_out = max(plan.delay_out, self.race["delay"])
                        cb, self.race = self.on_race, None
                        if cb:
                            cb()
                        return plan
        return plan

    def fetch_cut(self, cluster, ctx, tpn, off, navail):
        if self.cut == "one":
            return 1
        if self.cut == "random":
            return self.rng.randrange(1, navail + 1)
        return navail


def shape_to_spec(shape):
    """abstract log (for the Config event) from a build_log shape"""
    out = []
    for s in shape:
        if s["kind"] == "data" and s.get("magic", 2) < 2 and not s.get("wrap", False):
            for o in s["offs"]:
                out.append({"base": o, "last": o, "offs": [o], "kind": "data", "pid": -1, "txnl": False})
        elif s["kind"] == "data":
            offs = s["offs"]
            last = s["last"] if s.get("magic", 2) == 2 else offs[-1]
            base = s.get("base", offs[0] if offs else last)
            out.append({"base": base, "last": last, "offs": list(offs), "kind": "data",
                        "pid": s.get("pid", -1), "txnl": bool(s.get("txnl", False))})
        else:
            out.append({"base": s["off"], "last": s["off"], "offs": [], "kind": s["kind"], "pid": s["pid"], "txnl": True})
    return out


def run_scenario(sc: dict):
    from aiokafka import AIOKafkaConsumer
    from aiokafka.consumer.fetcher import FetchError, FetchResult
    from aiokafka.consumer.subscription_state import Assignment, TopicPartitionState
    from aiokafka.structs import TopicPartition

    seed = sc["seed"]
    rng = random.Random(seed)
    log = observe.EventLog()
    director = CutDirector(rng, sc.get("faults", {}), sc.get("cut", "all"))
    nparts = len(sc["logs"])
    cl = simcluster.Cluster(log, nodes=tuple(range(sc["nnodes"])), director=director, rng=rng)
    cl.add_topic(TOPIC, sc["leaders"])
    gsim = simgroup.GroupCoordinatorSim(cl)
    for p, shape in enumerate(sc["logs"]):
        pl = cl.parts[(TOPIC, p)]
        simcluster.build_log(pl, shape)
        pl.hw_lag = sc.get("hw_lag", [0] * nparts)[p]
        if sc["logs"][p] and sc.get("log_start"):
            pl.log_start = shape_to_spec(shape)[0]["base"]
        c = sc.get("committed", [None] * nparts)[p]
        if c is not None:
            gsim.group(GROUP).offsets[(TOPIC, p)] = (c, "")
    for p in range(nparts):
        pl = cl.parts[(TOPIC, p)]
        pl.log_start = pl.batches[0]["base"] if pl.batches else 0
    if sc.get("offsets_max") is not None:
        cl.api_versions[2] = (0, sc["offsets_max"])
    if sc.get("fetch_max") is not None:
        cl.api_versions[1] = (0, sc["fetch_max"])
    net = simnet.SimNet(cl)
    tps = [TopicPartition(TOPIC, p) for p in range(nparts)]
    tpn = lambda tp: f"{tp.topic}-{tp.partition}"  # noqa: E731
    info = {"hang": None, "exc": None}
    st_tp = {}          # id(TopicPartitionState) -> tp name
    keep = []

    W = observe.Wrappers()

    def after_assignment_init(self_, a, kw, r, ex):
        if ex is None:
            for tp, st in self_._tp_state.items():
                st_tp[id(st)] = tpn(tp)
                keep.append(st)

    def name(st):
        return st_tp.get(id(st), "?")

    def strat(s):
        return {-1: "latest", -2: "earliest"}.get(s, str(s))

    W.wrap(Assignment, "__init__", after=after_assignment_init)
    W.wrap(TopicPartitionState, "seek", after=lambda s, a, k, r, e: log.emit("Seek", tp=name(s), off=a[0]))
    W.wrap(TopicPartitionState, "await_reset",
           after=lambda s, a, k, r, e: log.emit("AwaitReset", tp=name(s), s=strat(a[0])))
    W.wrap(TopicPartitionState, "reset_to",
           after=lambda s, a, k, r, e: log.emit("ResetTo", tp=name(s), off=a[0], ok=e is None))

    def before_pause(s, a, k):
        if not s._paused:
            log.emit("Pause", tp=name(s))

    def before_resume(s, a, k):
        if s._paused:
            log.emit("Resume", tp=name(s))

    W.wrap(TopicPartitionState, "pause", before=before_pause)
    W.wrap(TopicPartitionState, "resume", before=before_resume)

    def pos_of(fr):
        st = fr._assignment.state_value(fr._topic_partition)
        return -1 if st is None or st._position is None else st._position

    def after_getall(self_, a, kw, r, ex):
        if ex is None:
            mx = a[0] if a else kw.get("max_records")
            log.emit("Take", tp=tpn(self_._topic_partition), offs=[m.offset for m in r],
                     n=(mx if mx is not None else 10**6), pos=pos_of(self_), more=self_.has_more(), api="getall")

    def after_getone(self_, a, kw, r, ex):
        if ex is None:
            log.emit("Take", tp=tpn(self_._topic_partition), offs=([] if r is None else [r.offset]), n=1,
                     pos=pos_of(self_), more=self_.has_more(), api="getone")

    W.wrap(FetchResult, "getall", after=after_getall)
    W.wrap(FetchResult, "getone", after=after_getone)

    class ObsDict(collections.OrderedDict):
        def __setitem__(self, k, v):
            super().__setitem__(k, v)
            if isinstance(v, FetchError):
                log.emit("ErrorSet", tp=tpn(k), err=type(v._error).__name__)
            else:
                log.emit("Set", tp=tpn(k), f=v._partition_records.next_fetch_offset)

        def __delitem__(self, k):
            super().__delitem__(k)
            log.emit("Del", tp=tpn(k))

        def clear(self):
            if len(self):
                log.emit("Clear")
            super().clear()

    async def main(loop):
        kw = dict(bootstrap_servers="broker0:9092", request_timeout_ms=sc.get("request_timeout_ms", 2000),
                  retry_backoff_ms=50, auto_offset_reset=sc["policy"],
                  isolation_level="read_committed" if sc["iso"] else "read_uncommitted",
                  fetch_max_wait_ms=sc.get("fetch_max_wait_ms", 100), enable_auto_commit=False,
                  metadata_max_age_ms=sc.get("metadata_max_age_ms", 4000), check_crcs=sc.get("check_crcs", True),
                  max_poll_records=sc.get("max_poll_records"))
        if sc.get("group"):
            kw["group_id"] = GROUP
        for p_, dur in sc.get("noleader", []):
            # leader election in progress for p_: Metadata names no leader until `dur`
            director.stale[(TOPIC, p_)] = -1
            loop.call_later(dur, lambda p_=p_: director.stale.pop((TOPIC, p_), None), context=cl.ctx)
        cons = AIOKafkaConsumer(**kw)
        await cons.start()
        cons._fetcher._records = ObsDict()
        del log.events[:]
        log.emit("Config", iso=sc["iso"], policy=sc["policy"], parts=[tpn(t) for t in tps],
                 logs={tpn(t): shape_to_spec(sc["logs"][t.partition]) for t in tps},
                 hw={tpn(t): cl.parts[(TOPIC, t.partition)].hw for t in tps},
                 committed={tpn(t): (-1 if not sc.get("group") or sc["committed"][t.partition] is None
                                     else sc["committed"][t.partition]) for t in tps})
        cons.assign(tps)

        for ev in sc.get("env", []):
            if ev[1] == "move":
                loop.call_later(ev[0], cl.move_leader, TOPIC, ev[2], ev[3])
        director.slow_offset_fetch = sc.get("slow_offset_fetch", 0.0)
        if sc.get("reset_race"):
            # the application seeks while the ListOffsets of a position reset (no committed offset / seek_to_end) is in flight
            rr = sc["reset_race"]
            director.lo_race = {"p": rr["p"], "delay": rr["delay"]}
            ctx_app2 = __import__("contextvars").copy_context()
            director.on_lo_race = lambda: loop.call_later(rr["delay"] * rr.get("at", 0.5), lambda: cons.seek(tps[rr["p"]], rr["seek"]),
                                                          context=ctx_app2)
        if sc.get("oor_race"):
            # the application seeks while the broker's OFFSET_OUT_OF_RANGE answer for the old position is in flight
            rc = sc["oor_race"]
            director.race = {"p": rc["p"], "delay": rc["delay"]}
            ctx_app = __import__("contextvars").copy_context()
            director.on_race = lambda: loop.call_later(rc["delay"] * rc.get("at", 0.5), lambda: cons.seek(tps[rc["p"]], rc["seek"]),
                                                       context=ctx_app)

        async def task(ti, ops):
            for op in ops:
                k = op[0]
                try:
                    if k == "getone":
                        parts = [tps[p] for p in op[1]] if len(op) > 1 else []
                        log.emit("Call", task=ti, api="getone")
                        try:
                            m = await asyncio.wait_for(cons.getone(*parts), timeout=sc.get("call_timeout", 3.0))
                        except asyncio.TimeoutError:
                            log.emit("CallTimeout", task=ti)
                            continue
                        log.emit("Return", task=ti, api="getone", recs={tpn(TopicPartition(m.topic, m.partition)): [m.offset]},
                                 parts=[tpn(t) for t in parts],
                                 vals_ok=(m.value == f"{m.topic}-{m.partition}@{m.offset}".encode()))
                    elif k == "getmany":
                        parts = [tps[p] for p in op[3]] if len(op) > 3 else []
                        r = await cons.getmany(*parts, timeout_ms=op[2], max_records=op[1])
                        ok = all(m.value == f"{m.topic}-{m.partition}@{m.offset}".encode() for v in r.values() for m in v)
                        log.emit("Return", task=ti, api="getmany", recs={tpn(t): [m.offset for m in v] for t, v in r.items()},
                                 parts=[tpn(t) for t in parts], vals_ok=ok, max=(op[1] if op[1] is not None else 10**6))
                    elif k == "seek":
                        cons.seek(tps[op[1]], op[2])
                    elif k in ("seek_beg", "seek_end"):
                        s = "earliest" if k == "seek_beg" else "latest"
                        log.emit("SeekToCall", tp=tpn(tps[op[1]]), s=s)
                        f = cons.seek_to_beginning if k == "seek_beg" else cons.seek_to_end
                        await f(tps[op[1]])
                    elif k == "pause":
                        cons.pause(tps[op[1]])
                    elif k == "resume":
                        cons.resume(tps[op[1]])
                    elif k == "position":
                        try:
                            v = await asyncio.wait_for(cons.position(tps[op[1]]), timeout=sc.get("call_timeout", 3.0))
                            log.emit("Position", tp=tpn(tps[op[1]]), value=v)
                        except asyncio.TimeoutError:
                            log.emit("CallTimeout", task=ti)
                    elif k == "sleep":
                        await asyncio.sleep(op[1])
                except Exception as e:  # noqa: BLE001
                    log.emit("Raised", task=ti, api=k, err=type(e).__name__)

        await asyncio.gather(*[task(i, ops) for i, ops in enumerate(sc["tasks"])])
        # drain: after the scripted operations, read to the end (liveness: delivery continues to the end)
        if sc.get("drain", True):
            for tp in tps:
                if tp in cons.paused():
                    cons.resume(tp)
            idle = 0
            # quiet period: long enough for a fetch whose reply was lost to time out and be retried
            # (and for the periodic metadata refresh to repair a stale leader: the reset path does
            # not force a refresh on NOT_LEADER, it recovers at the next metadata_max_age tick)
            need = int((sc.get("request_timeout_ms", 2000) / 1000 + sc.get("metadata_max_age_ms", 4000) / 1000 + 1.0) / 0.3) + 2
            while idle < need:
                try:
                    r = await cons.getmany(timeout_ms=300)
                except Exception as e:  # noqa: BLE001
                    log.emit("Raised", task=-1, api="getmany", err=type(e).__name__)
                    idle += 1
                    continue
                if r:
                    idle = 0
                    log.emit("Return", task=-1, api="getmany", recs={tpn(t): [m.offset for m in v] for t, v in r.items()},
                             parts=[], vals_ok=True, max=10**6)
                else:
                    idle += 1
            fin = {}
            for tp in tps:
                st = cons._subscription.subscription.assignment.state_value(tp)
                fin[tpn(tp)] = -1 if st._position is None else st._position
            log.emit("End", pos=fin)
        try:
            await asyncio.wait_for(cons.stop(), timeout=30)
        except BaseException as e:  # noqa: BLE001  (stop() is C19's subject, not this driver's)
            info["stop_exc"] = type(e).__name__

    try:
        with W:
            simloop.run(main, seed=seed, net=net, horizon=sc.get("horizon", 900))
    except simloop.Stuck as e:
        info["hang"] = str(e)
        log.emit("Hang", why=str(e)[:80])
    except Exception as e:  # noqa: BLE001
        import traceback
        info["exc"] = traceback.format_exc()[-1500:]
        log.emit("Crash", err=type(e).__name__, msg=str(e)[:120])
    out = [dict(ev) for ev in log.events if ev["e"] in ALPHABET
           and not (ev["e"] == "FetchReply" and ev.get("code") == 0 and not ev.get("batches"))]
    return out, info
