"""Independent reader / writer of Kafka record batches (message format v0/v1/v2),
written from the format definition -- deliberately NOT using aiokafka's codecs,
so that what the simulated broker sees (record identity, timestamps, producer
id / epoch / sequence) is observed independently of the code under test."""
from __future__ import annotations

import gzip
import struct
import zlib

# ---- crc32c (Castagnoli), table driven ------------------------------------
_T = []
for _i in range(256):
    _c = _i
    for _ in range(8):
        _c = (_c >> 1) ^ 0x82F63B78 if _c & 1 else _c >> 1
    _T.append(_c)


def crc32c(data: bytes) -> int:
    c = 0xFFFFFFFF
    for b in data:
        c = _T[(c ^ b) & 0xFF] ^ (c >> 8)
    return c ^ 0xFFFFFFFF


# ---- varints -----------------------------------------------------------------
def _uvarint(buf, pos):
    shift = res = 0
    while True:
        b = buf[pos]
        pos += 1
        res |= (b & 0x7F) << shift
        if not b & 0x80:
            return res, pos
        shift += 7


def _varint(buf, pos):
    v, pos = _uvarint(buf, pos)
    return (v >> 1) ^ -(v & 1), pos


def enc_varint(v: int) -> bytes:
    z = (v << 1) ^ (v >> 63)
    z &= (1 << 64) - 1
    out = bytearray()
    while z >= 0x80:
        out.append((z & 0x7F) | 0x80)
        z >>= 7
    out.append(z)
    return bytes(out)


_V2 = struct.Struct(">qiibIhiqqqhii")  # 61 bytes


def _decompress(codec, payload):
    if codec == 0:
        return payload
    if codec == 1:
        return gzip.decompress(payload)
    import cramjam
    if codec == 2:
        # kafka snappy may be xerial framed
        if payload[:8] == b"\x82SNAPPY\x00":
            out, pos = bytearray(), 16
            while pos < len(payload):
                (n,) = struct.unpack_from(">i", payload, pos)
                pos += 4
                out += bytes(cramjam.snappy.decompress_raw(payload[pos:pos + n]))
                pos += n
            return bytes(out)
        return bytes(cramjam.snappy.decompress_raw(payload))
    if codec == 3:
        return bytes(cramjam.lz4.decompress(payload))
    if codec == 4:
        return bytes(cramjam.zstd.decompress(payload))
    raise ValueError(codec)


def read_batches(buf: bytes) -> list[dict]:
    """Parse a concatenation of batches (v2) / message sets (v0,v1)."""
    out, pos, n = [], 0, len(buf)
    while pos + 17 <= n:
        base, length = struct.unpack_from(">qi", buf, pos)
        magic = buf[pos + 16]
        end = pos + 12 + length
        if end > n:
            break
        if magic == 2:
            (base, length, ple, magic, crc, attrs, lod, fts, mts, pid, epoch, seq, cnt) = _V2.unpack_from(buf, pos)
            ok_crc = crc32c(buf[pos + 21:end]) == crc
            payload = _decompress(attrs & 7, buf[pos + 61:end])
            recs, rp = [], 0
            for _ in range(cnt):
                ln, rp = _varint(payload, rp)
                rend = rp + ln
                rp += 1  # attrs
                tsd, rp = _varint(payload, rp)
                od, rp = _varint(payload, rp)
                kl, rp = _varint(payload, rp)
                key = None
                if kl >= 0:
                    key = payload[rp:rp + kl]
                    rp += kl
                vl, rp = _varint(payload, rp)
                val = None
                if vl >= 0:
                    val = payload[rp:rp + vl]
                    rp += vl
                nh, rp = _varint(payload, rp)
                hdrs = []
                for _h in range(nh):
                    hkl, rp = _varint(payload, rp)
                    hk = payload[rp:rp + hkl].decode()
                    rp += hkl
                    hvl, rp = _varint(payload, rp)
                    hv = None
                    if hvl >= 0:
                        hv = payload[rp:rp + hvl]
                        rp += hvl
                    hdrs.append((hk, hv))
                assert rp == rend, "record length mismatch"
                recs.append({"od": od, "ts": fts + tsd, "key": key, "value": val, "headers": hdrs})
            out.append({"magic": 2, "base": base, "attrs": attrs, "codec": attrs & 7,
                        "ts_type": (attrs >> 3) & 1, "txnl": bool(attrs & 0x10), "control": bool(attrs & 0x20),
                        "lod": lod, "first_ts": fts, "max_ts": mts, "pid": pid, "epoch": epoch, "seq": seq,
                        "count": cnt, "records": recs, "crc_ok": ok_crc, "size": end - pos})
        else:
            crc, magic, attrs = struct.unpack_from(">IBB", buf, pos + 12)
            out.append({"magic": magic, "base": base, "attrs": attrs, "size": end - pos,
                        "crc_ok": (zlib.crc32(buf[pos + 16:end]) & 0xFFFFFFFF) == crc, "records": None})
        pos = end
    return out


def write_v2(base_offset, records, *, pid=-1, epoch=-1, seq=-1, txnl=False, control=False,
             ts_type=0, first_ts=None, leader_epoch=0, codec=0, last_offset_delta=None) -> bytes:
    """records: list of (offset_delta, timestamp, key, value, headers)"""
    if first_ts is None:
        first_ts = records[0][1] if records else 0
    max_ts = max([r[1] for r in records], default=first_ts)
    body = bytearray()
    for od, ts, key, val, hdrs in records:
        r = bytearray(b"\x00")
        r += enc_varint(ts - first_ts) + enc_varint(od)
        r += enc_varint(-1) if key is None else enc_varint(len(key)) + key
        r += enc_varint(-1) if val is None else enc_varint(len(val)) + val
        r += enc_varint(len(hdrs))
        for hk, hv in hdrs:
            hkb = hk.encode()
            r += enc_varint(len(hkb)) + hkb
            r += enc_varint(-1) if hv is None else enc_varint(len(hv)) + hv
        body += enc_varint(len(r)) + r
    payload = bytes(body)
    if codec == 1:
        payload = gzip.compress(payload)
    attrs = codec | (ts_type << 3) | (0x10 if txnl else 0) | (0x20 if control else 0)
    lod = last_offset_delta if last_offset_delta is not None else (records[-1][0] if records else 0)
    tail = struct.pack(">hiqqqhii", attrs, lod, first_ts, max_ts, pid, epoch, seq, len(records)) + payload
    crc = crc32c(tail)
    length = 4 + 1 + 4 + len(tail)
    return struct.pack(">qiibI", base_offset, length, leader_epoch, 2, crc) + tail


def control_record(commit: bool, coordinator_epoch=0):
    """key/value of a transaction marker control record"""
    return struct.pack(">hh", 0, 1 if commit else 0), struct.pack(">hi", 0, coordinator_epoch)


def rebase_v2(batch: bytes, base_offset: int, *, log_append_time: int | None = None) -> bytes:
    """What a broker does on append: assign the base offset (outside the CRC) and,
    for LogAppendTime topics, set the timestamp type bit + max timestamp."""
    b = bytearray(batch)
    struct.pack_into(">q", b, 0, base_offset)
    if log_append_time is not None:
        (attrs,) = struct.unpack_from(">h", b, 21)
        struct.pack_into(">h", b, 21, attrs | 0x08)
        struct.pack_into(">q", b, 35, log_append_time)
        struct.pack_into(">I", b, 17, crc32c(bytes(b[21:])))
    return bytes(b)


# ---- legacy message sets (magic 0 / 1) -----------------------------------------
def _legacy_msg(offset, magic, attrs, ts, key, value):
    body = struct.pack(">bb", magic, attrs)
    if magic == 1:
        body += struct.pack(">q", ts)
    body += struct.pack(">i", -1) if key is None else struct.pack(">i", len(key)) + key
    body += struct.pack(">i", -1) if value is None else struct.pack(">i", len(value)) + value
    crc = zlib.crc32(body) & 0xFFFFFFFF
    msg = struct.pack(">I", crc) + body
    return struct.pack(">qi", offset, len(msg)) + msg


def write_legacy(magic, records, *, compressed=False, ts_type=0) -> bytes:
    """records: list of (absolute_offset, timestamp, key, value).  Uncompressed: one
    message per record.  compressed (gzip): one wrapper message carrying the inner
    message set; wrapper offset = last inner offset; inner offsets are relative
    (0..n-1) for magic 1 and absolute for magic 0."""
    if not compressed:
        return b"".join(_legacy_msg(o, magic, (ts_type << 3) if magic == 1 else 0, ts, k, v) for o, ts, k, v in records)
    last = records[-1][0]
    inner = b""
    for i, (o, ts, k, v) in enumerate(records):
        io = o if magic == 0 else (o - records[0][0])   # relative to the first inner offset
        inner += _legacy_msg(io, magic, 0, ts, k, v)
    if magic == 1:
        # Kafka: relative offsets are 0-based deltas such that abs = wrapper_offset - (last_rel - rel)
        pass
    attrs = 1 | ((ts_type << 3) if magic == 1 else 0)
    wts = max(r[1] for r in records)
    return _legacy_msg(last, magic, attrs, wts, None, gzip.compress(inner))
