"""Simulated Kafka cluster speaking the real wire protocol over harness/simnet.

Written from Kafka's rules; every step the cluster takes is logged to the same
EventLog as the client-side events, and is validated by the same trace specs
(so a simulator that deviates from the specified Kafka behaviour is caught as
a rejected trace rather than silently blaming -- or excusing -- the client).

Requests/responses are (de)coded with aiokafka's own protocol classes (trusted
base for the protocol-level properties; the wire format itself is C11's
subject).  Record batches are read with harness/kbatch.py, not the library.
"""
from __future__ import annotations

import importlib
import inspect
import io
import re
import struct
from dataclasses import dataclass, field

from . import kbatch

INT32_MAX = 2**31 - 1

# error codes
NONE = 0
OFFSET_OUT_OF_RANGE = 1
UNKNOWN_TOPIC_OR_PARTITION = 3
LEADER_NOT_AVAILABLE = 5
NOT_LEADER = 6
REQUEST_TIMED_OUT = 7
COORDINATOR_LOAD_IN_PROGRESS = 14
COORDINATOR_NOT_AVAILABLE = 15
NOT_COORDINATOR = 16
NOT_ENOUGH_REPLICAS = 19
ILLEGAL_GENERATION = 22
INCONSISTENT_GROUP_PROTOCOL = 23
UNKNOWN_MEMBER_ID = 25
REBALANCE_IN_PROGRESS = 27
TOPIC_AUTHORIZATION_FAILED = 29
GROUP_AUTHORIZATION_FAILED = 30
OUT_OF_ORDER_SEQUENCE = 45
DUPLICATE_SEQUENCE = 46
INVALID_PRODUCER_EPOCH = 47
INVALID_TXN_STATE = 48
INVALID_PRODUCER_ID_MAPPING = 49
CONCURRENT_TRANSACTIONS = 51
TRANSACTIONAL_ID_AUTHORIZATION_FAILED = 53
MEMBER_ID_REQUIRED = 79
FENCED_INSTANCE_ID = 82


def _registry():
    """(api_key, version) -> RequestStruct class, by walking aiokafka.protocol"""
    from aiokafka.protocol.api import RequestStruct
    reg = {}
    for m in ("admin", "commit", "coordination", "fetch", "group", "metadata", "offset", "produce", "transaction"):
        mod = importlib.import_module("aiokafka.protocol." + m)
        for _n, c in inspect.getmembers(mod, inspect.isclass):
            if (issubclass(c, RequestStruct) and c is not RequestStruct
                    and re.search(r"_v\d+$", c.__name__)
                    and isinstance(getattr(c, "API_VERSION", None), int)
                    and isinstance(getattr(c, "API_KEY", None), int)
                    and hasattr(c, "RESPONSE_TYPE")):
                reg[(c.API_KEY, c.API_VERSION)] = c
    return reg


API_NAMES = {0: "Produce", 1: "Fetch", 2: "ListOffsets", 3: "Metadata", 8: "OffsetCommit", 9: "OffsetFetch",
             10: "FindCoordinator", 11: "JoinGroup", 12: "Heartbeat", 13: "LeaveGroup", 14: "SyncGroup",
             17: "SaslHandshake", 18: "ApiVersions", 22: "InitProducerId", 24: "AddPartitionsToTxn",
             25: "AddOffsetsToTxn", 26: "EndTxn", 28: "TxnOffsetCommit", 36: "SaslAuthenticate"}


@dataclass
class Plan:
    delay_in: float = 0.001       # client -> broker
    delay_out: float = 0.001      # broker -> client
    fault: str | None = None      # drop_before | drop_after | lose_reply | error
    code: int = 0                 # for fault == "error"
    note: str = ""


class Director:
    """Decides latency and faults for every request; default: no faults."""

    def plan(self, cluster, ctx) -> Plan:
        return Plan()

    def metadata_view(self, cluster, node_id):
        """leader map served by a Metadata response (None = truth)"""
        return None


@dataclass
class Node:
    id: int
    host: str
    port: int
    up: bool = True               # accepts connections / serves requests


@dataclass
class ProducerEntry:
    epoch: int = -1
    batches: list = field(default_factory=list)   # last 5: (first_seq, last_seq, base_offset, ts)


class PartitionLog:
    def __init__(self, topic, partition, leader, ts_type=0):
        self.topic, self.partition, self.leader = topic, partition, leader
        self.ts_type = ts_type          # 0 CreateTime, 1 LogAppendTime
        self.batches = []               # list of dict(base, last, bytes, info...)
        self.leo = 0                    # log end offset
        self.log_start = 0
        self.producers: dict[int, ProducerEntry] = {}
        self.open_txns: dict[int, int] = {}   # pid -> first offset of open txn
        self.aborted = []               # (pid, first_offset, marker_offset)
        self.hw_lag = 0                 # HW = leo - hw_lag (for tests of unstable tail)

    @property
    def hw(self):
        return max(self.log_start, self.leo - self.hw_lag)

    @property
    def lso(self):
        if self.open_txns:
            return min(min(self.open_txns.values()), self.hw)
        return self.hw


def seq_add(seq, n):
    """Kafka's DefaultRecordBatch.incrementSequence"""
    if seq > INT32_MAX - n:
        return n - (INT32_MAX - seq) - 1
    return seq + n


class Cluster:
    def __init__(self, log, *, nodes=(0, 1), director: Director | None = None, rng=None):
        self.log = log
        self.director = director or Director()
        self.rng = rng
        self.loop = None
        self.net = None
        self.nodes = {i: Node(i, f"broker{i}", 9092) for i in nodes}
        self.parts: dict[tuple[str, int], PartitionLog] = {}
        self.reg = None
        self.api_versions: dict[int, tuple[int, int]] = {}
        self.next_pid = 1000
        self.reqno = 0
        self.conns = set()
        self.blackhole = set()   # nodes whose traffic silently disappears (partition, not a crash)
        self.now_ms = lambda: int((self.loop.time()) * 1000)
        # transactions / groups are attached by simtxn / simgroup mixins
        self.txn = None
        self.groups = None
        self.handlers = {}
        self.unknown_topics_autocreate = False

    # ---- topology -----------------------------------------------------------------
    def add_topic(self, topic, leaders, ts_type=0):
        for p, ld in enumerate(leaders):
            self.parts[(topic, p)] = PartitionLog(topic, p, ld, ts_type)

    def attach(self, loop, net):
        self.loop, self.net = loop, net
        # everything the cluster schedules runs in its own context (owner "cluster"), not in the
        # context of the client whose write() delivered the request
        import contextvars
        from .simloop import OWNER
        self.ctx = contextvars.Context()
        self.ctx.run(OWNER.set, "cluster")
        if self.reg is None:
            self.reg = _registry()
            mx = {}
            for (k, v) in self.reg:
                lo, hi = mx.get(k, (v, v))
                mx[k] = (min(lo, v), max(hi, v))
            for k, r in mx.items():
                self.api_versions.setdefault(k, (0, r[1]))

    def node_at(self, host, port):
        for n in self.nodes.values():
            if n.host == host and n.port == port:
                return n
        return None

    def on_connect(self, node, host, port):
        if node is None or not node.up:
            return "refuse"
        if node.id in self.blackhole:
            return "hang"            # SYN goes nowhere
        return "ok"

    def on_accept(self, tr):
        self.conns.add(tr)

    def on_client_close(self, tr):
        self.conns.discard(tr)

    def move_leader(self, topic, partition, node_id):
        pl = self.parts[(topic, partition)]
        if pl.leader != node_id:
            pl.leader = node_id
            self.log.emit("LeaderMoves", tp=f"{topic}-{partition}", node=node_id)

    def kill_node(self, node_id, close_conns=True):
        self.nodes[node_id].up = False
        self.log.emit("NodeDown", node=node_id)
        if close_conns:
            for tr in list(self.conns):
                if tr.node.id == node_id:
                    self.conns.discard(tr)
                    tr.server_close(ConnectionResetError("node down"))

    def revive_node(self, node_id):
        self.nodes[node_id].up = True
        self.log.emit("NodeUp", node=node_id)

    # ---- request entry ---------------------------------------------------------------
    def on_frame(self, tr, frame: bytes):
        api_key, api_version, corr = struct.unpack_from(">hhi", frame, 0)
        cls = self.reg.get((api_key, api_version))
        self.reqno += 1
        if cls is None:
            self.log.emit("UnknownRequest", api=api_key, v=api_version)
            tr.server_close(ConnectionResetError("unsupported request"))
            return
        bio = io.BytesIO(frame)
        bio.seek(8)
        from aiokafka.protocol.types import String, TaggedFields
        client_id = String("utf-8").decode(bio)
        if cls.FLEXIBLE_VERSION:
            TaggedFields.decode(bio)
        req = cls.decode(bio)
        ctx = ReqCtx(self.reqno, tr, tr.node.id, api_key, API_NAMES.get(api_key, str(api_key)),
                     api_version, corr, cls, req, client_id)
        plan = self.director.plan(self, ctx)
        ctx.plan = plan
        if plan.fault == "error" and api_key == 0 and req.required_acks == 0:
            plan.fault = "drop_before"      # acks=0 has no reply that could carry an error
        # TCP: requests of one connection arrive (and are processed) in the order written
        now = self.loop.time()
        at = max(now + plan.delay_in, getattr(tr, "last_arrival", 0.0) + 1e-6)
        tr.last_arrival = at
        self.loop.call_at(at, self._arrive, ctx, context=self.ctx)

    def _arrive(self, ctx):
        """A request reaches the broker.  Kafka handles the requests of one connection
        strictly one at a time (the channel is muted until the response is sent -- also
        while a long-polling Fetch or a JoinGroup sits in purgatory), so a request
        behind an unanswered one waits in the connection's queue."""
        tr = ctx.tr
        if not tr.server_open or not self.nodes[ctx.node].up or ctx.node in self.blackhole or getattr(tr, "stuck", False):
            return               # (black-holed node / stuck connection: it stays open, nothing is ever answered)
        q = tr.__dict__.setdefault("pending_reqs", [])
        if tr.__dict__.get("busy"):
            q.append(ctx)
            return
        tr.busy = True
        self._process(ctx)

    def _next(self, tr):
        tr.busy = False
        q = tr.__dict__.get("pending_reqs") or []
        if q and tr.server_open:
            ctx = q.pop(0)
            tr.busy = True
            self.loop.call_soon(self._process, ctx)

    def _process(self, ctx):
        tr, plan = ctx.tr, ctx.plan
        if not tr.server_open or not self.nodes[ctx.node].up:
            return
        if plan.fault == "drop_before":
            self.log.emit("Fault", kind="drop_before", api=ctx.api, node=ctx.node, req=ctx.no, client=ctx.client_id)
            self.conns.discard(tr)
            tr.server_close(ConnectionResetError("dropped"))
            return
        h = getattr(self, "h_" + ctx.api, None) or self.handlers.get(ctx.api)
        if h is None:
            raise RuntimeError(f"simcluster: no handler for {ctx.api}")
        if plan.fault == "error":
            resp = self._error_response(ctx, plan.code)
            self.log.emit("Fault", kind="error", code=plan.code, api=ctx.api, node=ctx.node, req=ctx.no, client=ctx.client_id)
        else:
            resp = h(ctx)
        if resp is DEFER:
            return           # handler will call self.reply(ctx, resp) later
        self.reply(ctx, resp)

    def reply(self, ctx, resp):
        tr, plan = ctx.tr, ctx.plan
        if resp is None:     # acks=0 produce: no response at all
            self._next(tr)
            return
        if plan.fault == "drop_after":
            self.log.emit("Fault", kind="drop_after", api=ctx.api, node=ctx.node, req=ctx.no, client=ctx.client_id)
            self.conns.discard(tr)
            self.loop.call_later(plan.delay_out, tr.server_close, ConnectionResetError("dropped"))
            return
        if plan.fault == "lose_reply":
            # the broker never answers this request.  Kafka answers the requests of one connection strictly in order,
            # so nothing queued behind it on this connection is answered either: the client runs into its request
            # timeout and closes the connection (a reply cannot vanish from a TCP stream while later ones arrive)
            self.log.emit("Fault", kind="lose_reply", api=ctx.api, node=ctx.node, req=ctx.no, client=ctx.client_id)
            tr.stuck = True
            return
        from aiokafka.protocol.types import Int32, TaggedFields
        hdr = Int32.encode(ctx.corr)
        if ctx.cls.FLEXIBLE_VERSION and ctx.api_key != 18:
            hdr += TaggedFields.encode({})
        body = resp.encode()
        data = struct.pack(">i", len(hdr) + len(body)) + hdr + body
        # ... and responses reach the client in request order
        at = max(self.loop.time() + plan.delay_out, getattr(tr, "last_deliver", 0.0) + 1e-6)
        tr.last_deliver = at
        self.loop.call_at(at, self._deliver, ctx, data)
        self._next(tr)

    def _deliver(self, ctx, data):
        if ctx.tr.server_open and ctx.node not in self.blackhole:
            ctx.tr.deliver(data)

    # ---- error replies for injected faults -----------------------------------------------
    def _error_response(self, ctx, code):
        R = ctx.cls.RESPONSE_TYPE
        req = ctx.req
        a, v = ctx.api, ctx.v
        if a == "Produce":
            if req.required_acks == 0:
                return None
            topics = []
            for topic, parts in req.topics:
                ps = []
                for p, _msgs in parts:
                    ps.append(self._produce_part(v, p, code, -1, -1, -1))
                topics.append((topic, ps))
            return R(topics=topics, throttle_time_ms=0) if v >= 1 else R(topics=topics)
        if a == "FindCoordinator":
            return R(error_code=code, coordinator_id=-1, host="", port=-1) if v == 0 else \
                R(throttle_time_ms=0, error_code=code, error_message=None, coordinator_id=-1, host="", port=-1)
        if a in ("InitProducerId",):
            return R(throttle_time_ms=0, error_code=code, producer_id=-1, producer_epoch=-1)
        if a in ("AddOffsetsToTxn", "EndTxn"):
            return R(throttle_time_ms=0, error_code=code)
        if a == "AddPartitionsToTxn":
            return R(throttle_time_ms=0, errors=[(t, [(p, code) for p in ps]) for t, ps in req.topics])
        if a == "TxnOffsetCommit":
            return R(throttle_time_ms=0, errors=[(t, [(p[0], code) for p in ps]) for t, ps in req.topics])
        eh = self.handlers.get("error:" + a)
        if eh is not None:
            return eh(ctx, code)
        raise RuntimeError(f"simcluster: no error response for {a}")

    @staticmethod
    def _produce_part(v, p, code, offset, ts, log_start):
        if v < 2:
            return (p, code, offset)
        if v < 5:
            return (p, code, offset, ts)
        if v < 8:
            return (p, code, offset, ts, log_start)
        return (p, code, offset, ts, log_start, [], None)

    # ---- ApiVersions / Metadata ------------------------------------------------------------
    def h_ApiVersions(self, ctx):
        R = ctx.cls.RESPONSE_TYPE
        vers = [(k, lo, hi) for k, (lo, hi) in sorted(self.api_versions.items())]
        if ctx.v == 0:
            return R(error_code=0, api_versions=vers)
        return R(error_code=0, api_versions=vers, throttle_time_ms=0)

    def h_Metadata(self, ctx):
        R = ctx.cls.RESPONSE_TYPE
        v = ctx.v
        req_topics = ctx.req.topics
        view = self.director.metadata_view(self, ctx.node) or {}
        up = [n for n in self.nodes.values()]
        brokers = [(n.id, n.host, n.port) if v == 0 else (n.id, n.host, n.port, None) for n in up]
        all_topics = sorted({t for (t, _p) in self.parts})
        if req_topics is None or (v == 0 and not req_topics):
            names = all_topics
        else:
            names = list(req_topics)
        topics, seen = [], {}
        for t in names:
            if t not in all_topics:
                e = (UNKNOWN_TOPIC_OR_PARTITION, t, []) if v == 0 else (UNKNOWN_TOPIC_OR_PARTITION, t, False, [])
                topics.append(e)
                continue
            ps = []
            for (tt, p), pl in sorted(self.parts.items()):
                if tt != t:
                    continue
                ld = view.get((tt, p), pl.leader)
                err = LEADER_NOT_AVAILABLE if ld == -1 else 0
                reps = sorted(self.nodes)
                seen[f"{tt}-{p}"] = ld
                ps.append((err, p, ld, reps, reps) if v < 5 else (err, p, ld, reps, reps, []))
            topics.append((0, t, ps) if v == 0 else (0, t, False, ps))
        self.log.emit("MetadataReply", node=ctx.node, leaders=seen, req=ctx.no)
        kw = dict(brokers=brokers, topics=topics)
        if v >= 1:
            kw["controller_id"] = min(self.nodes)
        if v >= 2:
            kw["cluster_id"] = "simcluster"
        if v >= 3:
            kw["throttle_time_ms"] = 0
        return R(**kw)

    # ---- Produce ---------------------------------------------------------------------------------
    def h_Produce(self, ctx):
        R = ctx.cls.RESPONSE_TYPE
        req, v = ctx.req, ctx.v
        topics = []
        for topic, parts in req.topics:
            ps = []
            for p, msgs in parts:
                code, off, ts, ls = self.append(ctx, topic, p, bytes(msgs), getattr(req, "transactional_id", None))
                ps.append(self._produce_part(v, p, code, off, ts, ls))
            topics.append((topic, ps))
        if req.required_acks == 0:
            return None
        return R(topics=topics, throttle_time_ms=0) if v >= 1 else R(topics=topics)

    def append(self, ctx, topic, p, data, txn_id=None):
        """Leader append of one partition's record set.  Returns (code, base, ts, log_start)."""
        tpn = f"{topic}-{p}"
        pl = self.parts.get((topic, p))
        ev = dict(node=ctx.node, tp=tpn, req=ctx.no, acks=ctx.req.required_acks)
        if pl is None:
            self.log.emit("BrokerReject", code=UNKNOWN_TOPIC_OR_PARTITION, **ev)
            return UNKNOWN_TOPIC_OR_PARTITION, -1, -1, -1
        try:
            bs = kbatch.read_batches(data)
        except Exception as e:  # noqa: BLE001
            self.log.emit("BrokerReject", code=2, why=f"corrupt:{e!r}", **ev)
            return 2, -1, -1, -1
        if len(bs) != 1 or bs[0]["magic"] != 2 or not bs[0]["crc_ok"] or sum(b["size"] for b in bs) != len(data):
            self.log.emit("BrokerReject", code=2, why="corrupt", **ev)
            return 2, -1, -1, -1     # CORRUPT_MESSAGE
        b = bs[0]
        rids = [(r["value"] or b"").decode("latin1") for r in b["records"]]
        ev.update(pid=b["pid"], epoch=b["epoch"], seq=seq_limbs(b["seq"]), n=b["count"], rids=rids,
                  txnl=b["txnl"], seqok=0 <= b["seq"] <= INT32_MAX or b["pid"] < 0)
        if pl.leader != ctx.node:
            self.log.emit("BrokerReject", code=NOT_LEADER, **ev)
            return NOT_LEADER, -1, -1, -1
        pid, epoch, seq, cnt = b["pid"], b["epoch"], b["seq"], b["count"]
        if b["txnl"]:
            code = self.txn.check_produce(self, pl, pid, epoch, txn_id) if self.txn is not None else 0
            if code:
                self.log.emit("BrokerReject", code=code, **ev)
                return code, -1, -1, -1
        if pid >= 0:
            ent = pl.producers.setdefault(pid, ProducerEntry())
            if epoch < ent.epoch:
                self.log.emit("BrokerReject", code=INVALID_PRODUCER_EPOCH, **ev)
                return INVALID_PRODUCER_EPOCH, -1, -1, -1
            if seq < 0:
                # Kafka: a negative base sequence with a valid producer id is invalid
                self.log.emit("BrokerReject", code=OUT_OF_ORDER_SEQUENCE, why="negative-seq", **ev)
                return OUT_OF_ORDER_SEQUENCE, -1, -1, -1
            last = seq_add(seq, cnt - 1)
            if epoch == ent.epoch:
                for (fs, ls_, bo, bts) in ent.batches:
                    if fs == seq and ls_ == last:
                        self.log.emit("BrokerDup", base=bo, bts=bts, **ev)
                        return 0, bo, bts, pl.log_start
                if ent.batches:
                    cur_last = ent.batches[-1][1]
                    in_seq = seq == cur_last + 1 or (seq == 0 and cur_last == INT32_MAX)
                    if not in_seq:
                        older = any(fs == seq for (fs, *_r) in ent.batches)
                        code = DUPLICATE_SEQUENCE if (seq <= cur_last and not older and False) else OUT_OF_ORDER_SEQUENCE
                        self.log.emit("BrokerReject", code=code, **ev)
                        return code, -1, -1, -1
            else:
                # new epoch for a known producer: sequence must restart at 0
                if ent.epoch != -1 and seq != 0:
                    self.log.emit("BrokerReject", code=OUT_OF_ORDER_SEQUENCE, **ev)
                    return OUT_OF_ORDER_SEQUENCE, -1, -1, -1
                ent.batches = []
            ent.epoch = epoch
        base = pl.leo
        now = self.now_ms()
        if pl.ts_type == 1:
            stored = kbatch.rebase_v2(data, base, log_append_time=now)
            rts = now
        else:
            stored = kbatch.rebase_v2(data, base)
            rts = -1
        rec_ts = [(now if pl.ts_type == 1 else r["ts"]) for r in b["records"]]
        pl.batches.append({"base": base, "last": base + b["lod"], "bytes": stored, "pid": pid, "epoch": epoch,
                           "txnl": b["txnl"], "control": False, "rids": rids, "offs": [base + r["od"] for r in b["records"]],
                           "ts": rec_ts, "keys": [r["key"] for r in b["records"]],
                           "hdrs": [r["headers"] for r in b["records"]]})
        pl.leo = base + b["lod"] + 1
        if pid >= 0:
            ent.batches.append((seq, seq_add(seq, cnt - 1), base, rts))
            ent.batches = ent.batches[-5:]
        if b["txnl"] and pid not in pl.open_txns:
            pl.open_txns[pid] = base
        self.log.emit("BrokerApply", base=base, rts=rec_ts, **ev)
        return 0, base, rts, pl.log_start

    # ---- InitProducerId (idempotent, non-transactional) / FindCoordinator -------------------------
    def h_InitProducerId(self, ctx):
        R = ctx.cls.RESPONSE_TYPE
        if ctx.req.transactional_id is not None and self.txn is not None:
            return self.txn.init_pid(self, ctx)
        self.next_pid += 1
        self.log.emit("InitPid", node=ctx.node, pid=self.next_pid, epoch=0)
        return R(throttle_time_ms=0, error_code=0, producer_id=self.next_pid, producer_epoch=0)

    def h_FindCoordinator(self, ctx):
        R = ctx.cls.RESPONSE_TYPE
        if ctx.v == 0:
            key, typ = ctx.req.consumer_group, 0
        else:
            key, typ = ctx.req.coordinator_key, ctx.req.coordinator_type
        nid = self.coordinator_for(typ, key)
        code = 0
        if nid is None or not self.nodes[nid].up:
            code, nid = COORDINATOR_NOT_AVAILABLE, -1
        n = self.nodes.get(nid)
        self.log.emit("FindCoordinatorReply", node=ctx.node, key=key, typ=typ, coord=nid, code=code)
        host, port = (n.host, n.port) if n else ("", -1)
        if ctx.v == 0:
            return R(error_code=code, coordinator_id=nid, host=host, port=port)
        return R(throttle_time_ms=0, error_code=code, error_message=None, coordinator_id=nid, host=host, port=port)

    coordinators: dict = {}

    def coordinator_for(self, typ, key):
        c = self.__dict__.setdefault("_coords", {})
        if (typ, key) not in c:
            c[(typ, key)] = min(self.nodes)
        return c[(typ, key)]

    def move_coordinator(self, typ, key, node_id):
        self.__dict__.setdefault("_coords", {})[(typ, key)] = node_id
        self.log.emit("CoordinatorMoves", typ=typ, key=key, node=node_id)


DEFER = object()


@dataclass
class ReqCtx:
    no: int
    tr: object
    node: int
    api_key: int
    api: str
    v: int
    corr: int
    cls: type
    req: object
    client_id: str
    plan: Plan | None = None


def seq_limbs(seq: int):
    """A 32-bit sequence as <<hi16, lo16>> of its unsigned 32-bit representation
    (TLC integers are 32-bit signed and JSON mangles values >= 2^31)."""
    u = seq & 0xFFFFFFFF
    return [u >> 16, u & 0xFFFF]


# ===========================================================================
# consumer side: log construction, Fetch, ListOffsets
# ===========================================================================
def build_log(pl: PartitionLog, shape: list[dict], *, codec=0):
    """Fill a partition log from an abstract shape (list of batch descriptions):
      {"kind": "data", "offs": [present offsets], "last": last offset of the batch
       (>= max(offs): compaction may have removed the tail; offs may be [] for an
       empty compacted v2 batch), "pid": int|-1, "txnl": bool, "magic": 0|1|2,
       "wrap": bool (v0/v1 compressed wrapper), "ts": base timestamp}
      {"kind": "commit"|"abort", "off": marker offset, "pid": int}
    Record value = b"<topic>-<p>@<offset>".  Maintains open/aborted transaction
    bookkeeping like a broker (LSO, aborted-transaction index)."""
    tpn = f"{pl.topic}-{pl.partition}"
    for s in shape:
        if s["kind"] == "data":
            offs, last, magic = s["offs"], s["last"], s.get("magic", 2)
            base = s.get("base", offs[0] if offs else last)
            ts0 = s.get("ts", 1000 + base)
            vals = {o: f"{tpn}@{o}".encode() for o in offs}
            if magic == 2:
                recs = [(o - base, ts0 + (o - base), (b"k" if o % 2 else None), vals[o], []) for o in offs]
                data = kbatch.write_v2(base, recs, pid=s.get("pid", -1), epoch=0 if s.get("pid", -1) >= 0 else -1,
                                       seq=0 if s.get("pid", -1) >= 0 else -1, txnl=s.get("txnl", False),
                                       first_ts=ts0, last_offset_delta=last - base, codec=1 if s.get("gzip") else 0)
            elif not s.get("wrap", False):
                # uncompressed v0/v1: every message is its own "batch" for the leader
                for o in offs:
                    data = kbatch.write_legacy(magic, [(o, ts0 + (o - base), (b"k" if o % 2 else None), vals[o])])
                    pl.batches.append({"base": o, "last": o, "bytes": data, "pid": -1, "txnl": False, "control": False,
                                       "offs": [o], "rids": [vals[o].decode()], "magic": magic})
                pl.leo = offs[-1] + 1
                continue
            else:
                recs = [(o, ts0 + (o - base), (b"k" if o % 2 else None), vals[o]) for o in offs]
                data = kbatch.write_legacy(magic, recs, compressed=True)
                last = offs[-1]
            pl.batches.append({"base": base, "last": last, "bytes": data, "pid": s.get("pid", -1),
                               "txnl": s.get("txnl", False), "control": False, "offs": list(offs),
                               "rids": [vals[o].decode() for o in offs], "magic": magic})
            if s.get("txnl") and s["pid"] not in pl.open_txns:
                pl.open_txns[s["pid"]] = base
            pl.leo = last + 1
        else:
            off, pid = s["off"], s["pid"]
            k, v = kbatch.control_record(s["kind"] == "commit")
            data = kbatch.write_v2(off, [(0, 2000 + off, k, v, [])], pid=pid, epoch=0, seq=-1, txnl=True, control=True)
            pl.batches.append({"base": off, "last": off, "bytes": data, "pid": pid, "txnl": True, "control": True,
                               "offs": [], "rids": [], "magic": 2, "marker": s["kind"]})
            first = pl.open_txns.pop(pid, None)
            if s["kind"] == "abort" and first is not None:
                pl.aborted.append((pid, first, off))
            pl.leo = off + 1


def _fetch_part_tuple(v, p, code, hw, lso, log_start, aborted, data, preferred=-1):
    if v < 4:
        return (p, code, hw, data)
    if v == 4:
        return (p, code, hw, lso, aborted, data)
    if v < 11:
        return (p, code, hw, lso, log_start, aborted, data)
    return (p, code, hw, lso, log_start, aborted, preferred, data)


def _h_Fetch(self, ctx):
    R = ctx.cls.RESPONSE_TYPE
    v, req = ctx.v, ctx.req
    iso = getattr(req, "isolation_level", 0) if v >= 4 else 0
    topics, any_data = [], False
    for topic, parts in req.topics:
        ps = []
        for pinfo in parts:
            p = pinfo[0]
            off = pinfo[2] if v >= 9 else pinfo[1]
            pl = self.parts.get((topic, p))
            tpn = f"{topic}-{p}"
            if pl is None:
                ps.append(_fetch_part_tuple(v, p, UNKNOWN_TOPIC_OR_PARTITION, -1, -1, -1, [], b""))
                continue
            if pl.leader != ctx.node:
                self.log.emit("FetchReply", node=ctx.node, tp=tpn, off=off, code=NOT_LEADER, req=ctx.no)
                ps.append(_fetch_part_tuple(v, p, NOT_LEADER, -1, -1, -1, [], b""))
                continue
            bound = pl.lso if iso == 1 else pl.hw
            if off < pl.log_start or off > pl.leo:
                self.log.emit("FetchReply", node=ctx.node, tp=tpn, off=off, code=OFFSET_OUT_OF_RANGE, req=ctx.no)
                ps.append(_fetch_part_tuple(v, p, OFFSET_OUT_OF_RANGE, pl.hw, pl.lso, pl.log_start, [], b""))
                continue
            avail = [b for b in pl.batches if b["last"] >= off and b["last"] < bound]
            ncut = self.director.fetch_cut(self, ctx, tpn, off, len(avail)) if avail else 0
            chosen = avail[:ncut]
            data = b"".join(b["bytes"] for b in chosen)
            aborted = []
            if iso == 1 and chosen:
                upper = chosen[-1]["last"]
                # transaction-index order = order in which the abort markers were written
                aborted = [(pid, first) for (pid, first, marker) in sorted(pl.aborted, key=lambda a: a[2])
                           if marker >= off and first <= upper]
            if chosen:
                any_data = True
            self.log.emit("FetchReply", node=ctx.node, tp=tpn, off=off, code=0, iso=iso, req=ctx.no,
                          batches=[[b["base"], b["last"]] for b in chosen], hw=pl.hw, lso=pl.lso,
                          aborted=[[a, f] for a, f in aborted])
            ps.append(_fetch_part_tuple(v, p, 0, pl.hw, pl.lso, pl.log_start, aborted, data))
        topics.append((topic, ps))
    kw = dict(topics=topics)
    if v >= 1:
        kw["throttle_time_ms"] = 0
    if v >= 7:
        kw["error_code"] = 0
        kw["session_id"] = 0
    resp = R(**kw)
    any_err = any(pt[1] != 0 for _t, ps_ in topics for pt in ps_)     # Kafka answers at once when a partition has an error
    if not any_data and not any_err and req.max_wait_time > 0 and not getattr(ctx, "waited", False):
        # long poll: nothing to return now, answer after max_wait (re-evaluated then)
        ctx.waited = True
        # drop the events logged for the empty attempt
        self.loop.call_later(req.max_wait_time / 1000, self._fetch_retry, ctx)
        return DEFER
    return resp


def _fetch_retry(self, ctx):
    if ctx.tr.server_open and self.nodes[ctx.node].up:
        self.reply(ctx, _h_Fetch(self, ctx))


def _h_ListOffsets(self, ctx):
    R = ctx.cls.RESPONSE_TYPE
    v, req = ctx.v, ctx.req
    iso = getattr(req, "isolation_level", 0) if v >= 2 else 0
    topics = []
    for topic, parts in req.topics:
        ps = []
        for pinfo in parts:
            p = pinfo[0]
            ts = pinfo[2] if v >= 4 else pinfo[1]
            pl = self.parts.get((topic, p))
            tpn = f"{topic}-{p}"
            code, off = 0, -1
            if pl is None:
                code = UNKNOWN_TOPIC_OR_PARTITION
            elif pl.leader != ctx.node:
                code = NOT_LEADER
            elif ts == -2:
                off = pl.log_start
            elif ts == -1:
                off = pl.lso if iso == 1 else pl.hw
            else:
                off = -1
            self.log.emit("ListOffsetsReply", node=ctx.node, tp=tpn, ts=ts, iso=iso, code=code, off=off, req=ctx.no, v=v)
            if v == 0:
                ps.append((p, code, [off] if code == 0 and off >= 0 else []))
            elif v < 4:
                ps.append((p, code, -1, off))
            else:
                ps.append((p, code, -1, off, 0))
        topics.append((topic, ps))
    return R(topics=topics) if v < 2 else R(throttle_time_ms=0, topics=topics)


def _err_Fetch(self, ctx, code):
    R = ctx.cls.RESPONSE_TYPE
    v = ctx.v
    topics = [(t, [_fetch_part_tuple(v, pi[0], code, -1, -1, -1, [], b"") for pi in ps]) for t, ps in ctx.req.topics]
    for t, ps in ctx.req.topics:
        for pi in ps:
            self.log.emit("FetchReply", node=ctx.node, tp=f"{t}-{pi[0]}", off=(pi[2] if v >= 9 else pi[1]), code=code, req=ctx.no)
    kw = dict(topics=topics)
    if v >= 1:
        kw["throttle_time_ms"] = 0
    if v >= 7:
        kw["error_code"] = 0
        kw["session_id"] = 0
    return R(**kw)


def _err_ListOffsets(self, ctx, code):
    R = ctx.cls.RESPONSE_TYPE
    v = ctx.v
    topics = []
    for t, ps in ctx.req.topics:
        out = []
        for pi in ps:
            self.log.emit("ListOffsetsReply", node=ctx.node, tp=f"{t}-{pi[0]}", ts=(pi[2] if v >= 4 else pi[1]), iso=0,
                          code=code, off=-1, req=ctx.no, v=v)
            out.append((pi[0], code, []) if v == 0 else ((pi[0], code, -1, -1) if v < 4 else (pi[0], code, -1, -1, 0)))
        topics.append((t, out))
    return R(topics=topics) if v < 2 else R(throttle_time_ms=0, topics=topics)


Cluster.h_Fetch = _h_Fetch
Cluster._fetch_retry = _fetch_retry
Cluster.h_ListOffsets = _h_ListOffsets
_orig_error_response = Cluster._error_response


def _error_response2(self, ctx, code):
    if ctx.api == "Fetch":
        return _err_Fetch(self, ctx, code)
    if ctx.api == "ListOffsets":
        return _err_ListOffsets(self, ctx, code)
    return _orig_error_response(self, ctx, code)


Cluster._error_response = _error_response2


def _fetch_cut(self, cluster, ctx, tpn, off, navail):
    """how many of the available batches a fetch response carries (>= 1)"""
    return navail


Director.fetch_cut = _fetch_cut
