"""Drives the REAL AIOKafkaProducer on the simulated cluster and records a trace
for Trace_ProducerCore.tla (C01, C02).

A scenario is a plain dict (JSON-able, so it can be saved as a replay):
  seed, idem, acks (0|1|-1), linger_ms, max_batch_size, compression,
  nparts, nnodes, leaders [node per partition], lat [0|1 per partition],
  produce_max (max Produce version the brokers advertise),
  start_seq {p: int} (idempotent: injected into the sequence counter),
  tasks [[ [p, ts|None, size], ... ], ...]   one list per sending task,
  task_gap [seconds between sends of each task],
  faults {budget, p, kinds:[...], codes:[...]}  random retriable faults on Produce/Metadata,
  env [[t, "move", p, node] | [t, "unknown", p, dur]]  cluster events at virtual times,
  flush_at / stop_at: virtual-time offsets at which flush() / stop() are called (optional)
"""
from __future__ import annotations

import asyncio
import random

from . import observe, simcluster, simloop, simnet

TOPIC = "t"
REQUEST_TIMEOUT_MS = 2000
RETRY_BACKOFF_MS = 50
T0_MS = None  # set per run: rebase of wall-clock ms timestamps

ALPHABET = {"Config", "Append", "Drain", "BrokerApply", "BrokerDup", "BrokerReject", "Fault", "SendOk",
            "SendFailed", "Done", "NoAck", "Fail", "Reenqueue", "Release", "MdUpdate", "LeaderMoves", "Resolved",
            "FlushCall", "FlushReturn", "Quiet", "StopCall", "StopReturn", "StopHang", "Hang", "Crash", "SendRaised"}

RETRIABLE_CODES = [simcluster.NOT_LEADER, simcluster.LEADER_NOT_AVAILABLE, simcluster.UNKNOWN_TOPIC_OR_PARTITION,
                   simcluster.REQUEST_TIMED_OUT, simcluster.NOT_ENOUGH_REPLICAS]


class FaultDirector(simcluster.Director):
    def __init__(self, rng, spec):
        self.rng = rng
        self.budget = spec.get("budget", 0)
        self.p = spec.get("p", 0.0)
        self.kinds = spec.get("kinds", ["drop_before", "drop_after", "lose_reply", "error"])
        self.codes = spec.get("codes", RETRIABLE_CODES)
        self.codes_by_api = spec.get("codes_by_api", {})
        self.apis = spec.get("apis", ["Produce"])
        self.script = list(spec.get("script", []))   # [[api, nth, kind, code]]
        self.count = {}
        self.stale = {}          # (topic, p) -> leader served by Metadata (stale view)
        self.slow = spec.get("slow", 0.0)

    def plan(self, cluster, ctx):
        self.count[ctx.api] = self.count.get(ctx.api, 0) + 1
        plan = simcluster.Plan()
        if self.slow:
            plan.delay_in = self.rng.random() * self.slow
            plan.delay_out = self.rng.random() * self.slow
        for s in self.script:
            if s[0] == ctx.api and s[1] == self.count[ctx.api]:
                plan.fault, plan.code = s[2], (s[3] if len(s) > 3 else 0)
                return plan
        if ctx.api in self.apis and self.budget > 0 and self.rng.random() < self.p:
            self.budget -= 1
            k = self.rng.choice(self.kinds)
            codes = self.codes_by_api.get(ctx.api, self.codes if ctx.api in ("Produce", "Fetch") else None)
            if k == "error" and not codes:
                k = "drop_before"
            plan.fault = k
            if k == "error":
                plan.code = self.rng.choice(codes)
        return plan

    def metadata_view(self, cluster, node_id):
        return self.stale


def _rid_of(value):
    return bytes(value).decode("latin1").split("|")[0]


def run_scenario(sc: dict):
    """Returns (trace events list, info dict).  Never raises for behaviour of the
    code under test: hangs and exceptions are recorded as events."""
    from aiokafka import AIOKafkaProducer
    from aiokafka.client import AIOKafkaClient
    from aiokafka.cluster import ClusterMetadata
    from aiokafka.producer.message_accumulator import MessageAccumulator, MessageBatch
    from aiokafka.producer.sender import Sender
    from aiokafka.protocol.produce import ProduceRequest
    from aiokafka.structs import TopicPartition

    seed = sc["seed"]
    rng = random.Random(seed)
    log = observe.EventLog()
    director = FaultDirector(rng, sc.get("faults", {}))
    cl = simcluster.Cluster(log, nodes=tuple(range(sc["nnodes"])), director=director, rng=rng)
    cl.add_topic(TOPIC, sc["leaders"])
    for p, lat in enumerate(sc.get("lat", [])):
        cl.parts[(TOPIC, p)].ts_type = lat
    net = simnet.SimNet(cl)
    if sc.get("produce_max") is not None:
        cl.api_versions[0] = (0, sc["produce_max"])
    parts = [f"{TOPIC}-{p}" for p in range(sc["nparts"])]
    bno = {}         # id(MessageBatch) -> batch number
    keep = []        # keep batches alive so ids are not reused
    rid_task = {}
    info = {"hang": None, "exc": None}
    tsbase = {}

    def tsr(ms):
        """identity during the run; wall-clock magnitudes are rank-compressed afterwards"""
        return None if ms is None else int(ms)

    def tpn(tp):
        return f"{tp.topic}-{tp.partition}"

    def bnum(batch):
        k = id(batch)
        if k not in bno:
            bno[k] = len(bno) + 1
            keep.append(batch)
        return bno[k]

    W = observe.Wrappers()

    def after_append(self_, a, kw, r, ex):
        if ex is not None or r is None:
            return
        value = a[1] if len(a) > 1 else kw.get("value")
        rid = _rid_of(value)
        md = self_._msg_futures[-1][1]
        log.emit("Append", b=bnum(self_), tp=tpn(self_._tp), rid=rid, t=rid_task.get(rid, "?"),
                 ts=tsr(md.timestamp), od=md.offset)

    def after_drain(self_, a, kw, r, ex):
        if ex is not None:
            return
        nodes, _unknown = r
        if nodes:
            log.emit("Drain", reqs=[[n, sorted(bnum(b) for b in bs.values())] for n, bs in sorted(nodes.items())])

    def before_done(self_, a, kw):
        base = a[0] if a else kw.get("base_offset")
        ts = a[1] if len(a) > 1 else kw.get("timestamp")
        log.emit("Done", b=bnum(self_), base=base, ts=(-1 if ts in (-1, None) else tsr(ts)))

    def before_noack(self_, a, kw):
        if self_._msg_futures or True:
            log.emit("NoAck", b=bnum(self_), empty=self_.is_empty() if hasattr(self_, "is_empty") else False)

    def before_fail(self_, a, kw):
        exc = a[0] if a else kw.get("exception")
        log.emit("Fail", b=bnum(self_), err=type(exc).__name__, retriable=bool(getattr(exc, "retriable", False)))

    def after_reenq(self_, a, kw, r, ex):
        log.emit("Reenqueue", b=bnum(a[0]), ok=ex is None)

    def after_sendreq(self_, a, kw, r, ex):
        log.emit("Release", node=a[0], ok=ex is None, exc=type(ex).__name__ if ex else "")

    def after_client_send(self_, a, kw, r, ex):
        reqobj = a[1] if len(a) > 1 else kw.get("request")
        if isinstance(reqobj, ProduceRequest):
            if ex is None:
                log.emit("SendOk", node=a[0])
            else:
                log.emit("SendFailed", node=a[0], err=type(ex).__name__)

    def after_md(self_, a, kw, r, ex):
        if self_ is not info.get("cluster_md"):
            return
        view = {}
        for p in range(sc["nparts"]):
            ld = self_.leader_for_partition(TopicPartition(TOPIC, p))
            view[f"{TOPIC}-{p}"] = -1 if ld is None or ld == -1 else ld
        log.emit("MdUpdate", view=view)

    W.wrap(MessageBatch, "append", after=after_append)
    W.wrap(MessageAccumulator, "drain_by_nodes", after=after_drain)
    W.wrap(MessageBatch, "done", before=before_done)
    W.wrap(MessageBatch, "done_noack", before=before_noack)
    W.wrap(MessageBatch, "failure", before=before_fail)
    W.wrap(MessageAccumulator, "reenqueue", after=after_reenq)
    W.wrap_async(Sender, "_send_produce_req", after=after_sendreq)
    W.wrap_async(AIOKafkaClient, "send", after=after_client_send)
    W.wrap(ClusterMetadata, "update_metadata", after=after_md)

    async def main(loop):
        tsbase["t0"] = int((loop.time() + 1.6e9) * 1000)
        acks = sc["acks"]
        kw = dict(bootstrap_servers="broker0:9092", request_timeout_ms=sc.get("request_timeout_ms", REQUEST_TIMEOUT_MS),
                  retry_backoff_ms=RETRY_BACKOFF_MS, linger_ms=sc.get("linger_ms", 0),
                  max_batch_size=sc.get("max_batch_size", 16384), compression_type=sc.get("compression"),
                  metadata_max_age_ms=sc.get("metadata_max_age_ms", 30000))
        if sc["idem"]:
            kw["enable_idempotence"] = True
        else:
            kw["acks"] = "all" if acks == -1 else acks
        for p_, dur in sc.get("noleader", []):
            # leader election in progress: Metadata answers LEADER_NOT_AVAILABLE / leader -1 for p_ until `dur`
            director.stale[(TOPIC, p_)] = -1
            loop.call_later(dur, lambda p_=p_: director.stale.pop((TOPIC, p_), None), context=cl.ctx)
        prod = AIOKafkaProducer(**kw)
        info["cluster_md"] = prod.client.cluster
        await prod.start()
        if sc["idem"] and sc.get("start_seq"):
            for p, s in sc["start_seq"].items():
                prod._txn_manager._sequence_numbers[TopicPartition(TOPIC, int(p))] = s
        start = {p: [0, 0] for p in parts}
        if sc["idem"]:
            for p in range(sc["nparts"]):
                s = prod._txn_manager._sequence_numbers[TopicPartition(TOPIC, p)]
                start[f"{TOPIC}-{p}"] = simcluster.seq_limbs(s)
        view = {}
        for p in range(sc["nparts"]):
            ld = prod.client.cluster.leader_for_partition(TopicPartition(TOPIC, p))
            view[f"{TOPIC}-{p}"] = -1 if ld is None or ld == -1 else ld
        # the trace proper starts here (bootstrap/InitProducerId are outside ProducerCore)
        del log.events[:]
        log.emit("Config", idem=bool(sc["idem"]), acks0=(acks == 0), parts=parts,
                 tst={f"{TOPIC}-{p}": cl.parts[(TOPIC, p)].ts_type for p in range(sc["nparts"])},
                 start=start, leaders={f"{TOPIC}-{p}": cl.parts[(TOPIC, p)].leader for p in range(sc["nparts"])},
                 md=view)
        futs = {}
        t_start = loop.time()
        cancel_rids = {r: d for r, d in sc.get("cancel", [])}

        def on_done(rid, fut):
            if fut.cancelled():
                log.emit("Resolved", rid=rid, k="cancelled", off=0, ts=0, tt=0, tp="")
                return
            ex = fut.exception()
            if ex is not None:
                log.emit("Resolved", rid=rid, k="err", off=0, ts=0, tt=0, tp="", err=type(ex).__name__)
                return
            m = fut.result()
            if m is None:
                log.emit("Resolved", rid=rid, k="noack", off=0, ts=0, tt=0, tp="")
            else:
                log.emit("Resolved", rid=rid, k="ok", off=m.offset, ts=tsr(m.timestamp), tt=m.timestamp_type,
                         tp=f"{m.topic}-{m.partition}")

        async def task(ti, items):
            gap = sc.get("task_gap", [0] * len(sc["tasks"]))[ti]
            for k, (p, ts, size) in enumerate(items):
                rid = f"r{ti}.{k}"
                rid_task[rid] = f"task{ti}"
                value = (rid + "|").encode() + b"x" * max(0, size - len(rid) - 1)
                try:
                    fut = await prod.send(TOPIC, value, partition=p, timestamp_ms=ts,
                                          key=(b"k%d" % k if k % 3 == 0 else None),
                                          headers=([("h", b"v")] if k % 4 == 1 else None))
                except Exception as e:  # noqa: BLE001
                    log.emit("SendRaised", rid=rid, err=type(e).__name__)
                    continue
                futs[rid] = fut
                fut.add_done_callback(lambda f, rid=rid: on_done(rid, f))
                if rid in cancel_rids:
                    # the application gives up on this result (e.g. its wait_for timed out): cancels ITS future
                    loop.call_later(cancel_rids[rid], lambda f=fut: f.done() or f.cancel())
                if gap:
                    await asyncio.sleep(gap)

        for ev in sc.get("env", []):
            t, kind = ev[0], ev[1]
            if kind == "move":
                loop.call_later(t, cl.move_leader, TOPIC, ev[2], ev[3])
            elif kind == "stale":      # metadata keeps naming `node` as leader of p for dur seconds
                def set_stale(p=ev[2], node=ev[3]):
                    director.stale[(TOPIC, p)] = node
                def clr_stale(p=ev[2]):
                    director.stale.pop((TOPIC, p), None)
                loop.call_later(t, set_stale)
                loop.call_later(t + ev[4], clr_stale)

        async def flusher(at):
            await asyncio.sleep(at)
            snap = sorted(futs)
            log.emit("FlushCall", rids=snap)
            await prod.flush()
            log.emit("FlushReturn", rids=snap, undone=[r for r in snap if not futs[r].done()])

        tasks = [asyncio.ensure_future(task(i, items)) for i, items in enumerate(sc["tasks"])]
        extra = []
        if sc.get("flush_at") is not None:
            extra.append(asyncio.ensure_future(flusher(sc["flush_at"])))
        stop_at = sc.get("stop_at")
        if stop_at is not None:
            await asyncio.sleep(stop_at)
        else:
            await asyncio.gather(*tasks)
            # quiet period: faults have ceased (finite budget); bounded time to resolve
            quiet = sc.get("quiet", 4 * REQUEST_TIMEOUT_MS / 1000 + 20 * RETRY_BACKOFF_MS / 1000)
            if sc["cls"] != "idem-long":
                director.budget = 0        # "after faults cease": nothing new is injected during the quiet period
            pending = [f for f in futs.values() if not f.done()]
            if pending:
                await asyncio.wait(pending, timeout=quiet)
            await asyncio.sleep(0)
            log.emit("Quiet", pending=sorted(r for r, f in futs.items() if not f.done()))
        snap = sorted(futs)
        log.emit("StopCall", rids=snap)
        try:
            await asyncio.wait_for(prod.stop(), timeout=10 * REQUEST_TIMEOUT_MS / 1000)
            await asyncio.sleep(0)
            log.emit("StopReturn", rids=snap, undone=[r for r in snap if not futs[r].done()])
        except asyncio.TimeoutError:
            log.emit("StopHang", rids=snap)
        for t in tasks + extra:
            if not t.done():
                t.cancel()
        await asyncio.sleep(0)
        return None

    try:
        with W:
            simloop.run(main, seed=seed, net=net, horizon=sc.get("horizon", 600))
    except simloop.Stuck as e:
        info["hang"] = str(e)
        log.emit("Hang", why=str(e)[:80])
    except Exception as e:  # noqa: BLE001
        info["exc"] = repr(e)
        log.emit("Crash", err=type(e).__name__, msg=str(e)[:120])
    # project broker events' timestamps
    # projection: (1) wall-clock / broker-clock timestamps (>= 10^9 ms) are
    # rank-compressed to 10^6 + rank (order and equality preserved; explicit user
    # timestamps are small and stay as they are); (2) record ids are cut out of
    # the values seen on the wire; (3) only events of the spec's alphabet are kept
    big = set()
    for ev in log.events:
        for k in ("ts", "bts"):
            if isinstance(ev.get(k), int) and ev[k] >= 10**9:
                big.add(ev[k])
        for x in ev.get("rts", []):
            if x >= 10**9:
                big.add(x)
    rank = {v: 10**6 + i for i, v in enumerate(sorted(big))}
    out = []
    for ev in log.events:
        if ev["e"] not in ALPHABET:
            continue
        ev = dict(ev)
        for k in ("ts", "bts"):
            if isinstance(ev.get(k), int):
                ev[k] = rank.get(ev[k], ev[k])
        if "rts" in ev:
            ev["rts"] = [rank.get(x, x) for x in ev["rts"]]
        if "rids" in ev and ev["e"].startswith("Broker"):
            ev["rids"] = [x.split("|")[0] for x in ev["rids"]]
        out.append(ev)
    info["logs"] = {f"{TOPIC}-{p}": [(b["base"], b["rids"]) for b in cl.parts[(TOPIC, p)].batches]
                    for p in range(sc["nparts"])}
    info["tsr"] = tsbase.get("t0")
    return out, info, (cl, tsr)
