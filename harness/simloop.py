"""Deterministic virtual-time asyncio loop.

* `SimLoop` is a SelectorEventLoop whose selector never blocks: `select(t)`
  advances the virtual clock by `t`.  `loop.time()`, `time.monotonic()` and
  `time.time()` (patched while a run is active) all read that clock, so linger,
  batch TTL, heartbeats, auto-commit, request timeouts and idle checks of
  aiokafka are driven by virtual time.
* `call_soon` stays FIFO (asyncio's contract).
* `run_in_executor` runs inline.
* `create_connection` is delegated to a `net` object (harness/simnet.py).
* every task / timer handle is tagged with the *owner* current when it was
  created (`loop.owner`), so liveness of a client's activities can be checked.

If the loop has nothing ready and no timer scheduled while the main coroutine
has not finished, the run is stuck for ever: `Stuck` is raised (a hang is an
observation, not a harness crash).
"""
from __future__ import annotations

import asyncio
import heapq
import random
import selectors
import time as _time
import uuid as _uuid


import contextvars

# which simulated client (process) the currently running code belongs to; tasks and timer
# handles inherit it through their context
OWNER = contextvars.ContextVar("verif_owner", default=None)


class Stuck(Exception):
    pass


class _FakeSelector(selectors.BaseSelector):
    def __init__(self, loop):
        self._loop = loop
        self._map = {}

    def register(self, fileobj, events, data=None):
        key = selectors.SelectorKey(fileobj, fileobj if isinstance(fileobj, int) else fileobj.fileno(), events, data)
        self._map[fileobj] = key
        return key

    def unregister(self, fileobj):
        return self._map.pop(fileobj)

    def modify(self, fileobj, events, data=None):
        self.unregister(fileobj)
        return self.register(fileobj, events, data)

    def select(self, timeout=None):
        lp = self._loop
        if timeout is None:
            raise Stuck(f"nothing scheduled at virtual time {lp._vt:.6f}")
        il = getattr(lp, "iter_log", None)
        if il is not None:
            il.append(round(lp._vt - lp.iter_t0, 7))      # one entry per loop iteration (C19: every stopping point)
        if timeout > 0:
            lp._vt += timeout
            lp._spin = 0
            if lp._vt > lp.horizon:
                raise Stuck("virtual time horizon exceeded")
        else:
            # Every loop iteration that runs callbacks costs 1 microsecond of virtual time
            # (CPU time).  Without it, code that re-arms a timer with a residual timeout
            # such as 0.05 - 0.05 = 7e-18 would loop for ever at a frozen clock (Zeno).
            lp._vt += 1e-6
            lp._spin += 1
            if lp._spin > lp.spin_limit:
                who = []
                try:
                    for t in asyncio.all_tasks(lp):
                        if not t.done():
                            c, chain = t.get_coro(), []
                            while c is not None and len(chain) < 8:
                                f = getattr(c, "cr_frame", None) or getattr(c, "gi_frame", None)
                                if f is not None:
                                    chain.append("%s:%d" % (f.f_code.co_name, f.f_lineno))
                                c = getattr(c, "cr_await", None) or getattr(c, "gi_yieldfrom", None)
                            who.append(">".join(chain))
                except Exception:  # noqa: BLE001
                    pass
                if not hasattr(lp, "livelock_tasks"):
                    lp.livelock_tasks = sorted(who)
                raise Stuck("livelock: %d busy loop iterations without a timer wait" % lp._spin)
        return []

    def close(self):
        self._map.clear()

    def get_map(self):
        return self._map


class DetFuture(asyncio.Future):
    """Future whose hash is its creation number: sets of futures (asyncio.wait, the
    fetcher's waiter set, ...) then iterate in an order that does not depend on
    memory addresses, so a run is reproducible across processes."""
    __slots__ = ("_seq",)

    def __hash__(self):
        return self._seq


class DetTask(asyncio.Task):
    def __init__(self, coro, *, loop, **kw):
        loop._fseq += 1
        self._seq = loop._fseq          # needed by __hash__ during Task.__init__ (task registry)
        super().__init__(coro, loop=loop, **kw)

    def __hash__(self):
        return self._seq


class SimLoop(asyncio.SelectorEventLoop):
    def __init__(self, seed=0, start=1_000_000.0, horizon=None):
        self._vt = start
        self.horizon = start + (horizon if horizon is not None else 10 * 3600.0)
        self.owner = None
        self.net = None
        self.handles = []      # (owner, handle) of timers created
        self.tasks_by_owner = []
        self.dead_owners = set()
        self.rng = random.Random(seed)
        super().__init__(_FakeSelector(self))
        self._clock_resolution = 1e-9
        self.set_task_factory(self._mk_task)
        self.steps = 0
        self._fseq = 0
        self._spin = 0
        self.spin_limit = 300_000

    # --- time ---------------------------------------------------------------
    def time(self):
        return self._vt

    # --- ownership ------------------------------------------------------------
    def create_future(self):
        f = DetFuture(loop=self)
        self._fseq += 1
        f._seq = self._fseq
        return f

    def _mk_task(self, loop, coro, **kw):
        t = DetTask(coro, loop=loop, **kw)
        t._owner = OWNER.get()
        self.tasks_by_owner.append((t._owner if t._owner is not None else self.owner, t))
        return t

    def call_at(self, when, callback, *args, context=None):
        h = super().call_at(when, callback, *args, context=context)
        if self._dead(context):
            h.cancel()
        o = context.get(OWNER) if context is not None else OWNER.get()      # a timer belongs to the context it will run in
        self.handles.append((o if o is not None else self.owner, h))
        if len(self.handles) > 4096:
            self.handles = [(o, x) for o, x in self.handles if not x.cancelled() and x.when() >= self._vt]
        return h

    def _dead(self, context):
        if not self.dead_owners:
            return False
        o = context.get(OWNER) if context is not None else OWNER.get()
        return o in self.dead_owners

    def call_soon(self, callback, *args, context=None):
        h = super().call_soon(callback, *args, context=context)
        if self._dead(context):
            h.cancel()
        return h

    def kill(self, owner, freeze=False):
        """process death of a simulated client: its connections go dead first (nothing it does
        while being torn down reaches the network), then all its tasks and timers are cancelled.
        freeze=True: nothing of the client ever runs again -- no cancellation handler, no finally
        block (a SIGKILL); its tasks stay pending for ever."""
        if self.net is not None:
            for tr in list(self.net.live):
                if tr.owner == owner:
                    tr.dead = True
        if freeze:
            self.dead_owners.add(owner)
            for h in list(self._ready) + list(self._scheduled):
                c = getattr(h, "_context", None)
                if c is not None and c.get(OWNER) == owner:
                    h.cancel()
            for o, h in self.handles:
                if o == owner and not h.cancelled():
                    h.cancel()
            return
        for o, h in self.handles:
            if o == owner and not h.cancelled():
                h.cancel()
        for o, t in self.tasks_by_owner:
            if o == owner and not t.done():
                t.cancel()

    def live_tasks(self, owner):
        return [t for o, t in self.tasks_by_owner if o == owner and not t.done()]

    def live_timers(self, owner):
        return [h for o, h in self.handles if o == owner and not h.cancelled() and h.when() >= self._vt
                and h in self._scheduled]

    # --- executor / network ----------------------------------------------------
    def run_in_executor(self, executor, func, *args):
        fut = self.create_future()
        try:
            fut.set_result(func(*args))
        except BaseException as e:  # noqa: BLE001
            fut.set_exception(e)
        return fut

    async def create_connection(self, protocol_factory, host=None, port=None, **kw):
        if self.net is None:
            raise OSError("no simulated network attached")
        return await self.net.create_connection(self, protocol_factory, host, port, **kw)

    async def getaddrinfo(self, host, port, **kw):
        return [(2, 1, 6, "", (host, port))]


class Patched:
    """Context manager: patch wall clocks and randomness to the loop."""

    def __init__(self, loop: SimLoop, seed: int):
        self.loop, self.seed = loop, seed

    def __enter__(self):
        lp = self.loop
        self._saved = (_time.monotonic, _time.time, _uuid.uuid4)
        _time.monotonic = lambda: lp._vt
        _time.time = lambda: lp._vt + 1.6e9
        r = random.Random(self.seed ^ 0x5EED)
        _uuid.uuid4 = lambda: _uuid.UUID(int=r.getrandbits(128), version=4)
        random.seed(self.seed)
        return lp

    def __exit__(self, *a):
        _time.monotonic, _time.time, _uuid.uuid4 = self._saved


def run(main_factory, *, seed=0, net=None, horizon=None, debug=False):
    """Run `main_factory(loop)` (a coroutine function) to completion on a fresh
    SimLoop.  Returns (result, loop).  Raises Stuck if the run hangs."""
    loop = SimLoop(seed=seed, horizon=horizon)
    loop.net = net
    if net is not None:
        net.attach(loop)
    asyncio.set_event_loop(loop)
    try:
        with Patched(loop, seed):
            res = loop.run_until_complete(main_factory(loop))
        return res, loop
    finally:
        try:
            # cancel leftovers silently so the interpreter does not warn
            for _o, t in loop.tasks_by_owner:
                if not t.done():
                    t.cancel()
            with Patched(loop, seed):
                try:
                    loop.run_until_complete(asyncio.sleep(0))
                except BaseException:  # noqa: BLE001
                    pass
        finally:
            asyncio.set_event_loop(None)
            loop.close()
