"""Driver for C14 / C15: runs the REAL aiokafka assignors and records
(input, output) cases for spec/Assignors.tla.

Everything that decides is in the spec; this module only enumerates / samples
inputs, calls `assign()` (through the real member-metadata and user-data
encodings) and writes down what came back.

`import aiokafka` happens lazily (the runner activates the snapshot first).
"""
from __future__ import annotations

import hashlib
import itertools
import json
import logging
import multiprocessing
import random
import os
import signal
from pathlib import Path

from . import tlc

# development only: evaluate against a copy of the spec outside /verif/spec
SPEC_DIR = Path(os.environ.get("VERIF_ASSIGNORS_SPEC", str(tlc.SPEC)))

KINDS = ("range", "roundrobin", "sticky")
ASSIGN_TIMEOUT = 4.0         # seconds; a normal call takes well under 50 ms
ASSIGN_TIMEOUT_CONFIRM = 16.0


class FakeCluster:
    """Stand-in for ClusterMetadata: topics with metadata -> partition ids."""

    def __init__(self, parts: dict):
        self._p = {t: set(ps) for t, ps in parts.items()}

    def topics(self, exclude_internal_topics=True):
        return set(self._p)

    def partitions_for_topic(self, topic):
        return set(self._p[topic]) if topic in self._p else None

    def available_partitions_for_topic(self, topic):
        return self.partitions_for_topic(topic)


class _Timeout(BaseException):
    pass


def _alarm(*_a):
    raise _Timeout()


_CLS = {}


def classes():
    if not _CLS:
        from aiokafka.coordinator.assignors.range import RangePartitionAssignor
        from aiokafka.coordinator.assignors.roundrobin import RoundRobinPartitionAssignor
        from aiokafka.coordinator.assignors.sticky.sticky_assignor import StickyPartitionAssignor
        from aiokafka.coordinator.protocol import ConsumerProtocol
        logging.getLogger("aiokafka").setLevel(logging.CRITICAL + 1)
        _CLS.update(range=RangePartitionAssignor, roundrobin=RoundRobinPartitionAssignor,
                    sticky=StickyPartitionAssignor, proto=ConsumerProtocol)
    return _CLS


def reset_sticky():
    s = classes()["sticky"]
    s.member_assignment = None
    s.generation = s.DEFAULT_GENERATION_ID
    s._latest_partition_movements = None


def member_metadata(kind: str, topics: list, prev_bytes: bytes | None = None, gen: int | None = None,
                    states: dict | None = None, member: str | None = None):
    """What the group leader sees for one member: the member's own assignor
    produces the metadata (`metadata()` after `on_assignment` of the bytes it
    received in the previous SyncGroup), it is encoded for JoinGroup and decoded
    by the leader (group_coordinator._perform_assignment).

    The sticky assignor keeps its state in class attributes, i.e. per process.
    Each member is its own process: its state (`states[member]`, carried from
    round to round of a chain) is installed before and saved after, and the class
    is left reset."""
    c = classes()
    cls = c["sticky" if kind.startswith("sticky") else kind]
    if cls is c["sticky"]:
        reset_sticky()
        if states is not None and member in states:
            cls.member_assignment, cls.generation = states[member]
        if prev_bytes is not None:
            cls.on_assignment(c["proto"].ASSIGNMENT.decode(prev_bytes))
            if gen is not None:
                cls.on_generation_assignment(gen)
    md = cls.metadata(list(topics))
    wire = md if isinstance(md, bytes) else md.encode()
    if cls is c["sticky"]:
        if states is not None and member is not None:
            states[member] = (cls.member_assignment, cls.generation)
        reset_sticky()
    return c["proto"].METADATA.decode(wire)


def _guarded(fn, timeout):
    old = signal.signal(signal.SIGALRM, _alarm)
    signal.setitimer(signal.ITIMER_REAL, timeout)
    try:
        return "ok", fn()
    except _Timeout:
        return "fail", "timeout"
    except Exception as e:  # noqa: BLE001
        return "fail", "raised-" + type(e).__name__
    finally:
        signal.setitimer(signal.ITIMER_REAL, 0)
        signal.signal(signal.SIGALRM, old)


def call_assign(kind: str, parts: dict, members: dict):
    """members: {member_id: decoded ConsumerProtocolMemberMetadata} (dict order is
    the order the leader sees).  Returns ("ok", {member: assignment object}) or
    ("fail", reason)."""
    cls = classes()["sticky" if kind.startswith("sticky") else kind]
    cl = FakeCluster(parts)
    st, res = _guarded(lambda: cls.assign(cl, dict(members)), ASSIGN_TIMEOUT)
    if st == "fail" and res == "timeout":      # never report a slow machine as a hang
        st, res = _guarded(lambda: cls.assign(cl, dict(members)), ASSIGN_TIMEOUT_CONFIRM)
    if cls is classes()["sticky"]:
        reset_sticky()
    return st, res


def raw_of(res: dict) -> dict:
    """assign() result exactly as returned: member -> [[topic, [partition..]]..]"""
    return {m: [[t, [int(p) for p in ps]] for t, ps in a.assignment] for m, a in res.items()}


def encode_raw(raw_member: list) -> bytes:
    """assignment bytes a member would have received for a given raw assignment"""
    from aiokafka.coordinator.protocol import ConsumerProtocolMemberAssignment as MA
    return MA(0, [(t, list(ps)) for t, ps in raw_member], b"").encode()


# ---------------------------------------------------------------------------
# the bounded input space (mirrors `Inputs` of the spec; its completeness is
# checked against TLC's Cardinality(Inputs), see input_key / card)

def blocks(maxm: int, maxt: int, maxp: int):
    for nt in range(1, maxt + 1):
        for pc in itertools.product([None] + list(range(maxp + 1)), repeat=nt):
            for nm in range(1, maxm + 1):
                yield nt, pc, nm


def block_size(b):
    nt, _pc, nm = b
    return (2 ** nt - 1) ** nm


def block_inputs(b, identical_only=False):
    nt, pc, nm = b
    topics = [f"t{j}" for j in range(nt)]
    parts = {t: list(range(c)) for t, c in zip(topics, pc) if c is not None}
    subsets = [list(s) for r in range(1, nt + 1) for s in itertools.combinations(topics, r)]
    mem = [f"m{j}" for j in range(nm)]
    if identical_only:
        for s in subsets:
            yield topics, parts, {m: list(s) for m in mem}
    else:
        for sc in itertools.product(subsets, repeat=nm):
            yield topics, parts, dict(zip(mem, sc))


def input_key(topics, parts, subs) -> bytes:
    s = json.dumps([sorted(topics), sorted((t, sorted(p)) for t, p in parts.items()),
                    sorted((m, sorted(v)) for m, v in subs.items())], separators=(",", ":"))
    return hashlib.blake2b(s.encode(), digest_size=12).digest()


def chunk_blocks(bl, target):
    out, cur, n = [], [], 0
    for b in bl:
        cur.append(b)
        n += block_size(b)
        if n >= target:
            out.append(cur)
            cur, n = [], 0
    if cur:
        out.append(cur)
    return out


def assignable(parts, subs) -> int:
    sub = set().union(*[set(v) for v in subs.values()]) if subs else set()
    return sum(len(p) for t, p in parts.items() if t in sub)


# ---------------------------------------------------------------------------
# C14 cases

def assign_case(topics, parts, subs, *, enum, kinds=KINDS, ud=None, gen=None, tag="", states=None):
    """Run the assignors on one input.  `ud`: {member: assignment bytes of the
    previous round} -> an extra sticky run "stickyud" with that user data."""
    out, fail, objs = {}, {}, {}
    for k in kinds:
        md = {m: member_metadata(k, subs[m]) for m in subs}
        st, res = call_assign(k, parts, md)
        if st == "ok":
            out[k] = raw_of(res)
            objs[k] = res
        else:
            fail[k] = res
    if ud is not None:
        if states is not None:
            for m in [x for x in states if x not in subs]:
                del states[m]                      # that member's process is gone
        def g_of(m):
            if m not in ud:
                return None
            return gen.get(m) if isinstance(gen, dict) else gen          # per-member generation (a returning member is behind)
        md = {m: member_metadata("sticky", subs[m], ud.get(m), g_of(m), states, m)
              for m in subs}
        st, res = call_assign("sticky", parts, md)
        if st == "ok":
            out["stickyud"] = raw_of(res)
            objs["stickyud"] = res
        else:
            fail["stickyud"] = res
    case = {"kind": "a", "topics": list(topics), "parts": parts, "subs": subs, "out": out,
            "fail": fail, "enum": 1 if enum else 0, "tag": tag}
    return case, objs


def c14_enum_task(args):
    """One pool task: a list of blocks end to end (real assign -> TLC verdicts)."""
    bl, with_ud, cfg, shard = args
    cases, keys, nontrivial, evals = [], [], 0, 0
    for b in bl:
        for topics, parts, subs in block_inputs(b):
            case, objs = assign_case(topics, parts, subs, enum=True)
            if with_ud and "sticky" in objs:
                ud = {m: a.encode() for m, a in objs["sticky"].items()}
                c2, _ = assign_case(topics, parts, subs, enum=True, kinds=(), ud=ud)
                case["out"].update(c2["out"])
                case["fail"].update(c2["fail"])
            evals += len(case["out"]) + len(case["fail"])
            keys.append(input_key(topics, parts, subs))
            nontrivial += 1 if assignable(parts, subs) else 0
            cases.append(case)
    bad, st, gen = tlc.run_table("Assignors", cfg, cases, shard=shard, jobs=1, spec_dir=SPEC_DIR)
    return {"n": len(cases), "keys": keys, "nontrivial": nontrivial, "evals": evals,
            "bad": [cases[j] for j in bad], "states": st, "gen": gen,
            "samples": [cases[len(cases) // 2]]}


def pool_map(fn, tasks, procs=14):
    if not tasks:
        return []
    ctx = multiprocessing.get_context("fork")
    with ctx.Pool(min(procs, len(tasks))) as p:
        return p.map(fn, tasks, chunksize=1)


# ---------------------------------------------------------------------------
# random inputs and chains (C14: arbitrary perturbations, C15: same/minus/plus)

def rand_input(rng: random.Random, maxm=12, maxt=8, maxp=12, identical=None, same_order=False):
    nt = rng.randint(1, maxt)
    topics = [f"t{j}" for j in range(nt)]
    rng.shuffle(topics)
    parts = {}
    for t in topics:
        r = rng.random()
        if r < 0.08:
            continue                                   # no metadata
        n = rng.randint(0, maxp)
        ids = list(range(n))
        if rng.random() < 0.15 and n:                  # non-contiguous ids
            ids = sorted(rng.sample(range(0, 2 * n + 2), n))
        parts[t] = ids
    nm = rng.randint(1, maxm)
    pref = rng.choice(["m", "c-", "consumer-"])
    mem = [f"{pref}{j}" for j in rng.sample(range(0, 3 * maxm), nm)]
    if identical is None:
        identical = rng.random() < 0.4
    common = rng.sample(topics, rng.randint(1, nt))
    subs = {}
    for m in mem:
        s = list(common) if identical else rng.sample(topics, rng.randint(1, nt))
        if not (identical and same_order):
            rng.shuffle(s)
        subs[m] = s
    return topics, parts, subs, common if identical else None


def unsubscribed_with_partitions(parts, subs) -> bool:
    sub = set().union(*[set(v) for v in subs.values()]) if subs else set()
    return any(p and t not in sub for t, p in parts.items())


def order_differs(subs) -> bool:
    """same topics for everybody, but not listed in the same order"""
    return len({frozenset(v) for v in subs.values()}) == 1 and len({tuple(v) for v in subs.values()}) > 1


def fresh_member(rng, subs):
    while True:
        m = f"{rng.choice(['a', 'm', 'n', 'z', 'c-'])}{rng.randint(0, 99)}"
        if m not in subs:
            return m


def sticky_round(parts, subs, prev_bytes: dict, gen, states: dict | None = None):
    """One sticky rebalance: members present in prev_bytes report it as user data.
    `states`: per-member assignor state carried along a chain (updated in place)."""
    if states is not None:
        for m in [x for x in states if x not in subs]:
            del states[m]                          # that member's process is gone
    md = {m: member_metadata("sticky", subs[m], prev_bytes.get(m), gen if m in prev_bytes else None, states, m)
          for m in subs}
    return call_assign("sticky", parts, md)


def step_case(parts, subs0, subs1, prev_raw, new_raw, step, tag):
    return {"kind": "s", "parts": parts, "subs0": subs0, "subs1": subs1, "prev": prev_raw,
            "new": new_raw, "step": step, "tag": tag}


# ---------------------------------------------------------------------------
# naming the failing clause: the rejected cases are re-evaluated one clause at
# a time (CLAUSE_K / CLAUSE select one conjunct of CaseOK)

A_CLAUSES = ("members", "duplicate-entry", "unknown-partition", "owner-not-subscribed",
             "unowned-partition", "multiple-owners", "not-balanced")
S_CLAUSES = (("step", "class"), ("same", "changed"), ("departed", "moved-between-survivors"),
             ("departed", "not-redistributed"), ("join", "moved-between-old"))


def name_clauses(cfg: str, bad_cases: list, limit=5000, pairs=None) -> list[list[tuple[str, str]]]:
    """For each rejected case the list of (k, clause) that fail."""
    bad_cases = bad_cases[:limit]
    res = [[] for _ in bad_cases]
    if not bad_cases:
        return res
    explicit = pairs is not None
    pairs = set(pairs or ())
    for c in ([] if explicit else bad_cases):
        if c["kind"] == "a":
            pairs.add(("input", "inbounds"))
            for k in list(c["out"]) + list(c["fail"]):
                pairs.add((k, "no-result"))
                for cl in A_CLAUSES:
                    pairs.add((k, cl))
        else:
            pairs.update(S_CLAUSES)
    pairs = sorted(pairs)

    def one(pc):
        b, _s, _g = tlc.run_table("Assignors", cfg, bad_cases, shard=len(bad_cases), jobs=1,
                                  env={"CLAUSE_K": pc[0], "CLAUSE": pc[1]}, spec_dir=SPEC_DIR)
        return pc, b

    from concurrent.futures import ThreadPoolExecutor
    with ThreadPoolExecutor(max_workers=8) as ex:
        for pc, b in ex.map(one, pairs):
            for j in b:
                res[j].append(pc)
    for j, r in enumerate(res):
        if not r and not explicit:
            raise tlc.MachineryError(f"case rejected as a whole but by no single clause: {bad_cases[j]}")
    return res


def card(cfg: str) -> int:
    """Cardinality(Inputs) as computed by TLC for the bounds in `cfg`."""
    import os
    import tempfile
    d = tempfile.mkdtemp(prefix="asg-card-", dir=tlc.SCRATCH)
    try:
        f = os.path.join(d, "card.json")
        # run_table with no cases starts no JVM: evaluate a single trivial case
        triv = {"kind": "s", "parts": {}, "subs0": {"m0": ["t0"]}, "subs1": {"m0": ["t0"]},
                "prev": {"m0": []}, "new": {"m0": []}, "step": "same", "tag": "card"}
        b, _s, _g = tlc.run_table("Assignors", cfg, [triv], shard=1, jobs=1, env={"CARD_FILE": f}, spec_dir=SPEC_DIR)
        if b:
            raise tlc.MachineryError("trivial case rejected")
        return int(json.load(open(f))["inputs"])
    finally:
        import shutil
        shutil.rmtree(d, ignore_errors=True)


def load_avoid(pid: str) -> set:
    import os
    av = set(filter(None, os.environ.get("VERIF_AVOID", "").split(",")))
    try:
        data = json.loads((tlc.VERIF / "known_findings.json").read_text())
        for f in data.get("findings", []):
            if f.get("property") == pid and f.get("status") == "open" and f.get("avoid"):
                av.update(str(f["avoid"]).split(","))
    except Exception:  # noqa: BLE001
        pass
    return av
