"""C09 helper: drives the real record builders / readers / splitters of both
implementations (compiled `_crecords` and pure Python) and records what they
return as rows for spec/RecordBatchFormat.tla.  Nothing here decides anything:
sizes, layouts, decisions and round-trip equality are judged by TLC.

Import aiokafka only through `load_impls()` (after the runner activated the
scratch snapshot)."""
from __future__ import annotations

import importlib
import struct
import sys
import zlib

T0 = 1_640_995_200_000
CODEC_NAMES = {0: "none", 1: "gzip", 2: "snappy", 3: "lz4", 4: "zstd"}
IMPL_LONG = {"cy": "cython", "py": "python"}


# ---------------------------------------------------------------------------
# the two implementations side by side in one process


class Impl:
    def __init__(self, name, d, l, m, crc32c):
        self.name = name
        self.V2Builder = d.DefaultRecordBatchBuilder
        self.V2Batch = d.DefaultRecordBatch
        self.LegacyBuilder = l.LegacyRecordBatchBuilder
        self.LegacyBatch = l.LegacyRecordBatch
        self.MemoryRecords = m.MemoryRecords
        self.crc32c = crc32c


_IMPLS = None


def load_impls():
    """{'cy': Impl, 'py': Impl}.  The pure-Python stack is obtained by importing
    the aiokafka.record modules a second time with NO_EXTENSIONS set (exactly the
    switch AIOKAFKA_NO_EXTENSIONS flips), so that its MemoryRecords dispatches to
    the pure-Python batch classes."""
    global _IMPLS
    if _IMPLS is not None:
        return _IMPLS
    import aiokafka.util as u
    import aiokafka.record.default_records as d
    import aiokafka.record.legacy_records as l
    import aiokafka.record.memory_records as m
    from aiokafka.record._crecords import crc32c_cython

    def is_rec(k):
        return k == "aiokafka.record" or k.startswith("aiokafka.record.")

    saved = {k: v for k, v in sys.modules.items() if is_rec(k)}
    for k in saved:
        del sys.modules[k]
    old = u.NO_EXTENSIONS
    u.NO_EXTENSIONS = True
    try:
        d2 = importlib.import_module("aiokafka.record.default_records")
        l2 = importlib.import_module("aiokafka.record.legacy_records")
        m2 = importlib.import_module("aiokafka.record.memory_records")
        ru2 = importlib.import_module("aiokafka.record.util")
    finally:
        u.NO_EXTENSIONS = old
        for k in [k for k in sys.modules if is_rec(k)]:
            del sys.modules[k]
        sys.modules.update(saved)
        import aiokafka
        aiokafka.record = saved["aiokafka.record"]
    cy = Impl("cy", d, l, m, crc32c_cython)
    py = Impl("py", d2, l2, m2, ru2.calc_crc32c)
    from harness.tlc import MachineryError
    for cls in (cy.V2Builder, cy.V2Batch, cy.LegacyBuilder, cy.LegacyBatch, cy.MemoryRecords):
        if "_crecords" not in cls.__module__:
            raise MachineryError(f"compiled implementation not in use: {cls}")
    for cls in (py.V2Builder, py.V2Batch, py.LegacyBuilder, py.LegacyBatch, py.MemoryRecords,
                m2.DefaultRecordBatch, m2.LegacyRecordBatch):
        if "_crecords" in cls.__module__ or not cls.__name__.endswith("Py"):
            raise MachineryError(f"pure-Python implementation not isolated: {cls}")
    _IMPLS = {"cy": cy, "py": py}
    return _IMPLS


def available_codecs():
    import aiokafka.codec as c
    out = [0]
    for n, f in ((1, c.has_gzip), (2, c.has_snappy), (3, c.has_lz4), (4, c.has_zstd)):
        if f():
            out.append(n)
    return out


def _decompress(codec, data):
    import aiokafka.codec as c
    return {1: c.gzip_decode, 2: c.snappy_decode, 3: c.lz4_decode, 4: c.zstd_decode}[codec](bytes(data))


# ---------------------------------------------------------------------------
# numbers and descriptors


def b8(x):
    return list(struct.pack(">q", x))


def b4(x):
    return list(struct.pack(">i", x))


def b2(x):
    return list(struct.pack(">h", x))


def from_b8(t):
    return struct.unpack(">q", bytes(t))[0]


def dig(b):
    return 0 if b is None else (zlib.crc32(bytes(b)) & 0x3FFFFFFF)


def blen(b):
    return -1 if b is None else len(b)


def payload(n, rng, compressible=None):
    """n bytes (None for n < 0): random when short, a repeated random block when
    long (so that compression has something to gain)."""
    if n < 0:
        return None
    if n <= 96 and not compressible:
        return rng.randbytes(n)
    block = rng.randbytes(rng.choice((7, 16, 33)))
    return (block * (n // len(block) + 1))[:n]


def header_key(nbytes, rng):
    """a str whose utf-8 encoding has exactly nbytes bytes, non-ASCII when possible"""
    parts, left = [], nbytes
    for ch, w in (("€", 3), ("é", 2)):
        if left >= w:
            parts.append(ch)
            left -= w
    parts.append("".join(rng.choice("abcxyz-_.") for _ in range(left)))
    rng.shuffle(parts)
    s = "".join(parts)
    assert len(s.encode("utf-8")) == nbytes
    return s


def make_record(cls, rng, legacy=False, compressible=None):
    """cls = {k, v, h: [{k, v}], ts (8-byte list or int)} -> concrete record + descriptor"""
    key = payload(cls["k"], rng, compressible)
    value = payload(cls["v"], rng, compressible)
    headers = []
    if not legacy:
        for h in cls.get("h", []):
            headers.append((header_key(h["k"], rng), payload(h["v"], rng)))
    ts = cls["ts"] if isinstance(cls["ts"], int) else from_b8(cls["ts"])
    desc = {"k": blen(key), "kd": dig(key), "v": blen(value), "vd": dig(value),
            "h": [{"k": len(hk.encode()), "kd": dig(hk.encode()), "v": blen(hv), "vd": dig(hv)}
                  for hk, hv in headers],
            "ts": b8(ts)}
    return {"key": key, "value": value, "headers": headers, "ts": ts, "desc": desc}


def rec_desc(r):
    """descriptor of a decoded record"""
    ts, tt = r.timestamp, r.timestamp_type
    return {"k": blen(r.key), "kd": dig(r.key), "v": blen(r.value), "vd": dig(r.value),
            "h": [{"k": len(hk.encode()), "kd": dig(hk.encode()), "v": blen(hv), "vd": dig(hv)}
                  for hk, hv in r.headers],
            "ts": [] if ts is None else b8(ts), "tt": -1 if tt is None else int(tt),
            "off": b8(r.offset)}


NO_POST = {"rebase": 0, "base": b8(0), "logappend": 0, "control": 0, "appendts": b8(0)}


# ---------------------------------------------------------------------------
# encoder side


def _key_off(magic):
    return 18 if magic == 0 else 26


def _new_builder(I, sc, codec):
    magic = sc["magic"]
    if magic == 2:
        return I.V2Builder(2, codec, sc["txnl"], sc["pid"], sc["epoch"], sc["seq"], sc["limit"])
    return I.LegacyBuilder(magic, codec, sc["limit"])


def run_encoder(I, sc, codec=None):
    """Runs sc['ops'] on implementation I.  Returns (obs list, built bytes or None,
    accepted records)."""
    magic = sc["magic"]
    codec = sc["codec"] if codec is None else codec
    wrap = sc.get("wrap", 0)
    if wrap:
        from aiokafka.producer.message_accumulator import BatchBuilder
        top = BatchBuilder(sc["limit"], codec, is_transactional=sc["txnl"])
        top._builder = I.V2Builder(2, codec, sc["txnl"], -1, -1, 0, sc["limit"])
        top._builder.set_producer_state(sc["pid"], sc["epoch"], sc["seq"])
        inner = None
    else:
        top = inner = _new_builder(I, sc, codec)
    obs, buf, accepted, nacc = [], None, [], 0
    for op in sc["ops"]:
        if op[0] == "append":
            r = op[1]
            sib = est = -1
            if inner is not None:
                if magic == 2:
                    sib = inner.size_in_bytes(nacc, r["ts"], r["key"], r["value"], r["headers"])
                    est = inner.estimate_size_in_bytes(r["key"], r["value"], r["headers"])
                else:
                    sib = inner.size_in_bytes(nacc, r["ts"], r["key"], r["value"])
                    est = inner.record_overhead(magic)
            if wrap:
                meta = top.append(timestamp=r["ts"], key=r["key"], value=r["value"], headers=r["headers"])
            elif magic == 2:
                meta = inner.append(nacc, r["ts"], r["key"], r["value"], r["headers"])
            else:
                meta = inner.append(nacc, r["ts"], r["key"], r["value"])
            if meta is None:
                o = {"acc": 0, "off": 0, "size": 0, "ts": b8(0)}
            else:
                o = {"acc": 1, "off": meta.offset, "size": meta.size, "ts": b8(meta.timestamp)}
                accepted.append(r)
                nacc += 1
            o.update(sz=top.size(), sib=sib, est=est)
            obs.append(o)
        elif op[0] == "close":
            top.close()
            obs.append({"sz": top.size()})
        elif op[0] == "build":
            buf = bytes(top._build() if wrap else top.build())
            obs.append({"len": len(buf), "sz": top.size()})
            inner = None          # size_in_bytes of a built raw builder is not promised
        else:
            raise ValueError(op)
    return obs, buf, accepted


def describe_built(I, sc, o, buf, accepted, metas_sizes):
    """Adds to the build observation `o` the raw material the spec inspects:
    header bytes, codec bits, decompressed record section."""
    magic = sc["magic"]
    if magic == 2:
        o["hdr"] = list(buf[:61])
        o["codec"] = buf[22] & 7
        section = buf[61:]
        inner = _decompress(o["codec"], section) if o["codec"] else section
        o["msgs"] = []
    else:
        o["hdr"] = []
        o["codec"] = buf[17] & 7 if buf else 0
        ko = _key_off(magic)
        if o["codec"]:
            (vlen,) = struct.unpack_from(">i", buf, ko + 4)
            o["msgs"] = [{"fix": list(buf[:ko + 4]), "vlf": list(buf[ko + 4:ko + 8])}]
            inner = _decompress(o["codec"], buf[ko + 8:ko + 8 + vlen])
        else:
            msgs, pos = [], 0
            for r, size in zip(accepted, metas_sizes):
                kl = len(r["key"]) if r["key"] is not None else 0
                msgs.append({"fix": list(buf[pos:pos + ko + 4]),
                             "vlf": list(buf[pos + ko + 4 + kl:pos + ko + 8 + kl])})
                pos += size
            o["msgs"] = msgs
            inner = buf
    o["inner"] = len(inner)
    return bytes(inner)


# ---------------------------------------------------------------------------
# the broker in between (base offsets, LogAppendTime, control bit)


def apply_post(sc, buf, n, sizes, crc32c):
    post = sc["post"]
    magic = sc["magic"]
    if not (post["rebase"] or post["logappend"] or post["control"]):
        return buf
    b = bytearray(buf)
    base = from_b8(post["base"])
    if magic == 2:
        if post["rebase"]:
            struct.pack_into(">q", b, 0, base)
        if post["logappend"]:
            b[22] |= 0x08
            b[35:43] = bytes(post["appendts"])
        if post["control"]:
            b[22] |= 0x20
        if post["logappend"] or post["control"]:
            struct.pack_into(">I", b, 17, crc32c(bytes(b[21:])))
        return bytes(b)
    compressed = (b[17] & 7) != 0
    if compressed:
        if post["rebase"]:
            struct.pack_into(">q", b, 0, base + n - 1)
        if post["logappend"]:
            b[17] |= 0x08
            if magic == 1:
                b[18:26] = bytes(post["appendts"])
            struct.pack_into(">I", b, 12, zlib.crc32(bytes(b[16:])))
        return bytes(b)
    pos = 0
    for i, size in enumerate(sizes):
        if post["rebase"]:
            struct.pack_into(">q", b, pos, base + i)
        if post["logappend"]:
            b[pos + 17] |= 0x08
            struct.pack_into(">I", b, pos + 12, zlib.crc32(bytes(b[pos + 16:pos + size])))
        pos += size
    return bytes(b)


# ---------------------------------------------------------------------------
# decoder side


def _batch_magic(bt, recs):
    if "Default" in type(bt).__name__:
        return 2
    return 0 if (recs and recs[0]["tt"] == -1) else 1


def decode_all(D, wire, want_props=True):
    out = {"err": "", "batches": [], "crc": True, "has_next_end": True, "next_none": False,
           "pid": b8(0), "epoch": b2(0), "seq": b4(0), "size_in_bytes": -1}
    try:
        mr = D.MemoryRecords(wire)
        out["size_in_bytes"] = mr.size_in_bytes()
        while mr.has_next():
            bt = mr.next_batch()
            ok = bool(bt.validate_crc())
            out["crc"] = out["crc"] and ok
            recs = [rec_desc(r) for r in bt]
            magic = _batch_magic(bt, recs)
            if magic == 2:
                p = {"base": b8(bt.base_offset), "magic": bt.magic, "codec": bt.compression_type,
                     "tt": bt.timestamp_type, "txnl": bool(bt.is_transactional),
                     "control": bool(bt.is_control_batch), "lod": bt.last_offset_delta,
                     "first_ts": b8(bt.first_timestamp), "max_ts": b8(bt.max_timestamp),
                     "next": b8(bt.next_offset)}
                if not out["batches"]:
                    out["pid"], out["epoch"], out["seq"] = (b8(bt.producer_id), b2(bt.producer_epoch),
                                                             b4(bt.base_sequence))
            else:
                p = {"next": b8(bt.next_offset)}
            out["batches"].append({"magic": magic, "recs": recs, "p": p, "crc": ok})
        out["has_next_end"] = bool(mr.has_next())
        out["next_none"] = mr.next_batch() is None
    except Exception as e:  # noqa: BLE001 -- recorded, TLC rejects the row
        out["err"] = type(e).__name__ + ": " + str(e)[:80]
    return out


def flip_rejected(D, wire, first_len, first_klen, rng):
    """validate_crc() of the first batch after one bit flip in its checksummed
    payload (attributes, timestamps, record section / key / value bytes) or in the
    checksum itself.  Length fields and the magic byte are left alone: damaging
    them is C10's subject (hostile input), not a checksum question.
    Returns what validate_crc said."""
    magic = wire[16]
    if magic >= 2:
        ranges = [(17, 21), (21, first_len)]
    else:
        ko = _key_off(magic)
        ranges = [(12, 16), (17, ko), (ko + 4, ko + 4 + first_klen), (ko + 8 + first_klen, first_len)]
    ranges = [(a, b) for a, b in ranges if b > a]
    weights = [min(b - a, 64) for a, b in ranges]
    a, b_ = rng.choices(ranges, weights)[0]
    bit = rng.randrange(a * 8, b_ * 8)
    b = bytearray(wire)
    b[bit // 8] ^= 1 << (bit % 8)
    try:
        mr = D.MemoryRecords(bytes(b))
        bt = mr.next_batch()
        return bool(bt.validate_crc())
    except Exception:  # noqa: BLE001 -- an exception here is not a rejection by checksum
        return True


# ---------------------------------------------------------------------------
# one "build" row: both encoders, the broker, all four (encoder, decoder) pairs


def run_build_case(sc, rng):
    impls = load_impls()
    row = {"kind": "build", "magic": sc["magic"], "codec": sc["codec"], "txnl": sc["txnl"],
           "wrap": sc.get("wrap", 0), "limit": sc["limit"], "pid": b8(sc["pid"]),
           "epoch": b2(sc["epoch"]), "seq": b4(sc["seq"]), "post": sc["post"],
           "ops": [{"op": "append", "r": op[1]["desc"]} if op[0] == "append" else {"op": op[0]}
                   for op in sc["ops"]],
           "enc": {}, "dec": [], "same": {"bytes_eq": True, "inner_eq": True}}
    has_build = any(op[0] == "build" for op in sc["ops"])
    bidx = next((j for j, op in enumerate(sc["ops"]) if op[0] == "build"), None)
    wires, inners, bufs = {}, {}, {}
    for name, I in impls.items():
        obs, buf, accepted = run_encoder(I, sc)
        row["enc"][name] = {"obs": obs}
        if not has_build:
            continue
        sizes = [o["size"] for o, op in zip(obs, sc["ops"]) if op[0] == "append" and o.get("acc")]
        o = obs[bidx]
        inner = describe_built(I, sc, o, buf, accepted, sizes)
        if o["codec"]:
            # the same records without compression, same implementation
            _, twin, _ = run_encoder(I, sc, codec=0)
            o["inner_eq"] = inner == (twin[61:] if sc["magic"] == 2 else twin)
        else:
            o["inner_eq"] = True
        inners[name], bufs[name] = inner, buf
        crc = impls["py" if (name == "cy" and len(buf) < 2048) else "cy"].crc32c
        single = sc["magic"] == 2 or o["codec"]
        klen = 0 if single or accepted[0]["key"] is None else len(accepted[0]["key"])
        wires[name] = (apply_post(sc, buf, len(accepted), sizes, crc),
                       len(buf) if single else sizes[0], klen)
    if has_build:
        row["same"] = {"bytes_eq": bufs["cy"] == bufs["py"], "inner_eq": inners["cy"] == inners["py"]}
        for e, (wire, first_len, klen) in wires.items():
            for dn, D in impls.items():
                d = decode_all(D, wire)
                d["batches"] = [{k: v for k, v in x.items() if k != "crc"} for x in d["batches"]]
                d["e"], d["d"] = e, dn
                d["flip"] = flip_rejected(D, wire, first_len, klen, rng)
                row["dec"].append(d)
    return row


# ---------------------------------------------------------------------------
# one "split" row: a concatenation through one splitter


def run_split_case(sc, rng):
    impls = load_impls()
    builds, bufs = [], []
    for p in sc["builds"]:
        I = impls[p["enc"]]
        bsc = {"magic": p["magic"], "codec": p["codec"], "txnl": 0, "pid": -1, "epoch": -1, "seq": -1,
               "limit": 1_000_000_000, "ops": [("append", r) for r in p["recs"]] + [("build",)]}
        obs, buf, accepted = run_encoder(I, bsc)
        codecbits = (buf[22] & 7) if p["magic"] == 2 else (buf[17] & 7)
        builds.append({"magic": p["magic"], "codec": p["codec"], "txnl": 0, "enc": p["enc"],
                       "recs": [r["desc"] for r in p["recs"]], "lens": [len(buf)], "codecbits": codecbits})
        bufs.append(buf)
    tail, cut_of = b"", 0
    if sc.get("cut"):
        last = bufs.pop()
        cdesc = builds.pop()
        # the cut batch must be a single slice (v2, compressed, or one legacy record)
        cut_of = len(last)
        k = sc["cut"](cut_of, rng)
        tail = last[:k]
        del cdesc
    wire = b"".join(bufs) + tail
    D = impls[sc["dec"]]
    d = decode_all(D, wire)
    got = {"err": d["err"], "has_next_end": d["has_next_end"], "next_none": d["next_none"],
           "size_in_bytes": d["size_in_bytes"],
           "batches": [{"magic": x["magic"], "recs": x["recs"], "crc": x["crc"]} for x in d["batches"]]}
    return {"kind": "split", "dec": sc["dec"], "builds": builds, "cut": len(tail), "cutOf": cut_of,
            "got": got}
