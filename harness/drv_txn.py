"""Drives the REAL transactional AIOKafkaProducer on the simulated cluster and records a
trace for Trace_Txn.tla (C07, C16).

Scenario (JSON-able):
  seed, nparts, nnodes, tid,
  program: list of steps, executed in order by the main task of the current instance
     ["begin"] ["send", p, n] ["send_bg", p, n] (a concurrent task sending n records)
     ["send_offsets", {"tp": off}] ["commit"] ["abort"]
     ["ctx", [steps...], raise: bool]       (async with producer.transaction())
     ["sleep", t] ["kill"] (process death; the following steps run on a NEW instance, same tid)
  faults {budget, p, apis, codes_by_api, kinds, slow, script}, auth: topics that answer
  TOPIC_AUTHORIZATION_FAILED to AddPartitionsToTxn ("u" is the second topic),
  coord_move [t, node]
"""
from __future__ import annotations

import asyncio
import random

from . import observe, simcluster, simgroup, simloop, simnet, simtxn
from .drv_producer import FaultDirector
from .simloop import OWNER

TOPICS = ("t", "u")
GROUP = "g"
REQUEST_MS = 2000
BACKOFF_MS = 50

ALPHABET = {"Config", "Call", "Return", "TState", "Append", "Done", "Fail", "BrokerApply", "BrokerReject", "BrokerDup",
            "InitPidReply", "AddPartitionsReply", "AddOffsetsReply", "TxnOffsetCommitReply", "EndTxnReply",
            "TxnPrepare", "WriteMarker", "GroupMarker", "TxnComplete", "Fault", "Resolved", "Killed", "NewInstance",
            "End", "Hang", "Crash", "CoordinatorMoves", "ClientSend", "AbortableError", "NodeDown", "LeaderMoves"}

TXN_CODES = {"InitProducerId": [14, 15, 16, 51], "AddPartitionsToTxn": [14, 15, 16, 51, 3],
             "AddOffsetsToTxn": [14, 15, 16, 51], "TxnOffsetCommit": [14, 15, 16, 3], "EndTxn": [14, 15, 16, 51],
             "FindCoordinator": [15], "Produce": [6, 5, 3, 7, 19]}


def run_scenario(sc: dict):
    from aiokafka import AIOKafkaProducer
    from aiokafka.client import AIOKafkaClient
    from aiokafka.producer.message_accumulator import MessageBatch
    from aiokafka.producer.transaction_manager import TransactionManager
    from aiokafka.structs import TopicPartition

    seed = sc["seed"]
    rng = random.Random(seed)
    log = observe.EventLog()
    director = FaultDirector(rng, sc.get("faults", {}))
    cl = simcluster.Cluster(log, nodes=tuple(range(sc["nnodes"])), director=director, rng=rng)
    for t in TOPICS:
        cl.add_topic(t, [rng.randrange(sc["nnodes"]) for _ in range(sc["nparts"])])
    gsim = simgroup.GroupCoordinatorSim(cl)
    tsim = simtxn.TxnCoordinatorSim(cl, marker_delay=sc.get("marker_delay", 0.004))
    # a scripted INVALID_PRODUCER_EPOCH is a REAL fencing: the coordinator bumps the epoch right before the
    # chosen request is handled, which then fails on its own (as will every later one)
    fence_at = [(s_[0], s_[1]) for s_ in director.script if len(s_) > 3 and s_[3] == 47]
    director.script = [s_ for s_ in director.script if not (len(s_) > 3 and s_[3] == 47)]
    if fence_at:
        orig_plan = director.plan

        def plan(cluster, ctx):
            p = orig_plan(cluster, ctx)
            if (ctx.api, director.count[ctx.api]) in fence_at:
                tsim.fence(sc["tid"])
            return p

        director.plan = plan
    # errors scripted for the n-th FindCoordinator of the GROUP kind only (the transaction coordinator lookups do not count)
    grp = [(s_[1], s_[3]) for s_ in director.script if s_[0] == "FindCoordinator:group"]
    director.script = [s_ for s_ in director.script if s_[0] != "FindCoordinator:group"]
    if grp:
        orig_plan2 = director.plan
        gcount = [0]

        def plan2(cluster, ctx):
            p = orig_plan2(cluster, ctx)
            if ctx.api == "FindCoordinator" and getattr(ctx.req, "coordinator_type", 0) == 0:
                gcount[0] += 1
                for nth, code in grp:
                    if nth == gcount[0]:
                        p.fault, p.code = "error", code
            return p

        director.plan = plan2
    unauth = set(sc.get("auth", []))
    if unauth:
        orig = tsim.h_AddPartitionsToTxn

        def add_parts(ctx):
            req = ctx.req
            if any(t in unauth for t, _ in req.topics):
                # Kafka: the unauthorized topic gets TOPIC_AUTHORIZATION_FAILED, the others OPERATION_NOT_ATTEMPTED
                R = ctx.cls.RESPONSE_TYPE
                errs = [(t, [(p, 29 if t in unauth else 55) for p in ps]) for t, ps in req.topics]
                log.emit("AddPartitionsReply", tid=req.transactional_id, code=29,
                         tps=[f"{t}-{p}" for t, ps in req.topics for p in ps], epoch=req.producer_epoch,
                         node=ctx.node, client=ctx.client_id)
                return R(throttle_time_ms=0, errors=errs)
            return orig(ctx)

        cl.handlers["AddPartitionsToTxn"] = add_parts
        # ... and the leaders refuse writes to it (TOPIC_AUTHORIZATION_FAILED)
        orig_append = cl.append

        def append(ctx, topic, p, data, txn_id=None):
            if topic in unauth:
                log.emit("BrokerReject", code=29, node=ctx.node, tp=f"{topic}-{p}", req=ctx.no, acks=ctx.req.required_acks)
                return 29, -1, -1, -1
            return orig_append(ctx, topic, p, data, txn_id)

        cl.append = append
    net = simnet.SimNet(cl)
    tpn = lambda tp: f"{tp.topic}-{tp.partition}"  # noqa: E731
    info = {"hang": None, "exc": None}
    bno, keep = {}, []
    state = {"inst": 0, "txn": 0, "k": 0}

    def bnum(b):
        if id(b) not in bno:
            bno[id(b)] = len(bno) + 1
            keep.append(b)
        return bno[id(b)]

    def who():
        return OWNER.get() or "?"

    W = observe.Wrappers()

    def after_append(self_, a, kw, r, ex):
        if ex is None and r is not None:
            value = a[1] if len(a) > 1 else kw.get("value")
            log.emit("Append", i=who(), b=bnum(self_), tp=tpn(self_._tp), rid=bytes(value).decode())

    W.wrap(MessageBatch, "append", after=after_append)
    W.wrap(MessageBatch, "done", before=lambda s, a, k: log.emit("Done", i=who(), b=bnum(s)))
    W.wrap(MessageBatch, "done_noack", before=lambda s, a, k: log.emit("Done", i=who(), b=bnum(s)))
    W.wrap(MessageBatch, "failure",
           before=lambda s, a, k: log.emit("Fail", i=who(), b=bnum(s), err=type(a[0] if a else k.get("exception")).__name__))
    W.wrap(TransactionManager, "error_transaction",
           before=lambda s, a, k: log.emit("AbortableError", i=who(), err=type(a[0] if a else k.get("exc")).__name__))
    W.wrap(TransactionManager, "_transition_to",
           after=lambda s, a, k, r, e: log.emit("TState", i=who(), to=a[0].name, ok=e is None))

    SENT = ("ProduceRequest", "AddPartitionsToTxnRequest", "AddOffsetsToTxnRequest", "TxnOffsetCommitRequest",
            "EndTxnRequest", "InitProducerIdRequest")

    def before_send(self_, a, kw):
        req = a[1] if len(a) > 1 else kw.get("request")
        api = type(req).__name__.split("_")[0]
        if api in SENT:
            log.emit("ClientSend", i=who(), api=api)

    W.wrap(AIOKafkaClient, "send", before=before_send)

    async def main(loop):
        OWNER.set("driver")
        state["loop"] = loop
        log.emit("Config", tid=sc["tid"], parts=[f"{t}-{p}" for t in TOPICS for p in range(sc["nparts"])],
                 unauth=sorted(unauth), request_ms=REQUEST_MS, strict=bool(sc.get("strict", False)))
        if sc.get("node_down"):
            # the node hosting the transaction coordinator dies for good; its roles (coordinators, partition leaders) move
            # to a surviving node, as a real cluster would do
            def node_down():
                dead = cl.coordinator_for(1, sc["tid"])
                alive = [n for n in cl.nodes if n != dead and cl.nodes[n].up]
                if not alive:
                    return
                to = alive[0]
                cl.kill_node(dead)
                cl.move_coordinator(1, sc["tid"], to)
                if cl.coordinator_for(0, GROUP) == dead:
                    cl.move_coordinator(0, GROUP, to)
                for (t_, p_), pl in cl.parts.items():
                    if pl.leader == dead:
                        cl.move_leader(t_, p_, to)
            loop.call_later(sc["node_down"], node_down, context=cl.ctx)
        if sc.get("coord_move"):
            t, node = sc["coord_move"]
            loop.call_later(t, lambda: cl.move_coordinator(1, sc["tid"], node), context=cl.ctx)

        async def new_instance():
            state["inst"] += 1
            name = f"i{state['inst']}"
            OWNER.set(name)
            prod = AIOKafkaProducer(bootstrap_servers="broker0:9092", transactional_id=sc["tid"], client_id=name,
                                    request_timeout_ms=REQUEST_MS, retry_backoff_ms=BACKOFF_MS,
                                    transaction_timeout_ms=60000, linger_ms=sc.get("linger_ms", 0),
                                    metadata_max_age_ms=4000)
            log.emit("NewInstance", i=name)
            try:
                await asyncio.wait_for(prod.start(), timeout=30)
            except BaseException as e:  # noqa: BLE001
                log.emit("Return", i=name, op="start", cid=0, ok=False, err=type(e).__name__)
                return name, None
            log.emit("Return", i=name, op="start", cid=0, ok=True, err="")
            return name, prod

        futs = []
        bg = []

        async def call(name, op, coro_fn, **kw):
            state["cid"] = cid = state.get("cid", 0) + 1
            log.emit("Call", i=name, op=op, cid=cid, **kw)
            try:
                r = await asyncio.wait_for(coro_fn(), timeout=sc.get("call_timeout", 25))
                log.emit("Return", i=name, op=op, cid=cid, ok=True, err="")
                return r
            except asyncio.TimeoutError:
                log.emit("Return", i=name, op=op, cid=cid, ok=False, err="CallTimeout")
            except BaseException as e:  # noqa: BLE001
                if isinstance(e, asyncio.CancelledError):
                    raise
                log.emit("Return", i=name, op=op, cid=cid, ok=False, err=type(e).__name__)
            return None

        def track(name, rid, fut):
            def cb(f):
                if f.cancelled():
                    log.emit("Resolved", i=name, rid=rid, k="cancelled")
                elif f.exception() is not None:
                    log.emit("Resolved", i=name, rid=rid, k="err", err=type(f.exception()).__name__)
                else:
                    log.emit("Resolved", i=name, rid=rid, k="ok")
            fut.add_done_callback(cb)

        async def send_n(name, prod, topic, p, n):
            for _ in range(n):
                state["k"] += 1
                rid = f"x{state['txn']}.{state['k']}"
                fut = await call(name, "send", lambda: prod.send(topic, rid.encode(), partition=p), rid=rid,
                                 tp=f"{topic}-{p}", txn=state["txn"])
                if fut is not None:
                    track(name, rid, fut)
                    futs.append(fut)

        async def run_steps(name, prod, steps):
            for st in steps:
                op = st[0]
                if op == "begin":
                    state["txn"] += 1
                    await call(name, "begin", prod.begin_transaction, txn=state["txn"])
                elif op == "send":
                    topic = st[3] if len(st) > 3 else "t"
                    await send_n(name, prod, topic, st[1], st[2])
                elif op == "send_bg":
                    topic = st[3] if len(st) > 3 else "t"
                    bg.append(asyncio.ensure_future(send_n(name, prod, topic, st[1], st[2])))
                elif op == "send_offsets":
                    # offsets are made distinguishable per transaction
                    vals = {k: v + 1000 * state["txn"] for k, v in st[1].items()}
                    offs = {TopicPartition(k.rsplit("-", 1)[0], int(k.rsplit("-", 1)[1])): v for k, v in vals.items()}
                    await call(name, "send_offsets", lambda: prod.send_offsets_to_transaction(offs, GROUP), offsets=vals)
                elif op == "commit":
                    if bg:
                        await asyncio.gather(*bg, return_exceptions=True)
                        bg.clear()
                    await call(name, "commit", prod.commit_transaction)
                elif op == "abort":
                    if bg:
                        await asyncio.gather(*bg, return_exceptions=True)
                        bg.clear()
                    await call(name, "abort", prod.abort_transaction)
                elif op == "ctx":
                    state["txn"] += 1
                    state["cid"] = c1 = state.get("cid", 0) + 1
                    state["cid"] = c2 = c1 + 1
                    log.emit("Call", i=name, op="ctx_enter", cid=c1, txn=state["txn"])
                    entered = False
                    try:
                        async with prod.transaction():
                            entered = True
                            log.emit("Return", i=name, op="ctx_enter", cid=c1, ok=True, err="")
                            await run_steps(name, prod, st[1])
                            if bg:
                                await asyncio.gather(*bg, return_exceptions=True)
                                bg.clear()
                            log.emit("Call", i=name, op="ctx_exit_exc" if st[2] else "ctx_exit_ok", cid=c2)
                            if st[2]:
                                raise KeyError("application error")
                        log.emit("Return", i=name, op="ctx_exit_ok", cid=c2, ok=True, err="")
                    except KeyError:
                        log.emit("Return", i=name, op="ctx_exit_exc", cid=c2, ok=True, err="")
                    except BaseException as e:  # noqa: BLE001
                        if isinstance(e, asyncio.CancelledError):
                            raise
                        if entered:
                            log.emit("Return", i=name, op="ctx_exit", cid=c2, ok=False, err=type(e).__name__)
                        else:
                            log.emit("Return", i=name, op="ctx_enter", cid=c1, ok=False, err=type(e).__name__)
                elif op in ("exit_ok", "exit_exc"):
                    # TransactionContext.__aexit__ called as the interpreter would on leaving `async with`
                    tc = prod.transaction()
                    if op == "exit_ok":
                        await call(name, "ctx_exit_ok", lambda: tc.__aexit__(None, None, None))
                    else:
                        err = KeyError("application error")
                        await call(name, "ctx_exit_exc", lambda: tc.__aexit__(KeyError, err, None))
                elif op == "sleep":
                    await asyncio.sleep(st[1])
                elif op == "kill":
                    return "kill"
            return "end"

        steps = list(sc["program"])
        prods = []
        while True:
            name, prod = await new_instance()
            if prod is None:
                break
            prods.append((name, prod))
            seg, rest = steps, []
            if ["kill"] in steps:
                k = steps.index(["kill"])
                seg, rest = steps[:k + 1], steps[k + 1:]
            task = asyncio.ensure_future(run_steps(name, prod, seg))
            OWNER.set("driver")
            fin = loop.create_future()
            task.add_done_callback(lambda t_, fin=fin: fin.done() or fin.set_result("done"))
            if sc.get("kill_at") is not None and len(prods) == 1:
                # process death at an arbitrary instant (mid-call, mid-request), not only between calls
                def die(name=name, task=task, fin=fin):
                    if not task.done() and not fin.done():
                        log.emit("Killed", i=name)
                        loop.kill(name, freeze=True)
                        fin.set_result("killed")
                loop.call_later(sc["kill_at"], die, context=cl.ctx)
            res = await fin
            if res == "killed":
                rest = list(sc.get("after_kill", []))
            else:
                res = task.result()
            if res == "kill":
                log.emit("Killed", i=name)
                loop.kill(name, freeze=True)
            if res in ("kill", "killed"):
                bg.clear()
                OWNER.set("driver")
                steps = rest
                if not steps:
                    # a replacement instance always comes up (it fences the dead one)
                    steps = [["sleep", 0.05]]
                continue
            break
        # quiet period, then the final read-committed view is what the spec computes from the logs
        director.budget = 0
        await asyncio.sleep(REQUEST_MS / 1000 * 2 + 1.0)
        g = gsim.group(GROUP)
        log.emit("End", goffsets={f"{t}-{p}": o for (t, p), (o, _m) in g.offsets.items()},
                 lso={f"{t}-{p}": pl.lso for (t, p), pl in cl.parts.items()},
                 leo={f"{t}-{p}": pl.leo for (t, p), pl in cl.parts.items()})
        for name, prod in prods[-1:]:
            OWNER.set(name)
            try:
                await asyncio.wait_for(prod.stop(), timeout=20)
            except BaseException:  # noqa: BLE001
                pass
        OWNER.set("driver")

    try:
        with W:
            simloop.run(main, seed=seed, net=net, horizon=sc.get("horizon", 900))
    except simloop.Stuck as e:
        info["hang"] = str(e)
        log.emit("Hang", why=str(e)[:80])
    except Exception as e:  # noqa: BLE001
        import traceback
        info["exc"] = traceback.format_exc()[-1500:]
        log.emit("Crash", err=type(e).__name__, msg=str(e)[:120])
    # the coroutines of a killed (frozen) instance are disposed of HERE, with the wrappers off: left to
    # the garbage collector their finally blocks / __aexit__ would run inside some later scenario
    nlog = len(log.events)
    lp = state.get("loop")
    if lp is not None and lp.dead_owners:
        import gc
        import sys
        hook, sys.unraisablehook = sys.unraisablehook, lambda *a: None
        for _o, t in lp.tasks_by_owner:
            if not t.done():
                try:
                    t.get_coro().close()
                except BaseException:  # noqa: BLE001
                    pass
        lp.tasks_by_owner = []
        gc.collect()
        sys.unraisablehook = hook
    out = []
    for ev in log.events[:nlog]:
        if ev["e"] not in ALPHABET:
            continue
        if out and out[-1]["e"] == "End":
            break
        ev = dict(ev)
        if "i" not in ev:
            ev["i"] = ev.get("client", "")
        if "seq" in ev:
            ev.pop("seq")
        out.append(ev)
    return out, info
