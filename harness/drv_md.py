"""Drives the REAL AIOKafkaClient's metadata synchroniser on the simulated cluster and records a trace
for Trace_MetadataSync.tla (spec extension beyond the listed properties; see DESIGN.md 9.6).

Scenario: seed, max_age (s), delay (s, metadata reply latency), program: [[t, "force"] | [t, "add", topic] |
[t, "set", [topics]]] issued by distinct callers c1..cN at virtual time t after bootstrap."""
from __future__ import annotations

import asyncio
import random

from . import observe, simcluster, simloop, simnet
from .drv_producer import FaultDirector
from .simloop import OWNER


def run_scenario(sc: dict):
    from aiokafka.client import AIOKafkaClient

    rng = random.Random(sc["seed"])
    log = observe.EventLog()
    director = FaultDirector(rng, {"budget": 0, "slow": sc.get("delay", 0.03)})
    cl = simcluster.Cluster(log, nodes=(0, 1), director=director, rng=rng)
    for t in ("t", "u", "w"):
        cl.add_topic(t, [rng.randrange(2), rng.randrange(2)])
    net = simnet.SimNet(cl)
    info = {"hang": None, "exc": None}
    st = {"caller": "int", "client": None}
    ev = []

    def snap():
        c = st["client"]
        return dict(waiter=bool(c._md_update_waiter.done()), fut=c._md_update_fut is not None, topics=sorted(c._topics))

    W = observe.Wrappers()
    depth = [0]

    def before_force(s, a, k):
        depth[0] += 1

    def after_force(s, a, k, r, e):
        depth[0] -= 1
        if depth[0] == 0 and st.get("direct") == "force":
            ev.append(dict(e="Force", c=st["caller"], **snap()))
        elif depth[0] == 0 and st.get("direct") is None:
            ev.append(dict(e="Force", c="int", **snap()))

    W.wrap(AIOKafkaClient, "force_metadata_update", before=before_force, after=after_force)

    def wrap_api(name, evname, argname):
        def before(s, a, k):
            st["direct"] = name
            depth[0] += 1

        def after(s, a, k, r, e):
            depth[0] -= 1
            st["direct"] = "force" if False else None
            arg = a[0]
            ev.append(dict(e=evname, c=st["caller"], **{argname: (arg if isinstance(arg, str) else sorted(arg))}, **snap()))
        W.wrap(AIOKafkaClient, name, before=before, after=after)
    wrap_api("add_topic", "AddTopic", "t")
    wrap_api("set_topics", "SetTopics", "T")

    def before_update(s, a, k):
        c = st["client"]
        if c is None or a[0] is not c.cluster:
            return
        ev.append(dict(e="UpdateStart", how="force" if c._md_update_waiter.done() else "tick",
                       asked=sorted(a[1]) if a[1] else [], **snap()))

    def after_update(s, a, k, r, e):
        c = st["client"]
        if c is None or a[0] is not c.cluster:
            return
        st["loop"].call_soon(lambda: ev.append(dict(e="UpdateEnd", **snap())))

    W.wrap_async(AIOKafkaClient, "_metadata_update", before=before_update, after=after_update)

    async def main(loop):
        st["loop"] = loop
        OWNER.set("c")
        c = AIOKafkaClient(bootstrap_servers="broker0:9092", metadata_max_age_ms=int(sc["max_age"] * 1000),
                           request_timeout_ms=2000)
        await c.bootstrap()
        st["client"] = c
        # the trace starts from a quiescent synchroniser tracking nothing
        await asyncio.sleep(0.001)
        del ev[:]
        ev.append(dict(e="Config", max_age_ms=int(sc["max_age"] * 1000)))
        t0 = loop.time()
        pending = {}

        def call(i, step):
            name = f"c{i + 1}"
            st["caller"] = name
            if step[1] == "force":
                st["direct"] = "force"
                f = c.force_metadata_update()
                st["direct"] = None
            elif step[1] == "add":
                f = c.add_topic(step[2])
            else:
                f = c.set_topics(step[2])
            st["caller"] = "int"
            if not f.done():
                pending[name] = f
                f.add_done_callback(lambda _f, name=name: (pending.pop(name, None), ev.append(dict(e="Resolved", c=name))))
        for i, step in enumerate(sc["program"]):
            loop.call_at(t0 + step[0], call, i, step)
        await asyncio.sleep(sc.get("duration", 3.0))
        ev.append(dict(e="End", pending=sorted(pending)))
        await c.close()

    try:
        with W:
            simloop.run(main, seed=sc["seed"], net=net, horizon=200)
    except simloop.Stuck as e:
        info["hang"] = str(e)
        ev.append(dict(e="Hang"))
    except Exception:  # noqa: BLE001
        import traceback
        info["exc"] = traceback.format_exc()[-1200:]
        ev.append(dict(e="Crash"))
    k = next((i for i, e in enumerate(ev) if e["e"] == "End"), None)
    if k is not None:
        ev = ev[:k + 1]            # (an update round still in flight at the end reports after close())
    return ev, info
