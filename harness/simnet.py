"""In-memory network for the virtual-time loop.

`loop.create_connection(factory, host, port)` returns a `SimTransport` bound to
the simulated broker listening on (host, port).  Every frame the client writes
is handed to the cluster; every byte the cluster sends back is delivered through
`protocol.data_received` by a scheduled loop callback, so all network activity
is ordered by the deterministic loop."""
from __future__ import annotations

import asyncio
import struct


class SimTransport(asyncio.Transport):
    _ids = 0

    def __init__(self, loop, net, protocol, node, owner):
        super().__init__()
        SimTransport._ids += 1
        self.id = SimTransport._ids
        self.loop, self.net, self.protocol, self.node, self.owner = loop, net, protocol, node, owner
        self.closing = False          # client called close()
        self.lost = False             # connection_lost delivered
        self.server_open = True
        self.rx = bytearray()         # bytes written by the client, not yet framed
        self.client_addr = ("client", 40000 + self.id)
        self.dead = False             # owner process was killed: nothing goes in or out any more

    # ---- client side API (asyncio.Transport) ----------------------------------
    def get_extra_info(self, name, default=None):
        if name == "peername":
            return (self.node.host, self.node.port)
        if name == "sockname":
            return self.client_addr
        return default

    def is_closing(self):
        return self.closing or self.lost

    def write(self, data):
        if self.closing or self.lost or self.dead:
            return
        if not self.server_open:
            # peer is gone: asyncio would report on a later read; deliver loss
            self._lose(ConnectionResetError("peer closed"))
            return
        self.rx += data
        while len(self.rx) >= 4:
            (n,) = struct.unpack_from(">i", self.rx, 0)
            if len(self.rx) < 4 + n:
                break
            frame = bytes(self.rx[4:4 + n])
            del self.rx[:4 + n]
            self.net.cluster.on_frame(self, frame)

    def writelines(self, lines):
        self.write(b"".join(lines))

    def can_write_eof(self):
        return False

    def get_write_buffer_size(self):
        return 0

    def get_write_buffer_limits(self):
        return (0, 0)

    def set_write_buffer_limits(self, high=None, low=None):
        pass

    def pause_reading(self):
        pass

    def resume_reading(self):
        pass

    def is_reading(self):
        return True

    def close(self):
        if self.closing or self.lost:
            return
        self.closing = True
        if self.dead:
            self.loop.call_soon(self._connection_lost, None)
            return          # a dead process sends no FIN the broker could react to in time
        self.server_open = False
        self.net.cluster.on_client_close(self)
        self.loop.call_soon(self._connection_lost, None)

    def abort(self):
        self.close()

    def _connection_lost(self, exc):
        if self.lost:
            return
        self.lost = True
        self.net.live.discard(self)
        self.protocol.connection_lost(exc)

    # ---- server side ------------------------------------------------------------
    def deliver(self, data: bytes):
        """bytes from the broker arrive at the client (call from a loop callback)"""
        if self.closing or self.lost or self.dead:
            return
        self.protocol.data_received(data)

    def server_close(self, exc=None):
        """broker drops the connection (EOF if exc is None, reset otherwise)"""
        if self.closing or self.lost:
            self.server_open = False
            return
        self.server_open = False
        if exc is None:
            keep = self.protocol.eof_received()
            if keep:
                # StreamReaderProtocol keeps the transport open on EOF for
                # non-SSL transports; the reader sees EOF and the client
                # closes the transport itself
                return
            self._lose(None)
        else:
            self._lose(exc)

    def _lose(self, exc):
        if not self.lost:
            self.closing = True
            self.loop.call_soon(self._connection_lost, exc)


class SimNet:
    def __init__(self, cluster):
        self.cluster = cluster
        self.loop = None
        self.live = set()
        self.connect_delay = 0.0005

    def attach(self, loop):
        self.loop = loop
        self.cluster.attach(loop, self)

    async def create_connection(self, loop, protocol_factory, host, port, **kw):
        node = self.cluster.node_at(host, port)
        from .simloop import OWNER
        owner = OWNER.get() if OWNER.get() is not None else loop.owner
        verdict = self.cluster.on_connect(node, host, port)
        await asyncio.sleep(self.connect_delay)
        if verdict == "refuse" or node is None:
            raise ConnectionRefusedError(f"simnet: {host}:{port} refused")
        if verdict == "hang":
            await loop.create_future()    # until cancelled by the caller's timeout
        protocol = protocol_factory()
        tr = SimTransport(loop, self, protocol, node, owner)
        self.live.add(tr)
        protocol.connection_made(tr)
        self.cluster.on_accept(tr)
        return tr, protocol

    def open_transports(self, owner=None):
        return [t for t in self.live if not t.lost and (owner is None or t.owner == owner)]
