"""Group coordinator of the simulated cluster (offsets store + membership).

Attached to a Cluster with `GroupCoordinatorSim(cluster)`; handles OffsetFetch,
OffsetCommit, JoinGroup, SyncGroup, Heartbeat, LeaveGroup for the node that is
the coordinator of the group (others answer NOT_COORDINATOR).  Written from
Kafka's GroupCoordinator state machine (Empty / PreparingRebalance /
CompletingRebalance / Stable); mirrored by the environment actions of
spec/GroupMembership.tla."""
from __future__ import annotations

from . import simcluster as sc
from .simcluster import DEFER


class Member:
    def __init__(self, mid, protocols, session_timeout, rebalance_timeout, instance_id=None):
        self.id = mid
        self.protocols = protocols           # [(name, metadata bytes)]
        self.session_timeout = session_timeout
        self.rebalance_timeout = rebalance_timeout
        self.instance_id = instance_id
        self.join_ctx = None                 # pending JoinGroup request context
        self.sync_ctx = None                 # pending SyncGroup request context
        self.assignment = b""
        self.deadline = 0.0
        self.timer = None


class Group:
    def __init__(self, gid):
        self.id = gid
        self.state = "Empty"
        self.generation = 0
        self.members: dict[str, Member] = {}
        self.pending_ids = set()             # MEMBER_ID_REQUIRED handed out, not yet joined
        self.leader = None
        self.protocol = None
        self.offsets = {}                    # (topic, p) -> (offset, metadata)
        self.join_timer = None
        self.next_member = 0


class GroupCoordinatorSim:
    def __init__(self, cluster, *, initial_delay=0.0):
        self.c = cluster
        self.groups: dict[str, Group] = {}
        self.initial_delay = initial_delay
        self.loading = False                 # COORDINATOR_LOAD_IN_PROGRESS window
        cluster.groups = self
        for api in ("OffsetFetch", "OffsetCommit", "JoinGroup", "SyncGroup", "Heartbeat", "LeaveGroup"):
            cluster.handlers[api] = getattr(self, "h_" + api)
            cluster.handlers["error:" + api] = getattr(self, "e_" + api)

    # ---- helpers ----------------------------------------------------------------------
    def group(self, gid):
        if gid not in self.groups:
            self.groups[gid] = Group(gid)
        return self.groups[gid]

    def is_coordinator(self, ctx, gid):
        return self.c.coordinator_for(0, gid) == ctx.node

    @property
    def log(self):
        return self.c.log

    def now(self):
        return self.c.loop.time()

    # ---- offsets -----------------------------------------------------------------------------
    def h_OffsetFetch(self, ctx):
        R = ctx.cls.RESPONSE_TYPE
        req, v = ctx.req, ctx.v
        gid = req.consumer_group
        g = self.group(gid)
        code = 0
        if not self.is_coordinator(ctx, gid):
            code = sc.NOT_COORDINATOR
        elif self.loading:
            code = sc.COORDINATOR_LOAD_IN_PROGRESS
        topics, seen = [], {}
        for topic, parts in (req.topics or []):
            ps = []
            for p in parts:
                off, meta = g.offsets.get((topic, p), (-1, "")) if code == 0 else (-1, "")
                seen[f"{topic}-{p}"] = off
                ps.append((p, off, meta, code))
            topics.append((topic, ps))
        self.log.emit("OffsetFetchReply", node=ctx.node, group=gid, code=code, offsets=seen, req=ctx.no, client=ctx.client_id)
        if v < 2:
            return R(topics=topics)
        if v == 2:
            return R(topics=topics, error_code=code)
        return R(throttle_time_ms=0, topics=topics, error_code=code)

    def e_OffsetFetch(self, ctx, code):
        R = ctx.cls.RESPONSE_TYPE
        req, v = ctx.req, ctx.v
        topics = [(t, [(p, -1, "", code) for p in ps]) for t, ps in (req.topics or [])]
        self.log.emit("OffsetFetchReply", node=ctx.node, group=req.consumer_group, code=code, offsets={}, req=ctx.no,
                      client=ctx.client_id)
        if v < 2:
            return R(topics=topics)
        if v == 2:
            return R(topics=topics, error_code=code)
        return R(throttle_time_ms=0, topics=topics, error_code=code)

    def h_OffsetCommit(self, ctx):
        R = ctx.cls.RESPONSE_TYPE
        req, v = ctx.req, ctx.v
        gid = req.consumer_group
        g = self.group(gid)
        gen = getattr(req, "consumer_group_generation_id", -1)
        mid = getattr(req, "consumer_id", "")
        code = 0
        if not self.is_coordinator(ctx, gid):
            code = sc.NOT_COORDINATOR
        elif self.loading:
            code = sc.COORDINATOR_LOAD_IN_PROGRESS
        elif gen < 0 and mid == "":
            code = 0 if g.state == "Empty" else sc.UNKNOWN_MEMBER_ID
        elif mid not in g.members:
            code = sc.UNKNOWN_MEMBER_ID
        elif gen != g.generation:
            code = sc.ILLEGAL_GENERATION
        elif g.state == "CompletingRebalance":
            code = sc.REBALANCE_IN_PROGRESS
        offs = {}
        for topic, parts in req.topics:
            for pi in parts:
                p, off, meta = pi[0], pi[1], pi[-1]
                offs[f"{topic}-{p}"] = off
                if code == 0:
                    g.offsets[(topic, p)] = (off, meta)
        if code == 0 and mid in g.members:
            self._touch(g, g.members[mid])
        self.log.emit("OffsetCommitReply", node=ctx.node, group=gid, member=mid, gen=gen, code=code, offsets=offs,
                      req=ctx.no, state=g.state, ggen=g.generation, client=ctx.client_id)
        topics = [(t, [(pi[0], code) for pi in ps]) for t, ps in req.topics]
        return R(topics=topics) if v < 3 else R(throttle_time_ms=0, topics=topics)

    def e_OffsetCommit(self, ctx, code):
        R = ctx.cls.RESPONSE_TYPE
        req, v = ctx.req, ctx.v
        offs = {f"{t}-{pi[0]}": pi[1] for t, ps in req.topics for pi in ps}
        self.log.emit("OffsetCommitReply", node=ctx.node, group=req.consumer_group,
                      member=getattr(req, "consumer_id", ""), gen=getattr(req, "consumer_group_generation_id", -1),
                      code=code, offsets=offs, req=ctx.no, state="", ggen=-1, client=ctx.client_id)
        topics = [(t, [(pi[0], code) for pi in ps]) for t, ps in req.topics]
        return R(topics=topics) if v < 3 else R(throttle_time_ms=0, topics=topics)

    # ---- membership (Kafka's GroupCoordinator) -------------------------------------------------------
    def _touch(self, g, m):
        """(re)start the member's session timer"""
        m.deadline = self.now() + m.session_timeout / 1000
        if m.timer is not None:
            m.timer.cancel()
        m.timer = self.c.loop.call_at(m.deadline, self._expire, g, m.id, m.deadline)

    def _expire(self, g, mid, deadline):
        m = g.members.get(mid)
        if m is None or m.deadline != deadline:
            return
        if m.join_ctx is not None:       # a member waiting in the join barrier is kept alive
            self._touch(g, m)
            return
        self.log.emit("SessionExpired", group=g.id, member=mid, gen=g.generation)
        self._remove_member(g, mid)

    def _remove_member(self, g, mid):
        m = g.members.pop(mid, None)
        if m is None:
            return
        if m.timer is not None:
            m.timer.cancel()
        if m.sync_ctx is not None:
            self._reply_sync(g, m, sc.UNKNOWN_MEMBER_ID)
        if g.leader == mid:
            g.leader = next(iter(g.members), None)
        if g.state in ("Stable", "CompletingRebalance"):
            self._prepare_rebalance(g)
        elif g.state == "PreparingRebalance":
            self._maybe_complete_join(g)

    def _prepare_rebalance(self, g):
        if g.state == "CompletingRebalance":
            for m in g.members.values():
                if m.sync_ctx is not None:
                    self._reply_sync(g, m, sc.REBALANCE_IN_PROGRESS)
        was_empty = g.state == "Empty"
        g.state = "PreparingRebalance"
        self.log.emit("GroupState", group=g.id, state=g.state, gen=g.generation, members=sorted(g.members))
        if g.join_timer is not None:
            g.join_timer.cancel()
        timeout = max([m.rebalance_timeout for m in g.members.values()] or [0]) / 1000
        if was_empty and self.initial_delay:
            timeout = self.initial_delay
        g.join_timer = self.c.loop.call_later(timeout, self._join_timeout, g)
        g.join_deadline_gen = g.generation

    def _join_timeout(self, g):
        if g.state != "PreparingRebalance":
            return
        # members that did not rejoin within the rebalance timeout are removed
        for mid in [mid for mid, m in g.members.items() if m.join_ctx is None]:
            self.log.emit("RebalanceTimeoutKick", group=g.id, member=mid)
            m = g.members.pop(mid)
            if m.timer is not None:
                m.timer.cancel()
            if g.leader == mid:
                g.leader = None
        self._complete_join(g)

    def _maybe_complete_join(self, g):
        if g.state == "PreparingRebalance" and g.members and all(m.join_ctx is not None for m in g.members.values()):
            self._complete_join(g)
        elif g.state == "PreparingRebalance" and not g.members:
            self._complete_join(g)

    def _complete_join(self, g):
        if g.join_timer is not None:
            g.join_timer.cancel()
            g.join_timer = None
        if not g.members:
            g.generation += 1
            g.state = "Empty"
            g.leader = g.protocol = None
            self.log.emit("GroupState", group=g.id, state=g.state, gen=g.generation, members=[])
            return
        g.generation += 1
        # protocol vote: candidates = protocols every member supports; each member votes for its
        # first supported candidate; most votes wins
        cand = None
        for m in g.members.values():
            names = [n for n, _ in m.protocols]
            cand = set(names) if cand is None else cand & set(names)
        votes = {}
        for m in g.members.values():
            for n, _ in m.protocols:
                if n in cand:
                    votes[n] = votes.get(n, 0) + 1
                    break
        g.protocol = max(sorted(votes), key=lambda n: votes[n])
        if g.leader not in g.members:
            g.leader = next(iter(g.members))
        g.state = "CompletingRebalance"
        self.log.emit("GroupState", group=g.id, state=g.state, gen=g.generation, members=sorted(g.members),
                      leader=g.leader, protocol=g.protocol)
        for m in g.members.values():
            m.assignment = b""
            ctx, m.join_ctx = m.join_ctx, None
            self._touch(g, m)
            self._reply_join(g, m, ctx, 0)

    def _reply_join(self, g, m, ctx, code, member_id=None):
        R = ctx.cls.RESPONSE_TYPE
        v = ctx.v
        members = []
        if code == 0 and m is not None and g.leader == m.id:
            for o in g.members.values():
                md = dict(o.protocols)[g.protocol]
                members.append((o.id, md) if v < 5 else (o.id, o.instance_id, md))
        mid = member_id if member_id is not None else (m.id if m is not None else "")
        self.log.emit("JoinReply", group=g.id, member=mid, code=code, gen=(g.generation if code == 0 else -1),
                      leader=(g.leader or "") if code == 0 else "", protocol=(g.protocol or "") if code == 0 else "",
                      nmembers=len(members), req=ctx.no, node=ctx.node, client=ctx.client_id)
        kw = dict(error_code=code, generation_id=g.generation if code == 0 else -1,
                  group_protocol=(g.protocol or "") if code == 0 else "", leader_id=(g.leader or "") if code == 0 else "",
                  member_id=mid, members=members)
        if v >= 2:
            kw["throttle_time_ms"] = 0
        self.c.reply(ctx, R(**kw))

    def h_JoinGroup(self, ctx):
        req, v = ctx.req, ctx.v
        gid = req.group
        g = self.group(gid)
        protos = [(n, bytes(md)) for n, md in req.group_protocols]
        inst = getattr(req, "group_instance_id", None)
        self.log.emit("JoinRequest", group=gid, member=req.member_id, protocols=[n for n, _ in protos], v=v,
                      node=ctx.node, req=ctx.no, client=ctx.client_id)
        if not self.is_coordinator(ctx, gid):
            self._reply_join(g, None, ctx, sc.NOT_COORDINATOR, member_id=req.member_id)
            return DEFER
        if self.loading:
            self._reply_join(g, None, ctx, sc.COORDINATOR_LOAD_IN_PROGRESS, member_id=req.member_id)
            return DEFER
        mid = req.member_id
        if mid == "":
            g.next_member += 1
            mid = f"{ctx.client_id}-m{g.next_member}"
            if v >= 4:      # KIP-394: the member must rejoin with the id it was given
                g.pending_ids.add(mid)
                self._reply_join(g, None, ctx, sc.MEMBER_ID_REQUIRED, member_id=mid)
                return DEFER
        elif mid in g.pending_ids:
            g.pending_ids.discard(mid)
        elif mid not in g.members:
            self._reply_join(g, None, ctx, sc.UNKNOWN_MEMBER_ID, member_id=mid)
            return DEFER
        # protocol compatibility with the current members
        if g.members:
            common = None
            for o in g.members.values():
                names = {n for n, _ in o.protocols}
                common = names if common is None else common & names
            if not (common & {n for n, _ in protos}) and not (len(g.members) == 1 and mid in g.members):
                self._reply_join(g, None, ctx, sc.INCONSISTENT_GROUP_PROTOCOL, member_id=mid)
                return DEFER
        m = g.members.get(mid)
        if m is None:
            m = Member(mid, protos, req.session_timeout, getattr(req, "rebalance_timeout", req.session_timeout), inst)
            g.members[mid] = m
            if g.leader is None:
                g.leader = mid
            m.join_ctx = ctx
            self._touch(g, m)
            if g.state != "PreparingRebalance":
                self._prepare_rebalance(g)
            self._maybe_complete_join(g)
            return DEFER
        # known member rejoins
        changed = m.protocols != protos
        m.protocols = protos
        m.session_timeout = req.session_timeout
        m.rebalance_timeout = getattr(req, "rebalance_timeout", req.session_timeout)
        if m.join_ctx is not None and m.join_ctx is not ctx:
            pass            # a previous JoinGroup of this member is superseded (its connection is gone)
        if g.state == "PreparingRebalance":
            m.join_ctx = ctx
            self._touch(g, m)
            self._maybe_complete_join(g)
            return DEFER
        if g.state == "CompletingRebalance" and not changed:
            self._touch(g, m)
            self._reply_join(g, m, ctx, 0)       # same generation again
            return DEFER
        if g.state == "Stable" and not changed and g.leader != mid:
            self._touch(g, m)
            self._reply_join(g, m, ctx, 0)       # follower rejoining a stable group: current generation
            return DEFER
        m.join_ctx = ctx
        self._touch(g, m)
        self._prepare_rebalance(g)
        self._maybe_complete_join(g)
        return DEFER

    def e_JoinGroup(self, ctx, code):
        R = ctx.cls.RESPONSE_TYPE
        self.log.emit("JoinRequest", group=ctx.req.group, member=ctx.req.member_id,
                      protocols=[n for n, _ in ctx.req.group_protocols], v=ctx.v, node=ctx.node, req=ctx.no,
                      client=ctx.client_id)
        self.log.emit("JoinReply", group=ctx.req.group, member=ctx.req.member_id, code=code, gen=-1, leader="",
                      protocol="", nmembers=0, req=ctx.no, node=ctx.node, client=ctx.client_id)
        kw = dict(error_code=code, generation_id=-1, group_protocol="", leader_id="", member_id=ctx.req.member_id, members=[])
        if ctx.v >= 2:
            kw["throttle_time_ms"] = 0
        return R(**kw)

    def _reply_sync(self, g, m, code):
        ctx, m.sync_ctx = m.sync_ctx, None
        if ctx is None:
            return
        R = ctx.cls.RESPONSE_TYPE
        self.log.emit("SyncReply", group=g.id, member=m.id, code=code, gen=g.generation, req=ctx.no, node=ctx.node,
                      raw=(m.assignment if code == 0 else b""), client=ctx.client_id)
        kw = dict(error_code=code, member_assignment=m.assignment if code == 0 else b"")
        if ctx.v >= 1:
            kw["throttle_time_ms"] = 0
        self.c.reply(ctx, R(**kw))

    def _sync_error(self, ctx, gid, mid, code, gen):
        R = ctx.cls.RESPONSE_TYPE
        self.log.emit("SyncReply", group=gid, member=mid, code=code, gen=gen, req=ctx.no, node=ctx.node, raw=b"",
                      client=ctx.client_id)
        kw = dict(error_code=code, member_assignment=b"")
        if ctx.v >= 1:
            kw["throttle_time_ms"] = 0
        return R(**kw)

    def h_SyncGroup(self, ctx):
        req = ctx.req
        gid, mid, gen = req.group, req.member_id, req.generation_id
        g = self.group(gid)
        self.log.emit("SyncRequest", group=gid, member=mid, gen=gen, nassign=len(req.group_assignment), node=ctx.node,
                      req=ctx.no, client=ctx.client_id)
        if not self.is_coordinator(ctx, gid):
            return self._sync_error(ctx, gid, mid, sc.NOT_COORDINATOR, gen)
        if mid not in g.members:
            return self._sync_error(ctx, gid, mid, sc.UNKNOWN_MEMBER_ID, gen)
        if gen != g.generation:
            return self._sync_error(ctx, gid, mid, sc.ILLEGAL_GENERATION, gen)
        m = g.members[mid]
        if g.state in ("Empty", "PreparingRebalance"):
            return self._sync_error(ctx, gid, mid, sc.REBALANCE_IN_PROGRESS if g.state != "Empty" else sc.UNKNOWN_MEMBER_ID, gen)
        self._touch(g, m)
        if g.state == "Stable":
            m.sync_ctx = ctx
            self._reply_sync(g, m, 0)
            return DEFER
        # CompletingRebalance
        m.sync_ctx = ctx
        if mid == g.leader:
            asg = {a[0]: bytes(a[1]) for a in req.group_assignment}
            for o in g.members.values():
                o.assignment = asg.get(o.id, b"")
            g.state = "Stable"
            self.log.emit("GroupState", group=g.id, state=g.state, gen=g.generation, members=sorted(g.members),
                          leader=g.leader, protocol=g.protocol)
            for o in list(g.members.values()):
                if o.sync_ctx is not None:
                    self._touch(g, o)
                    self._reply_sync(g, o, 0)
        return DEFER

    def e_SyncGroup(self, ctx, code):
        self.log.emit("SyncRequest", group=ctx.req.group, member=ctx.req.member_id, gen=ctx.req.generation_id,
                      nassign=len(ctx.req.group_assignment), node=ctx.node, req=ctx.no, client=ctx.client_id)
        return self._sync_error(ctx, ctx.req.group, ctx.req.member_id, code, ctx.req.generation_id)

    def _hb_reply(self, ctx, code):
        R = ctx.cls.RESPONSE_TYPE
        req = ctx.req
        self.log.emit("HeartbeatReply", group=req.group, member=req.member_id, gen=req.generation_id, code=code,
                      node=ctx.node, req=ctx.no, client=ctx.client_id)
        return R(error_code=code) if ctx.v < 1 else R(throttle_time_ms=0, error_code=code)

    def h_Heartbeat(self, ctx):
        req = ctx.req
        g = self.group(req.group)
        if not self.is_coordinator(ctx, req.group):
            return self._hb_reply(ctx, sc.NOT_COORDINATOR)
        if self.loading:
            return self._hb_reply(ctx, sc.COORDINATOR_LOAD_IN_PROGRESS)
        m = g.members.get(req.member_id)
        if m is None:
            return self._hb_reply(ctx, sc.UNKNOWN_MEMBER_ID)
        if req.generation_id != g.generation:
            return self._hb_reply(ctx, sc.ILLEGAL_GENERATION)
        if g.state in ("PreparingRebalance", "CompletingRebalance"):
            self._touch(g, m)
            return self._hb_reply(ctx, sc.REBALANCE_IN_PROGRESS)
        self._touch(g, m)
        return self._hb_reply(ctx, 0)

    def e_Heartbeat(self, ctx, code):
        return self._hb_reply(ctx, code)

    def h_LeaveGroup(self, ctx):
        R = ctx.cls.RESPONSE_TYPE
        req = ctx.req
        g = self.group(req.group)
        code = 0
        if not self.is_coordinator(ctx, req.group):
            code = sc.NOT_COORDINATOR
        elif req.member_id not in g.members:
            code = sc.UNKNOWN_MEMBER_ID
        self.log.emit("LeaveGroup", group=req.group, member=req.member_id, code=code, node=ctx.node, req=ctx.no,
                      client=ctx.client_id)
        if code == 0:
            self._remove_member(g, req.member_id)
        return R(error_code=code) if ctx.v < 1 else R(throttle_time_ms=0, error_code=code)

    def e_LeaveGroup(self, ctx, code):
        R = ctx.cls.RESPONSE_TYPE
        self.log.emit("LeaveGroup", group=ctx.req.group, member=ctx.req.member_id, code=code, node=ctx.node, req=ctx.no)
        return R(error_code=code) if ctx.v < 1 else R(throttle_time_ms=0, error_code=code)

    # ---- coordinator fail-over ---------------------------------------------------------------------------
    def failover(self, gid, node_id, *, keep_state=True):
        """the group's coordinator moves to node_id; offsets always survive (they live in
        __consumer_offsets); membership survives only if keep_state"""
        g = self.group(gid)
        self.c.move_coordinator(0, gid, node_id)
        for m in g.members.values():
            if m.timer is not None:
                m.timer.cancel()
            m.join_ctx = m.sync_ctx = None
        if not keep_state:
            g.members.clear()
            g.state, g.leader, g.protocol = "Empty", None, None
            g.generation += 1
            if g.join_timer is not None:
                g.join_timer.cancel()
        else:
            for m in g.members.values():
                self._touch(g, m)
            if g.state in ("PreparingRebalance", "CompletingRebalance"):
                # pending barrier is lost with the old coordinator: members must rejoin
                g.state = "Stable" if g.state == "CompletingRebalance" and False else g.state
                if g.state == "PreparingRebalance":
                    self._prepare_rebalance(g)
        self.log.emit("GroupFailover", group=gid, node=node_id, keep=keep_state, gen=g.generation, state=g.state)
