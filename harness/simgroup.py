"""Group coordinator of the simulated cluster (offsets store + membership).

Attached to a Cluster with `GroupCoordinatorSim(cluster)`; handles OffsetFetch,
OffsetCommit, JoinGroup, SyncGroup, Heartbeat, LeaveGroup for the node that is
the coordinator of the group (others answer NOT_COORDINATOR).  Written from
Kafka's GroupCoordinator state machine (Empty / PreparingRebalance /
CompletingRebalance / Stable); mirrored by the environment actions of
spec/GroupMembership.tla."""
from __future__ import annotations

from . import simcluster as sc
from .simcluster import DEFER


class Member:
    def __init__(self, mid, protocols, session_timeout, rebalance_timeout, instance_id=None):
        self.id = mid
        self.protocols = protocols           # [(name, metadata bytes)]
        self.session_timeout = session_timeout
        self.rebalance_timeout = rebalance_timeout
        self.instance_id = instance_id
        self.join_ctx = None                 # pending JoinGroup request context
        self.sync_ctx = None                 # pending SyncGroup request context
        self.assignment = b""
        self.deadline = 0.0
        self.timer = None


class Group:
    def __init__(self, gid):
        self.id = gid
        self.state = "Empty"
        self.generation = 0
        self.members: dict[str, Member] = {}
        self.pending_ids = set()             # MEMBER_ID_REQUIRED handed out, not yet joined
        self.leader = None
        self.protocol = None
        self.offsets = {}                    # (topic, p) -> (offset, metadata)
        self.join_timer = None
        self.next_member = 0


class GroupCoordinatorSim:
    def __init__(self, cluster, *, initial_delay=0.0):
        self.c = cluster
        self.groups: dict[str, Group] = {}
        self.initial_delay = initial_delay
        self.loading = False                 # COORDINATOR_LOAD_IN_PROGRESS window
        cluster.groups = self
        for api in ("OffsetFetch", "OffsetCommit", "JoinGroup", "SyncGroup", "Heartbeat", "LeaveGroup"):
            cluster.handlers[api] = getattr(self, "h_" + api)
            cluster.handlers["error:" + api] = getattr(self, "e_" + api)

    # ---- helpers ----------------------------------------------------------------------
    def group(self, gid):
        if gid not in self.groups:
            self.groups[gid] = Group(gid)
        return self.groups[gid]

    def is_coordinator(self, ctx, gid):
        return self.c.coordinator_for(0, gid) == ctx.node

    @property
    def log(self):
        return self.c.log

    def now(self):
        return self.c.loop.time()

    # ---- offsets -----------------------------------------------------------------------------
    def h_OffsetFetch(self, ctx):
        R = ctx.cls.RESPONSE_TYPE
        req, v = ctx.req, ctx.v
        gid = req.consumer_group
        g = self.group(gid)
        code = 0
        if not self.is_coordinator(ctx, gid):
            code = sc.NOT_COORDINATOR
        elif self.loading:
            code = sc.COORDINATOR_LOAD_IN_PROGRESS
        topics, seen = [], {}
        for topic, parts in (req.topics or []):
            ps = []
            for p in parts:
                off, meta = g.offsets.get((topic, p), (-1, "")) if code == 0 else (-1, "")
                seen[f"{topic}-{p}"] = off
                ps.append((p, off, meta, code))
            topics.append((topic, ps))
        self.log.emit("OffsetFetchReply", node=ctx.node, group=gid, code=code, offsets=seen, req=ctx.no)
        if v < 2:
            return R(topics=topics)
        if v == 2:
            return R(topics=topics, error_code=code)
        return R(throttle_time_ms=0, topics=topics, error_code=code)

    def e_OffsetFetch(self, ctx, code):
        R = ctx.cls.RESPONSE_TYPE
        req, v = ctx.req, ctx.v
        topics = [(t, [(p, -1, "", code) for p in ps]) for t, ps in (req.topics or [])]
        self.log.emit("OffsetFetchReply", node=ctx.node, group=req.consumer_group, code=code, offsets={}, req=ctx.no)
        if v < 2:
            return R(topics=topics)
        if v == 2:
            return R(topics=topics, error_code=code)
        return R(throttle_time_ms=0, topics=topics, error_code=code)

    def h_OffsetCommit(self, ctx):
        R = ctx.cls.RESPONSE_TYPE
        req, v = ctx.req, ctx.v
        gid = req.consumer_group
        g = self.group(gid)
        gen = getattr(req, "consumer_group_generation_id", -1)
        mid = getattr(req, "consumer_id", "")
        code = 0
        if not self.is_coordinator(ctx, gid):
            code = sc.NOT_COORDINATOR
        elif self.loading:
            code = sc.COORDINATOR_LOAD_IN_PROGRESS
        elif gen < 0 and mid == "":
            code = 0 if g.state == "Empty" else sc.UNKNOWN_MEMBER_ID
        elif mid not in g.members:
            code = sc.UNKNOWN_MEMBER_ID
        elif gen != g.generation:
            code = sc.ILLEGAL_GENERATION
        elif g.state == "CompletingRebalance":
            code = sc.REBALANCE_IN_PROGRESS
        offs = {}
        for topic, parts in req.topics:
            for pi in parts:
                p, off, meta = pi[0], pi[1], pi[-1]
                offs[f"{topic}-{p}"] = off
                if code == 0:
                    g.offsets[(topic, p)] = (off, meta)
        if code == 0 and mid in g.members:
            self._touch(g, g.members[mid])
        self.log.emit("OffsetCommitReply", node=ctx.node, group=gid, member=mid, gen=gen, code=code, offsets=offs,
                      req=ctx.no, state=g.state, ggen=g.generation)
        topics = [(t, [(pi[0], code) for pi in ps]) for t, ps in req.topics]
        return R(topics=topics) if v < 3 else R(throttle_time_ms=0, topics=topics)

    def e_OffsetCommit(self, ctx, code):
        R = ctx.cls.RESPONSE_TYPE
        req, v = ctx.req, ctx.v
        offs = {f"{t}-{pi[0]}": pi[1] for t, ps in req.topics for pi in ps}
        self.log.emit("OffsetCommitReply", node=ctx.node, group=req.consumer_group,
                      member=getattr(req, "consumer_id", ""), gen=getattr(req, "consumer_group_generation_id", -1),
                      code=code, offsets=offs, req=ctx.no, state="", ggen=-1)
        topics = [(t, [(pi[0], code) for pi in ps]) for t, ps in req.topics]
        return R(topics=topics) if v < 3 else R(throttle_time_ms=0, topics=topics)

    # ---- membership: filled in below (JoinGroup / SyncGroup / Heartbeat / LeaveGroup) --------
    def _touch(self, g, m):
        m.deadline = self.now() + m.session_timeout / 1000

    def h_JoinGroup(self, ctx):
        raise NotImplementedError

    def h_SyncGroup(self, ctx):
        raise NotImplementedError

    def h_Heartbeat(self, ctx):
        raise NotImplementedError

    def h_LeaveGroup(self, ctx):
        raise NotImplementedError

    e_JoinGroup = e_SyncGroup = e_Heartbeat = e_LeaveGroup = None
