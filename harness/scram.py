"""C18 helpers: symbolic SCRAM terms <-> bytes, and an independent RFC 5802 server.

Three independent pieces, none of which imports aiokafka:

* term constructors + `Interp`: the *interpretation* of the symbolic terms of
  spec/ScramHandshake.tla with hashlib/hmac/base64 (trusted base).  Terms and
  texts are plain JSON values with exactly the shape TLC (de)serialises.
* `tokens_of_*`: lossless abstraction of the bytes the client sent to a text
  (tokens); a base64 blob becomes the term of a candidate table whose value it
  equals, else an opaque term.  Whether that term is the *right* one is for TLC
  to decide.
* `RfcServer`: a byte-level SCRAM server written from RFC 5802 (no terms): it
  stores (salt, i, StoredKey, ServerKey) and verifies a proof by recomputing
  ClientKey = ClientProof XOR ClientSignature and comparing H(ClientKey) with
  StoredKey.  It supplies the recorded field `accepts`.
"""
from __future__ import annotations

import base64
import hashlib
import hmac
import json
import stringprep
import unicodedata

HASHES = {"SCRAM-SHA-256": "sha256", "SCRAM-SHA-512": "sha512"}


# ---------------------------------------------------------------------------
# terms and texts (shapes as in ScramHandshake.tla)

def Hi(p, s, i):
    return {"op": "Hi", "p": p, "s": s, "i": i}


def HMAC(k, m):
    return {"op": "HMAC", "k": k, "m": m}


def H(t):
    return {"op": "H", "of": t}


def XOR(a, b):
    return {"op": "XOR", "a": a, "b": b}


def Flip(t, bit):
    return {"op": "Flip", "of": t, "bit": bit}


def Trunc(t, n):
    return {"op": "Trunc", "of": t, "n": n}


def Lit(s):
    return {"lit": s}


def Txt(t):
    return {"txt": t}


def client_key(sp):
    return HMAC(sp, Lit("Client Key"))


def stored_key(sp):
    return H(client_key(sp))


def server_key(sp):
    return HMAC(sp, Lit("Server Key"))


def client_signature(sp, am):
    return HMAC(stored_key(sp), Txt(am))


def client_proof(sp, am):
    return XOR(client_key(sp), client_signature(sp, am))


def server_signature(sp, am):
    return HMAC(server_key(sp), Txt(am))


def ch(s: str):
    return [{"ch": ord(c)} for c in s]


def codes(s: str):
    return [ord(c) for c in s]


def render_sf(sf):
    """text of a server-first record {r: codes, s: salt atom, i: int}"""
    return (ch("r=" + "".join(map(chr, sf["r"]))) + ch(",s=") + [{"b64": sf["s"]}]
            + ch(",i=") + [{"dec": sf["i"]}])


def auth_message(bare, sf_text, fnp):
    return bare + ch(",") + sf_text + ch(",") + fnp


class Interp:
    """Interpretation of terms for one case: hash, password atoms, salt atoms."""

    def __init__(self, hashname: str, pws: dict, salts: dict):
        self.hn = hashname
        self.hf = getattr(hashlib, hashname)
        self.pws = pws          # atom -> bytes
        self.salts = salts      # atom -> bytes
        self._memo = {}

    def ev(self, t) -> bytes:
        if isinstance(t, str):             # a salt atom used as a value
            return self.salts[t]
        key = json.dumps(t, sort_keys=True)
        r = self._memo.get(key)
        if r is None:
            r = self._memo[key] = self._ev(t)
        return r

    def _ev(self, t) -> bytes:
        if "lit" in t:
            return t["lit"].encode("ascii")
        if "txt" in t:
            return self.text(t["txt"]).encode("utf-8")
        op = t["op"]
        if op == "Hi":
            return hashlib.pbkdf2_hmac(self.hn, self.pws[t["p"]], self.salts[t["s"]], t["i"])
        if op == "HMAC":
            return hmac.new(self.ev(t["k"]), self.ev(t["m"]), self.hf).digest()
        if op == "H":
            return self.hf(self.ev(t["of"])).digest()
        if op == "XOR":
            a, b = self.ev(t["a"]), self.ev(t["b"])
            assert len(a) == len(b)
            return bytes(x ^ y for x, y in zip(a, b))
        if op == "Flip":
            b = bytearray(self.ev(t["of"]))
            bit = t["bit"] % (8 * len(b))
            b[bit // 8] ^= 1 << (bit % 8)
            return bytes(b)
        if op == "Trunc":
            b = self.ev(t["of"])
            return b[:min(t["n"], len(b) - 1)]
        raise ValueError(op)

    def text(self, tokens) -> str:
        out = []
        for k in tokens:
            if "ch" in k:
                out.append(chr(k["ch"]))
            elif "b64" in k:
                out.append(base64.b64encode(self.ev(k["b64"])).decode("ascii"))
            elif "dec" in k:
                out.append(str(k["dec"]))
            else:
                raise ValueError(k)
        return "".join(out)


# ---------------------------------------------------------------------------
# bytes -> text (lossless; anything that cannot be abstracted stays visible)

def tokens_of_plain(raw: bytes):
    try:
        return ch(raw.decode("utf-8"))
    except UnicodeDecodeError:
        return [{"undecodable": raw.hex()}]


def tokens_of_client_final(raw: bytes, table: dict):
    """chars, except that the value of a trailing `p=` attribute that is canonical
    base64 becomes [b64 |-> term]; `table` maps bytes -> candidate term."""
    try:
        s = raw.decode("utf-8")
    except UnicodeDecodeError:
        return [{"undecodable": raw.hex()}], None
    i = s.rfind(",p=")
    if i < 0:
        return ch(s), None
    blob = s[i + 3:]
    try:
        val = base64.b64decode(blob.encode("ascii"), validate=True)
        if base64.b64encode(val).decode("ascii") != blob:
            raise ValueError
    except Exception:
        return ch(s), None
    term = table.get(val)
    if term is None:
        term = {"op": "Opaque", "id": val.hex()[:24], "len": len(val)}
    return ch(s[:i + 3]) + [{"b64": term}], val


# ---------------------------------------------------------------------------
# independent byte-level server (RFC 5802 sections 3, 5, 7)

class Reject(Exception):
    pass


def unescape_saslname(s: str) -> str:
    out, i = [], 0
    while i < len(s):
        c = s[i]
        if c == ",":
            raise Reject("raw comma in saslname")
        if c == "=":
            esc = s[i:i + 3]
            if esc == "=2C":
                out.append(",")
            elif esc == "=3D":
                out.append("=")
            else:
                raise Reject("bad escape in saslname")
            i += 3
        else:
            out.append(c)
            i += 1
    if not out:
        raise Reject("empty saslname")
    return "".join(out)


class RfcServer:
    def __init__(self, hashname: str, db: dict, nonce_suffix: str):
        """db: username -> (salt, iterations, StoredKey, ServerKey)"""
        self.hn, self.hf = hashname, getattr(hashlib, hashname)
        self.db, self.suffix = db, nonce_suffix
        self.bare = self.first = self.entry = self.nonce = None

    @staticmethod
    def make_entry(hashname, password: bytes, salt: bytes, iterations: int):
        hf = getattr(hashlib, hashname)
        sp = hashlib.pbkdf2_hmac(hashname, password, salt, iterations)
        ck = hmac.new(sp, b"Client Key", hf).digest()
        return (salt, iterations, hf(ck).digest(), hmac.new(sp, b"Server Key", hf).digest())

    def server_first(self, client_first: bytes) -> str:
        msg = client_first.decode("utf-8")
        if not msg.startswith("n,,"):          # no channel binding, no authzid
            raise Reject("gs2 header")
        self.bare = msg[3:]
        attrs = self.bare.split(",")
        if len(attrs) != 2 or not attrs[0].startswith("n=") or not attrs[1].startswith("r="):
            raise Reject("client-first attributes")
        user = unescape_saslname(attrs[0][2:])
        cnonce = attrs[1][2:]
        if not cnonce or any(not (0x21 <= ord(c) <= 0x7E) or c == "," for c in cnonce):
            raise Reject("nonce not printable")
        if user not in self.db:
            raise Reject("unknown user")
        self.entry = self.db[user]
        self.user, self.cnonce = user, cnonce
        self.nonce = cnonce + self.suffix
        salt, it, _, _ = self.entry
        self.first = f"r={self.nonce},s={base64.b64encode(salt).decode()},i={it}"
        return self.first

    def server_final(self, client_final: bytes):
        """-> (accepts, ServerSignature bytes computed over the server's view)"""
        _, _, stored, skey = self.entry
        try:
            msg = client_final.decode("utf-8")
        except UnicodeDecodeError:
            return False, None
        i = msg.rfind(",p=")
        if i < 0:
            return False, None
        without_proof, blob = msg[:i], msg[i + 3:]
        am = (self.bare + "," + self.first + "," + without_proof).encode("utf-8")
        sig = hmac.new(skey, am, self.hf).digest()
        ok = without_proof == "c=biws,r=" + self.nonce
        try:
            proof = base64.b64decode(blob.encode("ascii"), validate=True)
        except Exception:
            return False, sig
        csig = hmac.new(stored, am, self.hf).digest()
        if len(proof) != len(csig):
            return False, sig
        ckey = bytes(a ^ b for a, b in zip(proof, csig))
        ok = ok and hmac.compare_digest(self.hf(ckey).digest(), stored)
        return ok, sig


# ---------------------------------------------------------------------------
# credentials on which SASLprep is the identity (so that "a server knowing the
# password accepts" does not depend on a normalisation the property does not
# talk about)

def saslprep_stable(s: str) -> bool:
    if not s or unicodedata.normalize("NFKC", s) != s:
        return False
    for c in s:
        if (stringprep.in_table_b1(c) or stringprep.in_table_c12(c) or stringprep.in_table_c21_c22(c)
                or stringprep.in_table_c3(c) or stringprep.in_table_c4(c) or stringprep.in_table_c5(c)
                or stringprep.in_table_c6(c) or stringprep.in_table_c7(c) or stringprep.in_table_c8(c)
                or stringprep.in_table_c9(c) or stringprep.in_table_a1(c) or stringprep.in_table_d1(c)):
            return False
    return True
