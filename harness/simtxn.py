"""Transaction coordinator of the simulated cluster (Kafka's rules).

InitProducerId with a transactional id (epoch bump, fencing of the old instance, abort of
its pending transaction), AddPartitionsToTxn, AddOffsetsToTxn, EndTxn with asynchronous
marker writes (and the CONCURRENT_TRANSACTIONS window while they are in flight),
TxnOffsetCommit at the group coordinator (offsets pending until the marker).
Mirrored by the environment actions of spec/TxnProducer.tla."""
from __future__ import annotations

from . import kbatch
from . import simcluster as sc
from .simcluster import DEFER


class Txn:
    def __init__(self, tid, pid):
        self.tid, self.pid, self.epoch = tid, pid, -1
        self.state = "Empty"          # Empty | Ongoing | PrepareCommit | PrepareAbort
        self.parts = set()            # (topic, p) added to the open transaction
        self.groups = set()
        self.markers_left = 0
        self.no = 0                   # number of transactions ended (for labelling)
        self.last_end = None          # result of the last ended transaction (EndTxn retries are idempotent)


class TxnCoordinatorSim:
    def __init__(self, cluster, *, marker_delay=0.004):
        self.c = cluster
        self.txns: dict[str, Txn] = {}
        self.marker_delay = marker_delay
        self.loading = False
        self.pending_offsets = {}      # (pid, group) -> {(topic,p): (offset, meta)}
        cluster.txn = self
        for api in ("AddPartitionsToTxn", "AddOffsetsToTxn", "EndTxn", "TxnOffsetCommit"):
            cluster.handlers[api] = getattr(self, "h_" + api)

    @property
    def log(self):
        return self.c.log

    def is_coord(self, ctx, tid):
        return self.c.coordinator_for(1, tid) == ctx.node

    # ---- InitProducerId ---------------------------------------------------------------------
    def init_pid(self, cluster, ctx):
        R = ctx.cls.RESPONSE_TYPE
        tid = ctx.req.transactional_id

        def rep(code, pid=-1, epoch=-1):
            self.log.emit("InitPidReply", tid=tid, code=code, pid=pid, epoch=epoch, node=ctx.node, client=ctx.client_id)
            return R(throttle_time_ms=0, error_code=code, producer_id=pid, producer_epoch=epoch)

        if not self.is_coord(ctx, tid):
            return rep(sc.NOT_COORDINATOR)
        if self.loading:
            return rep(sc.COORDINATOR_LOAD_IN_PROGRESS)
        t = self.txns.get(tid)
        if t is None:
            cluster.next_pid += 1
            t = self.txns[tid] = Txn(tid, cluster.next_pid)
        if t.state in ("PrepareCommit", "PrepareAbort"):
            return rep(sc.CONCURRENT_TRANSACTIONS)
        if t.state == "Ongoing":
            # fence the old instance first: bump the epoch, abort its transaction; the new
            # instance retries until the abort markers are written
            t.epoch += 1
            self._end(t, commit=False, why="fenced")
            return rep(sc.CONCURRENT_TRANSACTIONS)
        t.epoch += 1
        return rep(0, t.pid, t.epoch)

    def fence(self, tid):
        """another instance with the same transactional id took over (its InitProducerId is not part
        of the trace): epoch bump, the open transaction is aborted"""
        t = self.txns.get(tid)
        if t is None or t.state in ("PrepareCommit", "PrepareAbort"):
            return False
        t.epoch += 1
        if t.state == "Ongoing":
            self._end(t, commit=False, why="fenced")
        else:
            self.log.emit("InitPidReply", tid=tid, code=0, pid=t.pid, epoch=t.epoch, node=-1, client="ghost")
        return True

    # ---- common checks ---------------------------------------------------------------------------
    def _check(self, ctx, tid, pid, epoch):
        if not self.is_coord(ctx, tid):
            return sc.NOT_COORDINATOR
        if self.loading:
            return sc.COORDINATOR_LOAD_IN_PROGRESS
        t = self.txns.get(tid)
        if t is None or t.pid != pid:
            return sc.INVALID_PRODUCER_ID_MAPPING
        if epoch != t.epoch:
            return sc.INVALID_PRODUCER_EPOCH
        if t.state in ("PrepareCommit", "PrepareAbort"):
            return sc.CONCURRENT_TRANSACTIONS
        return 0

    def h_AddPartitionsToTxn(self, ctx):
        R = ctx.cls.RESPONSE_TYPE
        req = ctx.req
        code = self._check(ctx, req.transactional_id, req.producer_id, req.producer_epoch)
        tps = [(t, p) for t, ps in req.topics for p in ps]
        if code == 0:
            t = self.txns[req.transactional_id]
            t.state = "Ongoing"
            t.parts.update(tps)
        self.log.emit("AddPartitionsReply", tid=req.transactional_id, code=code, tps=[f"{a}-{b}" for a, b in tps],
                      epoch=req.producer_epoch, node=ctx.node, client=ctx.client_id)
        return R(throttle_time_ms=0, errors=[(t, [(p, code) for p in ps]) for t, ps in req.topics])

    def h_AddOffsetsToTxn(self, ctx):
        R = ctx.cls.RESPONSE_TYPE
        req = ctx.req
        code = self._check(ctx, req.transactional_id, req.producer_id, req.producer_epoch)
        if code == 0:
            t = self.txns[req.transactional_id]
            t.state = "Ongoing"
            t.groups.add(req.group_id)
        self.log.emit("AddOffsetsReply", tid=req.transactional_id, code=code, group=req.group_id, epoch=req.producer_epoch,
                      node=ctx.node, client=ctx.client_id)
        return R(throttle_time_ms=0, error_code=code)

    def h_TxnOffsetCommit(self, ctx):
        R = ctx.cls.RESPONSE_TYPE
        req = ctx.req
        gid = req.group_id
        code = 0
        if self.c.coordinator_for(0, gid) != ctx.node:
            code = sc.NOT_COORDINATOR
        else:
            t = self.txns.get(req.transactional_id)
            if t is None or t.pid != req.producer_id:
                code = sc.INVALID_PRODUCER_ID_MAPPING
            elif t.epoch != req.producer_epoch:
                code = sc.INVALID_PRODUCER_EPOCH
        offs = {}
        for topic, parts in req.topics:
            for p, off, meta in parts:
                offs[f"{topic}-{p}"] = off
                if code == 0:
                    self.pending_offsets.setdefault((req.producer_id, gid), {})[(topic, p)] = (off, meta)
        self.log.emit("TxnOffsetCommitReply", tid=req.transactional_id, code=code, group=gid, offsets=offs,
                      epoch=req.producer_epoch, node=ctx.node, client=ctx.client_id)
        return R(throttle_time_ms=0, errors=[(t, [(p[0], code) for p in ps]) for t, ps in req.topics])

    def h_EndTxn(self, ctx):
        R = ctx.cls.RESPONSE_TYPE
        req = ctx.req
        code = self._check(ctx, req.transactional_id, req.producer_id, req.producer_epoch)
        commit = bool(req.transaction_result)
        if code == 0:
            t = self.txns[req.transactional_id]
            if t.state == "Empty" and t.last_end is commit and t.last_end_epoch == req.producer_epoch:
                pass                   # retry of an EndTxn whose reply was lost: already done
            elif t.state != "Ongoing":
                code = sc.INVALID_TXN_STATE
            else:
                self._end(t, commit=commit, why="EndTxn")
        self.log.emit("EndTxnReply", tid=req.transactional_id, code=code, commit=commit, epoch=req.producer_epoch,
                      node=ctx.node, client=ctx.client_id)
        return R(throttle_time_ms=0, error_code=code)

    # ---- markers -------------------------------------------------------------------------------------------
    def _end(self, t: Txn, *, commit: bool, why: str):
        t.state = "PrepareCommit" if commit else "PrepareAbort"
        t.no += 1
        t.last_end, t.last_end_epoch = commit, t.epoch
        parts = sorted(t.parts)
        groups = sorted(t.groups)
        self.log.emit("TxnPrepare", tid=t.tid, commit=commit, why=why, tps=[f"{a}-{b}" for a, b in parts],
                      groups=groups, epoch=t.epoch)
        t.markers_left = len(parts) + len(groups)
        if t.markers_left == 0:
            self._complete(t, commit)
            return
        d = self.marker_delay
        for i, tp in enumerate(parts):
            self.c.loop.call_later(d * (i + 1), self._write_marker, t, tp, commit, context=self.c.ctx)
        for j, g in enumerate(groups):
            self.c.loop.call_later(d * (len(parts) + j + 1), self._group_marker, t, g, commit, context=self.c.ctx)

    def _write_marker(self, t, tp, commit):
        pl = self.c.parts[tp]
        off = pl.leo
        k, v = kbatch.control_record(commit)
        data = kbatch.write_v2(off, [(0, self.c.now_ms(), k, v, [])], pid=t.pid, epoch=max(t.epoch, 0), seq=-1,
                               txnl=True, control=True)
        pl.batches.append({"base": off, "last": off, "bytes": data, "pid": t.pid, "txnl": True, "control": True,
                           "offs": [], "rids": [], "magic": 2, "marker": "commit" if commit else "abort"})
        first = pl.open_txns.pop(t.pid, None)
        if not commit and first is not None:
            pl.aborted.append((t.pid, first, off))
        pl.leo = off + 1
        self.log.emit("WriteMarker", tid=t.tid, tp=f"{tp[0]}-{tp[1]}", commit=commit, off=off)
        self._marker_done(t, commit)

    def _group_marker(self, t, gid, commit):
        pend = self.pending_offsets.pop((t.pid, gid), {})
        if commit and self.c.groups is not None:
            g = self.c.groups.group(gid)
            for tp, om in pend.items():
                g.offsets[tp] = om
        self.log.emit("GroupMarker", tid=t.tid, group=gid, commit=commit,
                      offsets={f"{a}-{b}": o for (a, b), (o, _m) in pend.items()})
        self._marker_done(t, commit)

    def _marker_done(self, t, commit):
        t.markers_left -= 1
        if t.markers_left == 0:
            self._complete(t, commit)

    def _complete(self, t, commit):
        t.state = "Empty"
        t.parts = set()
        t.groups = set()
        self.log.emit("TxnComplete", tid=t.tid, commit=commit)

    # ---- produce-side check (partition leader) ------------------------------------------------------------------
    def check_produce(self, cluster, pl, pid, epoch, txn_id):
        """brokers only know producer epochs (fencing); membership of the partition in the
        transaction is NOT verified by the leader (pre KIP-890) -- it is observed by the spec"""
        t = next((x for x in self.txns.values() if x.pid == pid), None)
        if t is not None and epoch < t.epoch:
            return sc.INVALID_PRODUCER_EPOCH
        return 0
