"""C11 helpers: projection of aiokafka.protocol types/values to the
representation of spec/WireTypes.tla, value generation from a schema shape,
and a small reference encoder used only to *write decoder inputs* (its output
is judged by TLC like everything else, it is not an oracle).

aiokafka is imported lazily: the runner puts the snapshot on sys.path first."""
from __future__ import annotations

import struct

INT_BYTES = {"i8": 1, "i16": 2, "i32": 4, "i64": 8, "vi32": 4, "vi64": 8}


def ival(n: int) -> dict:
    """integer -> [neg, mag] (little-endian magnitude, no trailing zero byte)"""
    m, mag = abs(n), []
    while m:
        mag.append(m & 0xFF)
        m >>= 8
    return {"neg": n < 0, "mag": mag}


def unival(x: dict) -> int:
    m = sum(b << (8 * i) for i, b in enumerate(x["mag"]))
    return -m if x["neg"] else m


def shape(t) -> dict:
    """protocol type object -> type descriptor of WireTypes"""
    from aiokafka.protocol import types as T

    if isinstance(t, T.Schema):
        return {"k": "s", "f": [shape(f) for f in t.fields]}
    if isinstance(t, T.CompactArray):
        return {"k": "ca", "of": shape(t.array_of)}
    if isinstance(t, T.Array):
        return {"k": "a", "of": shape(t.array_of)}
    if isinstance(t, T.CompactString):
        return {"k": "cstr"}
    if isinstance(t, T.String):
        if t.encoding.lower().replace("-", "") != "utf8":
            raise TypeError(f"string encoding {t.encoding}")
        return {"k": "str"}
    table = {T.Int8: "i8", T.Int16: "i16", T.Int32: "i32", T.Int64: "i64", T.UInt32: "u32",
             T.Float64: "f64", T.Boolean: "bool", T.Bytes: "bytes", T.CompactBytes: "cbytes",
             T.UnsignedVarInt32: "uv", T.VarInt32: "vi32", T.VarInt64: "vi64", T.TaggedFields: "tags"}
    if isinstance(t, type) and t in table:
        return {"k": table[t]}
    raise TypeError(f"unknown protocol type {t!r}")


def sig(sh: dict) -> str:
    k = sh["k"]
    if k == "s":
        return "(" + ",".join(sig(f) for f in sh["f"]) + ")"
    if k in ("a", "ca"):
        return k + "[" + sig(sh["of"]) + "]"
    return k


def kinds_in(sh: dict, acc=None) -> set:
    acc = set() if acc is None else acc
    acc.add(sh["k"])
    for f in sh.get("f", []):
        kinds_in(f, acc)
    if "of" in sh:
        kinds_in(sh["of"], acc)
    return acc


def int_range(k: str):
    if k in ("u32", "uv"):
        return 0, (1 << 32) - 1
    n = INT_BYTES[k] * 8
    return -(1 << (n - 1)), (1 << (n - 1)) - 1


def to_tv(sh: dict, v):
    """python value (as given to encode / returned by decode) -> WireTypes value.
    Raises TypeError when the python value does not have the type's form."""
    k = sh["k"]
    if k in INT_BYTES or k in ("u32", "uv"):
        if not isinstance(v, int) or isinstance(v, bool):
            raise TypeError(f"{k}: {v!r}")
        return ival(v)
    if k == "bool":
        if not isinstance(v, bool):
            raise TypeError(f"bool: {v!r}")
        return v
    if k == "f64":
        if not isinstance(v, float):
            raise TypeError(f"f64: {v!r}")
        return list(struct.pack(">d", v))
    if k in ("str", "cstr"):
        if v is None:
            return []
        if not isinstance(v, str):
            raise TypeError(f"{k}: {v!r}")
        return [list(v.encode("utf-8"))]
    if k in ("bytes", "cbytes"):
        if v is None:
            return []
        if not isinstance(v, (bytes, bytearray)):
            raise TypeError(f"{k}: {v!r}")
        return [list(v)]
    if k in ("a", "ca"):
        if v is None:
            return []
        if not isinstance(v, (list, tuple)):
            raise TypeError(f"{k}: {v!r}")
        return [[to_tv(sh["of"], x) for x in v]]
    if k == "s":
        if not isinstance(v, (list, tuple)) or len(v) != len(sh["f"]):
            raise TypeError(f"struct: {v!r}")
        return [to_tv(f, x) for f, x in zip(sh["f"], v)]
    if k == "tags":
        if not isinstance(v, dict):
            raise TypeError(f"tags: {v!r}")
        return [[ival(t), list(b)] for t, b in v.items()]
    raise TypeError(k)


# ---------------------------------------------------------------------------
# value generation

_EDGE = [0, 1, -1, 2, 63, 64, -64, -65, 127, 128, -128, -129, 255, 256, 8191, 8192, -8192, -8193,
         32767, 32768, -32768, -32769, 65535, 65536, 1048575, 1048576, (1 << 31) - 1, 1 << 31,
         -(1 << 31), -(1 << 31) - 1, (1 << 32) - 1, 1 << 32, (1 << 63) - 1, -(1 << 63)]
_STRS = ["", "a", "topic-1", "héllo", "ж", "日本語", "\U0001F600", "x" * 20, "\x00nul", "a b\tc"]


def gen(sh: dict, rng, *, tags_nonempty=False, depth=0):
    """an in-range python value for the shape (seeded)"""
    k = sh["k"]
    if k in INT_BYTES or k in ("u32", "uv"):
        lo, hi = int_range(k)
        r = rng.random()
        if r < 0.45:
            c = [x for x in _EDGE if lo <= x <= hi] + [lo, hi, lo + 1, hi - 1]
            return rng.choice(c)
        if r < 0.7:
            return rng.randint(max(lo, -300), min(hi, 300))
        return rng.randint(lo, hi)
    if k == "bool":
        return rng.random() < 0.5
    if k == "f64":
        return rng.choice([0.0, -0.0, 1.5, -2.25, float("inf"), float("-inf"), 5e-324,
                           1.7976931348623157e308, rng.uniform(-1e9, 1e9), rng.random()])
    if k in ("str", "cstr"):
        r = rng.random()
        if r < 0.12:
            return None
        if r < 0.8:
            return rng.choice(_STRS)
        if r < 0.9:
            return "".join(rng.choice("abcXYZ019-_.é") for _ in range(rng.choice([126, 127, 128, 129])))
        return "".join(chr(rng.choice([rng.randrange(32, 127), rng.randrange(0xA0, 0x800),
                                       rng.randrange(0x4E00, 0x4F00)])) for _ in range(rng.randrange(1, 12)))
    if k in ("bytes", "cbytes"):
        r = rng.random()
        if r < 0.12:
            return None
        if r < 0.25:
            return b""
        n = rng.choice([126, 127, 128, 129, 300]) if r > 0.93 else rng.randrange(1, 24)
        return bytes(rng.randrange(256) for _ in range(n))
    if k in ("a", "ca"):
        r = rng.random()
        if r < 0.1:
            return None
        if r < 0.22:
            return []
        n = rng.choice([1, 1, 2, 3]) if depth < 2 else rng.choice([1, 2])
        return [gen(sh["of"], rng, tags_nonempty=tags_nonempty, depth=depth + 1) for _ in range(n)]
    if k == "s":
        return tuple(gen(f, rng, tags_nonempty=tags_nonempty, depth=depth) for f in sh["f"])
    if k == "tags":
        if not tags_nonempty or rng.random() < 0.3:
            return {}
        out, tag = {}, 0
        for _ in range(rng.choice([1, 1, 2, 3])):
            tag += rng.choice([1, 1, 2, 126, 127, 128, 20000])
            out[tag] = bytes(rng.randrange(256) for _ in range(rng.choice([0, 1, 3, 127, 128])))
        return out
    raise TypeError(k)


# ---------------------------------------------------------------------------
# reference encoder (writes decoder inputs only)

def _uv(n: int) -> bytes:
    out = bytearray()
    while n >= 0x80:
        out.append((n & 0x7F) | 0x80)
        n >>= 7
    out.append(n)
    return bytes(out)


def ref_enc(sh: dict, v) -> bytes:
    k = sh["k"]
    if k in ("i8", "i16", "i32", "i64"):
        return v.to_bytes(INT_BYTES[k], "big", signed=True)
    if k == "u32":
        return v.to_bytes(4, "big")
    if k == "uv":
        return _uv(v)
    if k in ("vi32", "vi64"):
        return _uv(2 * v if v >= 0 else -2 * v - 1)
    if k == "bool":
        return b"\x01" if v else b"\x00"
    if k == "f64":
        return struct.pack(">d", v)
    if k in ("str", "bytes"):
        w = 2 if k == "str" else 4
        if v is None:
            return (-1).to_bytes(w, "big", signed=True)
        b = v.encode("utf-8") if k == "str" else bytes(v)
        return len(b).to_bytes(w, "big") + b
    if k in ("cstr", "cbytes"):
        if v is None:
            return b"\x00"
        b = v.encode("utf-8") if k == "cstr" else bytes(v)
        return _uv(len(b) + 1) + b
    if k == "a":
        if v is None:
            return b"\xff\xff\xff\xff"
        return len(v).to_bytes(4, "big") + b"".join(ref_enc(sh["of"], x) for x in v)
    if k == "ca":
        if v is None:
            return b"\x00"
        return _uv(len(v) + 1) + b"".join(ref_enc(sh["of"], x) for x in v)
    if k == "s":
        return b"".join(ref_enc(f, x) for f, x in zip(sh["f"], v))
    if k == "tags":
        return _uv(len(v)) + b"".join(_uv(t) + _uv(len(b)) + b for t, b in v.items())
    raise TypeError(k)
