"""Common skeleton of every check: scratch build, run, triage against known
findings, evidence file, exit code.

exit 0  property held on everything explored (known findings are printed)
exit 1  VIOLATION property=<id> replay=<path>   (not listed in known_findings)
exit 2  machinery failure (TLC crash, harness exception, missing hook target)
"""
from __future__ import annotations

import argparse
import hashlib
import importlib
import json
import os
import re
import sys
import time
import traceback
from dataclasses import dataclass, field
from pathlib import Path

from . import build
from .tlc import MachineryError

VERIF = Path(__file__).resolve().parent.parent
EVID = VERIF / "evidence"
REPLAYS = VERIF / "replays"
FINDINGS = VERIF / "known_findings.json"


@dataclass
class Violation:
    signature: str          # stable, specific: scenario class + failing clause + key fields
    detail: dict            # everything needed to replay (scenario, seed, trace, verdict)


@dataclass
class Report:
    level: str = "model_checking"
    states: int = 0                 # distinct states (sum over TLC runs)
    transitions: int = 0            # states generated (sum over TLC runs)
    traces: int = 0                 # traces of the real implementation validated by TLC
    samples: list = field(default_factory=list)
    violations: list = field(default_factory=list)
    extra: dict = field(default_factory=dict)
    assumptions: list = field(default_factory=list)
    mc_runs: list = field(default_factory=list)

    def add_mc(self, name: str, res: dict, need_actions: list[str] | None = None):
        """Account a TLC model-checking run; spec-level violation => machinery/spec
        problem unless the caller handles it."""
        self.states += res.get("distinct", 0)
        self.transitions += res.get("states", 0)
        cov = {k: v[1] for k, v in res.get("coverage", {}).items()}
        self.mc_runs.append({"name": name, "cmd": res["cmd"], "distinct": res.get("distinct"),
                             "generated": res.get("states"), "depth": res.get("depth"),
                             "wall_s": res["wall_s"], "violated": res.get("violated"),
                             "timed_out": res.get("timed_out", False),
                             "action_counts": cov})
        if need_actions:
            missing = [a for a in need_actions if cov.get(a, 0) == 0]
            if missing:
                raise MachineryError(f"vacuity: actions never taken in {name}: {missing}")


class Ctx:
    def __init__(self, pid: str, tier: str, seed: int, scratch: Path, replay: str | None):
        self.pid, self.tier, self.seed, self.scratch, self.replay = pid, tier, seed, scratch, replay
        self.quick = tier == "quick"
        self.t0 = time.time()

    def elapsed(self):
        return time.time() - self.t0


def load_findings(pid: str):
    if not FINDINGS.exists():
        return []
    data = json.loads(FINDINGS.read_text())
    return [f for f in data.get("findings", []) if f["property"] == pid or pid in f.get("also", [])]


def _check_evidence_shape(ev):
    """the keys /root/.vp/EVIDENCE.schema.json types (stdlib only: the schema validator lives in another venv)"""
    cov = ev["coverage"]
    ints = ("evaluations", "distinct_nontrivial", "states", "transitions", "traces_validated_against_impl", "obligations",
            "discharged", "programs", "disagreements_checked")
    for k in ints:
        if k in cov and not (isinstance(cov[k], int) and not isinstance(cov[k], bool) and cov[k] >= 0):
            raise MachineryError(f"evidence: coverage.{k} must be a non-negative integer, got {cov[k]!r}")
    if "exhaustive" in cov and not isinstance(cov["exhaustive"], bool):
        raise MachineryError(f"evidence: coverage.exhaustive must be a boolean, got {type(cov['exhaustive']).__name__}")
    for k in ("rule", "explanation", "checker_cmd"):
        if k in cov and not isinstance(cov[k], str):
            raise MachineryError(f"evidence: coverage.{k} must be a string")
    if "samples" in cov and not isinstance(cov["samples"], list):
        raise MachineryError("evidence: coverage.samples must be a list")


def write_evidence(pid, tier, seed, rep: Report, wall, nviol):
    cov = {
        "states": rep.states,
        "transitions": rep.transitions,
        "traces_validated_against_impl": rep.traces,
        "samples": rep.samples[:8] if rep.samples else [],
        "mc_runs": rep.mc_runs,
    }
    cov.update(rep.extra)
    ev = {
        "property_id": pid, "tier": tier, "seed": seed, "level": rep.level,
        "coverage": cov, "assumptions": rep.assumptions, "wall_s": round(wall, 2),
        "violations": nviol,
    }
    _check_evidence_shape(ev)
    EVID.mkdir(exist_ok=True)
    suffix = os.environ.get("VERIF_EVID_SUFFIX", "")       # seeded-mutant runs must not clobber real evidence
    (EVID / f"{pid}{suffix}.json").write_text(json.dumps(ev, indent=1, default=str) + "\n")


def main(argv=None):
    ap = argparse.ArgumentParser()
    ap.add_argument("pid")
    ap.add_argument("--tier", default=os.environ.get("VERIF_TIER", "quick"), choices=["quick", "thorough"])
    ap.add_argument("--replay", default=None)
    ap.add_argument("--seed", type=int, default=int(os.environ.get("VERIF_SEED", "0") or 0))
    a = ap.parse_args(argv)
    pid = a.pid.upper()
    os.environ.setdefault("PYTHONHASHSEED", "0")
    t0 = time.time()
    try:
        mod = importlib.import_module(f"checks.{pid.lower()}")
        with build.Scratch() as scratch:
            build.activate(scratch)
            ctx = Ctx(pid, a.tier, a.seed, scratch, a.replay)
            rep: Report = mod.run(ctx)
    except MachineryError as e:
        print(f"MACHINERY-FAILURE property={pid}: {e}", flush=True)
        return 2
    except Exception:
        traceback.print_exc()
        print(f"MACHINERY-FAILURE property={pid}: harness exception", flush=True)
        return 2
    wall = time.time() - t0
    known = load_findings(pid)
    open_f = [f for f in known if f.get("status") == "open"]
    printed, real = set(), []
    for v in rep.violations:
        hit = next((f for f in open_f if re.fullmatch(f["signature"], v.signature)), None)
        if hit is not None:
            if hit["id"] not in printed:
                printed.add(hit["id"])
                print(f"KNOWN-FINDING: property={pid} {hit['what']} [{hit['id']}]", flush=True)
        else:
            real.append(v)
    seen = set()
    for v in real:
        if v.signature in seen:
            continue
        seen.add(v.signature)
        h = hashlib.sha1(json.dumps(v.detail, sort_keys=True, default=str).encode()).hexdigest()[:12]
        d = (Path("/var/tmp/seed_replays") if os.environ.get("VERIF_EVID_SUFFIX") else REPLAYS) / pid
        d.mkdir(parents=True, exist_ok=True)
        path = d / f"{h}.json"
        path.write_text(json.dumps({"property": pid, "signature": v.signature, "detail": v.detail},
                                   indent=1, default=str))
        print(f"VIOLATION property={pid} replay={path}", flush=True)
        print(f"  signature: {v.signature}", flush=True)
        if len(seen) >= 10:
            break
    rep.extra["known_findings_reproduced"] = sorted(printed)
    try:
        write_evidence(pid, a.tier, a.seed, rep, wall, len(real))
    except MachineryError as e:
        print(f"MACHINERY-FAILURE property={pid}: {e}", flush=True)
        return 2
    print(f"{pid} tier={a.tier} seed={a.seed} states={rep.states} transitions={rep.transitions} "
          f"traces={rep.traces} violations={len(real)} known={len(printed)} wall={wall:.1f}s", flush=True)
    return 1 if real else 0


if __name__ == "__main__":
    sys.exit(main())
