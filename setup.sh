#!/bin/sh
# offline setup: sanity-check tools, parse all specs, warm the extension cache
cd "$(dirname "$0")" || exit 2
set -e
java -version 2>&1 | head -1
/venv/bin/python -c "import hypothesis, async_timeout; print('python ok')"
/venv/bin/python -m harness.build >/dev/null
for f in spec/*.tla; do
  m=$(basename "$f" .tla)
  (cd spec && java -cp /opt/veriftools/tla/tla2tools.jar:/opt/veriftools/tla/CommunityModules-deps.jar tla2sany.SANY "$m.tla" >/tmp/sany.$$ 2>&1) || { cat /tmp/sany.$$; rm -f /tmp/sany.$$; exit 1; }
  if grep -q -E "Fatal errors|Parse Error|Semantic errors" /tmp/sany.$$; then cat /tmp/sany.$$; rm -f /tmp/sany.$$; exit 1; fi
done
rm -f /tmp/sany.$$
echo "setup ok"
